(** * JsonClass — model of jsonrpclib/jsonclass.py (dump / load), of the
    use_jsonclass gates of jsonrpc.py (dump / load / loads) and of the -32700
    conversion at the head of SimpleJSONRPCServer._marshaled_dispatch.

    Serves properties C15, C08, C07 and C20.  Definitions only; proofs are in
    Proofs/JsonClass*.v.

    The model follows the REPAIRED code (findings F4: `classes` forwarded by
    the recursive calls of lines 238/242; F9: try/finally around the setattr
    loop; F15: name-mangled __slots__ entries are looked up under their stored
    name).  The three repairs are switchable through a [variant] record so that
    the pinned behaviour can be evaluated and refuted in Examples/ without
    copying the functions; every theorem is about [fixed]. *)

From JR Require Export PyOps.
From Coq Require Import Ascii.

(** ** Small string / field-list helpers *)

Fixpoint suffixb (p s : string) : bool :=
  String.eqb p s || match s with EmptyString => false | String _ s' => suffixb p s' end.

Fixpoint lstrip_us (s : string) : string :=
  match s with
  | String "_" s' => lstrip_us s'
  | _ => s
  end.

Definition mem_str (s : str) (l : list str) : bool := existsb (String.eqb s) l.

(** attribute maps of instances ([__dict__] / set slots): insertion ordered *)
Fixpoint flookup (k : str) (fs : list (str * val)) : option val :=
  match fs with
  | [] => None
  | (k', v) :: r => if String.eqb k k' then Some v else flookup k r
  end.

Fixpoint fset (fs : list (str * val)) (k : str) (v : val) : list (str * val) :=
  match fs with
  | [] => [(k, v)]
  | (k', v') :: r => if String.eqb k k' then (k', v) :: r else (k', v') :: fset r k v
  end.

Definition fset_all (init items : list (str * val)) : list (str * val) :=
  fold_left (fun acc kv => fset acc (fst kv) (snd kv)) items init.

Fixpoint sassoc {A} (k : str) (m : list (str * A)) : option A :=
  match m with
  | [] => None
  | (k', v) :: r => if String.eqb k k' then Some v else sassoc k r
  end.

(** [d.update(other)] *)
Definition dupdate (m other : list (val * val)) : list (val * val) :=
  fold_left (fun acc kv => dset acc (fst kv) (snd kv)) other m.

(** ** Class table (DESIGN.md 3.4 / 3.7): what the Python attribute protocol,
    [inspect.getmodule], [__import__] and the generated constructors do is
    written into this table — modelled, not verified. *)

Inductive ckind :=
| KDict                      (* ordinary class: instances have a __dict__ *)
| KSlot                      (* class with tuple __slots__ (and slotted bases only) *)
| KSer (dict_params : bool)  (* __dict__ class with a serialisation method returning (params, attrs);
                                params is a list (false) or a dict (true) of the constructor arguments *)
| KEnum                      (* enum.Enum subclass, not derived from a primitive *)
| KDecimal.                  (* decimal.Decimal *)

Record classdef := mkClass {
  c_kind : ckind;
  c_module : str;                 (* inspect.getmodule(cls).__name__ ; "__main__" or "" for local classes *)
  c_name : str;                   (* cls.__name__ *)
  c_bases : list str;             (* class ids of cls.__bases__ (object omitted) *)
  c_slots : list str;             (* own __slots__ as written in the class body *)
  c_params : list str;            (* constructor parameters: all required, each stored as the attribute of the same name *)
  c_defaults : list (str * val);  (* attributes the own __init__ sets after the bases' __init__ and the parameters *)
  c_ser_name : str;               (* name under which the class defines its serialisation method ("" = none) *)
  c_ign : option (str * val);     (* class attribute holding an ignore list: its name and value *)
  c_members : list val            (* enum: the member values *)
}.

Definition ctab := list (str * classdef).

(** The table lists a class before its bases, so that the walks over
    [__bases__] below are structurally recursive on the table. *)
Fixpoint find_class (tab : ctab) (cid : str) : option classdef :=
  match tab with
  | [] => None
  | (c, d) :: rest => if String.eqb c cid then Some d else find_class rest cid
  end.

Record variant := mkVariant {
  v_finally : bool;       (* F9: restore "__jsonclass__" in a finally clause *)
  v_forward : bool;       (* F4: recursive load calls of lines 238/242 forward `classes` *)
  v_mangle : bool         (* F15: _slots_finder reports private slots under their mangled name *)
}.
Definition fixed : variant := mkVariant true true true.

(** private-name mangling of the class body: __x in class C is stored as _C__x *)
Definition mangle (cname s : str) : str :=
  if prefixb "__" s && negb (suffixb "__" s) then "_" ++ lstrip_us cname ++ s else s.

(** [_slots_finder(clazz, fields_set)] (64-79): own __slots__, then the bases, recursively *)
Fixpoint slots_finder (V : variant) (tab : ctab) (cid : str) : list str :=
  match tab with
  | [] => []
  | (c, d) :: rest =>
      if String.eqb c cid
      then (map (fun s => if v_mangle V then mangle (c_name d) s else s) (c_slots d)
              ++ flat_map (slots_finder V rest) (c_bases d))%list
      else slots_finder V rest cid
  end.

(** names under which slot descriptors really exist (what setattr accepts) *)
Definition real_slots (tab : ctab) (cid : str) : list str := slots_finder fixed tab cid.

(** [type(obj).__mro__] as class ids, the class itself first *)
Fixpoint ancestors (tab : ctab) (cid : str) : list str :=
  match tab with
  | [] => []
  | (c, d) :: rest =>
      if String.eqb c cid then c :: flat_map (ancestors rest) (c_bases d)
      else ancestors rest cid
  end.

(** state of [cls( *args )] for the generated Python classes:
    bases' __init__ first, then the parameters, then the own defaults *)
Fixpoint ctor_fields (tab : ctab) (cid : str) (args : list (str * val)) : list (str * val) :=
  match tab with
  | [] => []
  | (c, d) :: rest =>
      if String.eqb c cid
      then fset_all (fset_all (flat_map (fun b => ctor_fields rest b []) (c_bases d)) args) (c_defaults d)
      else ctor_fields rest cid args
  end.

(** first class of the MRO that satisfies [p] *)
Definition mro_find (tab : ctab) (cid : str) (p : classdef -> bool) : option classdef :=
  (fix go (l : list str) : option classdef :=
     match l with
     | [] => None
     | c :: r => match find_class tab c with
                 | Some d => if p d then Some d else go r
                 | None => go r
                 end
     end) (ancestors tab cid).

Record pyenv := mkEnv {
  e_ctab : ctab;
  e_modules : list str            (* importable module names *)
}.

(** ** Types, handlers, configuration *)

Inductive tyid :=
| TNone | TBool | TInt | TFloat | TStr | TList | TTuple | TSet | TFrozen | TDict
| TClass (cid : str) | TOpaque (tag : N).

Definition type_of (v : val) : tyid :=
  match v with
  | VNone => TNone | VBool _ => TBool | VInt _ => TInt | VFlt _ => TFloat | VStr _ => TStr
  | VList _ => TList | VTuple _ => TTuple | VSet _ => TSet | VFrozen _ => TFrozen | VDict _ => TDict
  | VInst c _ => TClass c | VEnum c _ => TClass c | VDec _ => TClass "decimal.Decimal"
  | VOpaque t => TOpaque t
  end.

Definition tyid_eqb (a b : tyid) : bool :=
  match a, b with
  | TNone, TNone | TBool, TBool | TInt, TInt | TFloat, TFloat | TStr, TStr | TList, TList
  | TTuple, TTuple | TSet, TSet | TFrozen, TFrozen | TDict, TDict => true
  | TClass x, TClass y => String.eqb x y
  | TOpaque x, TOpaque y => N.eqb x y
  | _, _ => false
  end.

Record config := mkCfg {
  cf_use : bool;                            (* use_jsonclass *)
  cf_ser : str;                             (* serialize_method *)
  cf_ign : str;                             (* ignore_attribute *)
  cf_handlers : list (tyid * option N);     (* serialize_handlers: type -> handler id, or None *)
  cf_classes : list (str * str)             (* Config.classes: local name -> class id *)
}.

Fixpoint handler_entry (t : tyid) (hs : list (tyid * option N)) : option (option N) :=
  match hs with
  | [] => None
  | (t', h) :: r => if tyid_eqb t t' then Some h else handler_entry t r
  end.

(** lines 131-140: a handler applies when the exact type is a key and the entry is not None *)
Definition handler_for (cfg : config) (t : tyid) : option N :=
  match handler_entry t (cf_handlers cfg) with
  | Some (Some h) => Some h
  | _ => None
  end.

(** SUPPORTED_TYPES (48-50) with the type tables of utils.py:155-164 *)
Definition supported_ty (t : tyid) : bool :=
  match t with
  | TClass _ | TOpaque _ => false
  | _ => true
  end.

(** [isinstance(x, T)] for a type T that is a key of the handler table *)
Definition subtype (E : pyenv) (t T : tyid) : bool :=
  tyid_eqb t T ||
  match t, T with
  | TBool, TInt => true
  | TClass c, TClass b => mem_str b (ancestors (e_ctab E) c)
  | _, _ => false
  end.

(** line 192 + 204: isinstance(attr_value, SUPPORTED_TYPES + tuple(config.serialize_handlers)) *)
Definition known_type (E : pyenv) (cfg : config) (x : val) : bool :=
  supported_ty (type_of x) || existsb (fun th => subtype E (type_of x) (fst th)) (cf_handlers cfg).

(** lines 162-166: the name written into "__jsonclass__" *)
Definition dump_name (d : classdef) : str :=
  if String.eqb (c_module d) "" || String.eqb (c_module d) "__main__"
  then c_name d else c_module d ++ "." ++ c_name d.

Definition jsonclass_key : val := VStr "__jsonclass__".

Definition has_dict (d : classdef) : bool :=
  match c_kind d with KDict | KSer _ => true | _ => false end.

(** which class of the MRO defines the serialisation method / the ignore attribute of the given name *)
Definition ser_pred (sm : str) (d' : classdef) : bool :=
  negb (String.eqb sm "") && String.eqb (c_ser_name d') sm.
Definition ign_pred (ia : str) (d' : classdef) : bool :=
  match c_ign d' with Some (n, _) => String.eqb n ia | None => false end.

(** ** Traversal combinators.  The comprehensions and loops of dump / load are written once,
    over the function applied to the members, so that the recursive models below stay
    structurally recursive (nested recursion through these, as through [List.map]). *)

(** [[f(x) for x in l]]: the first exception wins *)
Definition mapM {A B} (f : A -> res B) : list A -> res (list B) :=
  fix go (l : list A) : res (list B) :=
    match l with
    | [] => Ok []
    | x :: xs => do y <- f x; do ys <- go xs; Ok (y :: ys)
    end.

(** [{key: f(value) for key, value in m.items()}] *)
Definition mapM_values (f : val -> res val) (m : list (val * val)) : res (list (val * val)) :=
  mapM (fun kv => do y <- f (snd kv); Ok (fst kv, y)) m.

(** ** dump (103-216) *)

Section Dump.
  (** serialize handlers are arbitrary callables: [hfun h obj] is what handler [h] returns *)
  Variable hfun : N -> val -> res val.
  Variable V : variant.
  Variable E : pyenv.
  Variable cfg : config.
  (** the (already normalised, 124-126) names and the per-call ignore list; they are
      forwarded unchanged by every recursive call *)
  Variable sm ia : str.
  Variable ign : list val.

  (** 193: getattr(obj, ignore_attribute, []) + ignore *)
  Definition ignore_list (c : str) (fields : list (str * val)) : res (list val) :=
    let own := match flookup ia fields with
               | Some x => x
               | None =>
                   match mro_find (e_ctab E) c (ign_pred ia) with
                   | Some d => match c_ign d with Some (_, x) => x | None => VList [] end
                   | None => VList []
                   end
               end in
    match own with
    | VList l => Ok (l ++ ign)%list
    | _ => Raise EType                     (* tuple + list, str + list, None + list *)
    end.

  (** 197: fields.difference_update(ignore_list) — by name *)
  Definition name_ignored (k : str) (ignl : list val) : bool := existsb (py_eq (VStr k)) ignl.

  (** 199-213: the loop over the (name-filtered) fields; [f] is the recursive dump *)
  Definition dump_fields (f : val -> res val) (ignl : list val) : list (str * val) -> res (list (val * val)) :=
    fix go (fs : list (str * val)) : res (list (val * val)) :=
      match fs with
      | [] => Ok []
      | kx :: r =>
          if name_ignored (fst kx) ignl then go r                            (* 197 *)
          else if known_type E cfg (snd kx) && negb (existsb (py_eq (snd kx)) ignl)      (* 203-206 *)
          then do y <- f (snd kx); do ys <- go r; Ok ((VStr (fst kx), y) :: ys)
          else go r
      end.

  (** the generated serialisation methods: ([self.p for p in params] or {p: self.p}, the other attributes) *)
  Fixpoint get_params (fields : list (str * val)) (ps : list str) : res (list (str * val)) :=
    match ps with
    | [] => Ok []
    | p :: r => match flookup p fields with
                | Some x => do xs <- get_params fields r; Ok ((p, x) :: xs)
                | None => Raise EAttr
                end
    end.

  Definition serialize_call (ds : classdef) (fields : list (str * val)) : res (val * list (str * val)) :=
    do ps <- get_params fields (c_params ds);
    Ok (match c_kind ds with
        | KSer true => VDict (map (fun px => (VStr (fst px), snd px)) ps)
        | _ => VList (map snd ps)
        end,
        filter (fun kx => negb (mem_str (fst kx) (c_params ds))) fields).

  Definition descriptor_dict (name params : val) (attrs : list (val * val)) : val :=
    VDict (dupdate [(jsonclass_key, VList [name; params])] attrs).

  Fixpoint jc_dump (v : val) {struct v} : res val :=
    match handler_for cfg (type_of v) with
    | Some h => hfun h v                                            (* 131-140: verbatim *)
    | None =>
        match v with
        | VNone | VBool _ | VInt _ | VFlt _ | VStr _ => Ok v        (* 143-144 *)
        | VList l | VTuple l | VSet l | VFrozen l =>                (* 147-152 *)
            do ys <- mapM jc_dump l; Ok (VList ys)
        | VDict m =>                                                (* 154-159 *)
            do ys <- mapM_values jc_dump m; Ok (VDict ys)
        | VInst c fields =>                                         (* 161-216 *)
            match find_class (e_ctab E) c with
            | None => Raise EUnmodelled
            | Some d =>
                let name := VStr (dump_name d) in
                match flookup sm fields with
                | Some _ => Raise EType                             (* 172-176: the attribute is not callable *)
                | None =>
                    match mro_find (e_ctab E) c (ser_pred sm) with
                    | Some ds =>                                    (* 172-178: params, attrs = serialize() *)
                        do pa <- serialize_call ds fields;
                        Ok (descriptor_dict name (fst pa) (map (fun kx => (VStr (fst kx), snd kx)) (snd pa)))
                    | None =>                                       (* 185-214 *)
                        do ignl <- ignore_list c fields;
                        if negb (forallb hashable ignl) then Raise EType     (* set.difference_update *)
                        else
                        do attrs <- dump_fields jc_dump ignl fields;
                        (* a slot that was never assigned: getattr raises *)
                        if forallb (fun s => match flookup s fields with Some _ => true | None => name_ignored s ignl end)
                                   (slots_finder V (e_ctab E) c)
                        then Ok (descriptor_dict name (VList []) attrs)
                        else Raise EAttr
                    end
                end
            end
        | VDec s =>                                                 (* 179-181 *)
            match find_class (e_ctab E) "decimal.Decimal" with
            | Some d => Ok (descriptor_dict (VStr (dump_name d)) (VList [VStr s]) [])
            | None => Raise EUnmodelled
            end
        | VEnum c m =>                                              (* 182-184: the value is emitted as is *)
            match find_class (e_ctab E) c with
            | Some d => Ok (descriptor_dict (VStr (dump_name d)) (VList [m]) [])
            | None => Raise EUnmodelled
            end
        | VOpaque _ => Raise EUnmodelled
        end
    end.
End Dump.

(** 123-126: `x or config.x` *)
Definition norm_name (arg : option str) (dflt : str) : str :=
  match arg with
  | Some s => if String.eqb s "" then dflt else s
  | None => dflt
  end.

(** [jsonclass.dump(obj, serialize_method, ignore_attribute, ignore, config)] *)
Definition jc_dump_top (hfun : N -> val -> res val) (V : variant) (E : pyenv) (cfg : config)
           (sm_arg ia_arg : option str) (ign_arg : option (list val)) (v : val) : res val :=
  jc_dump hfun V E cfg (norm_name sm_arg (cf_ser cfg)) (norm_name ia_arg (cf_ign cfg))
          (match ign_arg with Some l => l | None => [] end) v.

(** ** load (222-325) *)

Inductive event :=
| EvImport (tree : str)        (* __import__(tree, fromlist=[...]) is called *)
| EvConstruct (cid : str).     (* json_class( *params ) / json_class( **params ) is called *)

(** 53, 252-256: the name survives re.sub(INVALID_MODULE_CHARS, "", name) unchanged *)
Definition valid_char (a : ascii) : bool :=
  let n := N_of_ascii a in
  ((97 <=? n) && (n <=? 122) || (65 <=? n) && (n <=? 90) || (48 <=? n) && (n <=? 57) || (n =? 95) || (n =? 46))%N.

Fixpoint valid_name (s : string) : bool :=
  match s with
  | EmptyString => true
  | String a s' => valid_char a && valid_name s'
  end.

(** 270-291: __import__ then getattr *)
Definition resolve_import (E : pyenv) (tree cls : str) : res str :=
  if String.eqb tree "" then Raise EValue                                 (* ValueError: Empty module name *)
  else if negb (mem_str tree (e_modules E)) then Raise ETranslation       (* ImportError *)
  else match find (fun cd => String.eqb (c_module (snd cd)) tree && String.eqb (c_name (snd cd)) cls) (e_ctab E) with
       | Some (cid, _) => Ok cid
       | None => Raise ETranslation                                       (* AttributeError *)
       end.

(** keyword / positional binding of the generated constructors *)
Definition bind_params (names : list str) (params : val) : res (list (str * val)) :=
  match params with
  | VList args =>
      if Nat.eqb (length args) (length names) then Ok (combine names args) else Raise ETranslation
  | VDict kw =>
      if negb (forallb (fun kx => is_string (fst kx)) kw) then Raise ETranslation     (* keywords must be strings *)
      else if Nat.eqb (length kw) (length names)
           && forallb (fun n => dhas kw n) names
           then Ok (map (fun n => (n, match dget kw n with Some x => x | None => VNone end)) names)
           else Raise ETranslation
  | _ => Raise ETranslation
  end.

(** decimal literals whose str() is the literal itself: optional minus, 0 or a digit string without leading zero, optional fraction *)
Definition dec_ok (s : string) : bool :=
  let body := match s with String "-" r => r | _ => s end in
  match parse_digits body 0 0%nat with
  | Some (_, S k, rest) =>
      (Nat.eqb k 0 || negb (prefixb "0" body)) &&
      match rest with
      | EmptyString => true
      | String "." frac => match parse_digits frac 0 0%nat with
                           | Some (_, S _, EmptyString) => true
                           | _ => false
                           end
      | _ => false
      end
  | _ => false
  end.

(** 294-312 *)
Definition construct (E : pyenv) (cid : str) (params : val) : res val :=
  match params with
  | VList _ | VDict _ =>
      match find_class (e_ctab E) cid with
      | None => Raise EUnmodelled
      | Some d =>
          match c_kind d with
          | KEnum =>
              match params with
              | VList [x] => match find (py_eq x) (c_members d) with
                             | Some m => Ok (VEnum cid m)
                             | None => Raise EValue
                             end
              | VList [] => Raise ETranslation
              | _ => Raise EUnmodelled
              end
          | KDecimal =>
              match params with
              | VList [VStr s] => if dec_ok s then Ok (VDec s) else Raise EUnmodelled
              | _ => Raise EUnmodelled
              end
          | _ =>
              do args <- bind_params (c_params d) params;
              Ok (VInst cid (ctor_fields (e_ctab E) cid args))
          end
      end
  | _ => Raise ETranslation             (* 308-312 *)
  end.

Definition dunder (s : string) : bool := prefixb "__" s && suffixb "__" s.

(** setattr(new_obj, key, value) *)
Definition py_setattr (E : pyenv) (obj key value : val) : res val :=
  match key with
  | VStr k =>
      if dunder k then Raise EUnmodelled
      else
      match obj with
      | VInst c fields =>
          match find_class (e_ctab E) c with
          | Some d =>
              if has_dict d then Ok (VInst c (fset fields k value))
              else if mem_str k (real_slots (e_ctab E) c) then Ok (VInst c (fset fields k value))
              else Raise EAttr
          | None => Raise EUnmodelled
          end
      | VDec _ => Raise EAttr
      | _ => Raise EUnmodelled            (* enum members are process-global objects *)
      end
  | _ => Raise EType                      (* attribute name must be string *)
  end.

Fixpoint last_str (l : list str) : str :=
  match l with
  | [] => ""
  | [x] => x
  | _ :: r => last_str r
  end.

(** 258-291: the class named [s]: local table when it is non-empty and the name has no dot, import otherwise *)
Definition resolve_name (E : pyenv) (classes : list (str * str)) (s : str) : res str * list event :=
  let parts := split_dot s in
  if truthy (VDict (map (fun kc => (VStr (fst kc), VStr (snd kc))) classes))
     && Nat.eqb (length parts) 1
  then (match sassoc s classes with                       (* 260-267 *)
        | Some cid => Ok cid
        | None => Raise ETranslation
        end, [])
  else let cls := last_str parts in                       (* 270-291 *)
       let tree := join "." (removelast parts) in
       (resolve_import E tree cls, [EvImport tree]).

(** 245-312: everything between the membership test and the pop; the argument is not written *)
Definition descriptor_head (E : pyenv) (classes : list (str * str)) (m : list (val * val))
  : res val * list event :=
  match py_getitem (VDict m) jsonclass_key with
  | Raise e => (Raise e, [])
  | Ok jc =>
  match py_getitem jc (VInt 0) with                                   (* 245 *)
  | Raise e => (Raise e, [])
  | Ok name =>
  match py_getitem jc (VInt 1) with                                   (* 246 *)
  | Raise e => (Raise e, [])
  | Ok params =>
      if negb (truthy name) then (Raise ETranslation, [])             (* 249-250 *)
      else match name with
      | VStr s =>
          if negb (valid_name s) then (Raise ETranslation, [])        (* 252-256 *)
          else
            let '(rc, ev) := resolve_name E classes s in
            match rc with
            | Raise e => (Raise e, ev)
            | Ok cid =>
                match params with
                | VList _ | VDict _ => (construct E cid params, ev ++ [EvConstruct cid])%list
                | _ => (Raise ETranslation, ev)
                end
            end
      | _ => (Raise EType, [])                                        (* re.sub on a non-string *)
      end
  end end end.

Definition lres := (res val * val * list event)%type.

(** the caller's dict between the pop of line 316 and the restore of line 323 *)
Definition drop_jc (m : list (val * val)) : list (val * val) :=
  filter (fun kv => negb (py_eq jsonclass_key (fst kv))) m.

(** [[f(entry) for entry in l]] with the argument threaded: result, the entries as the caller
    finds them afterwards, events.  Entries after a failing one are not visited. *)
Definition load_seq (f : val -> lres) : list val -> res (list val) * list val * list event :=
  fix go (l : list val) :=
    match l with
    | [] => (Ok [], [], [])
    | x :: xs =>
        let '(r, x', ev) := f x in
        match r with
        | Raise e => (Raise e, x' :: xs, ev)
        | Ok y =>
            let '(rs, xs', evs) := go xs in
            (match rs with Ok ys => Ok (y :: ys) | Raise e => Raise e end, x' :: xs', (ev ++ evs)%list)
        end
    end.

(** [{key: f(value) for key, value in m.items()}], threaded likewise *)
Definition load_items (f : val -> lres) : list (val * val) -> res (list (val * val)) * list (val * val) * list event :=
  fix go (m : list (val * val)) :=
    match m with
    | [] => (Ok [], [], [])
    | kx :: rest =>
        let '(r, x', ev) := f (snd kx) in
        match r with
        | Raise e => (Raise e, (fst kx, x') :: rest, ev)
        | Ok y =>
            let '(rs, rest', evs) := go rest in
            (match rs with Ok ys => Ok ((fst kx, y) :: ys) | Raise e => Raise e end,
             (fst kx, x') :: rest', (ev ++ evs)%list)
        end
    end.

(** 318-320: [for key, value in obj.items(): setattr(new_obj, key, f(value))] over the caller's
    dict from which "__jsonclass__" has been popped (316): the loop walks the dict and skips the
    popped entry (keys are unique, so this is the dict without that key).  Returns the object,
    the remaining entries as the caller finds them, events. *)
Definition setattr_loop (E : pyenv) (f : val -> lres)
  : list (val * val) -> val -> res val * list (val * val) * list event :=
  fix go (items : list (val * val)) (obj : val) {struct items} :=
    match items with
    | [] => (Ok obj, [], [])
    | kx :: more =>
        if py_eq jsonclass_key (fst kx) then go more obj else
        let '(r, x', ev) := f (snd kx) in
        match r with
        | Raise e => (Raise e, (fst kx, x') :: drop_jc more, ev)
        | Ok y =>
            match py_setattr E obj (fst kx) y with
            | Raise e => (Raise e, (fst kx, x') :: drop_jc more, ev)
            | Ok obj' =>
                let '(r2, more', ev2) := go more obj' in
                (r2, (fst kx, x') :: more', (ev ++ ev2)%list)
            end
        end
    end.

Section Load.
  Variable V : variant.
  Variable E : pyenv.

  Fixpoint jc_load_m (classes : list (str * str)) (v : val) {struct v} : lres :=
    let inner := if v_forward V then classes else [] in               (* 238, 242 *)
    match v with
    | VNone | VBool _ | VInt _ | VFlt _ | VStr _ => (Ok v, v, [])     (* 232-233 *)
    | VList l =>                                                      (* 236-238 *)
        let '(r, l', ev) := load_seq (jc_load_m inner) l in (do ys <- r; Ok (VList ys), VList l', ev)
    | VTuple l => let '(r, l', ev) := load_seq (jc_load_m inner) l in (do ys <- r; Ok (VList ys), VTuple l', ev)
    | VSet l => let '(r, l', ev) := load_seq (jc_load_m inner) l in (do ys <- r; Ok (VList ys), VSet l', ev)
    | VFrozen l => let '(r, l', ev) := load_seq (jc_load_m inner) l in (do ys <- r; Ok (VList ys), VFrozen l', ev)
    | VDict m =>
        if negb (dhas m "__jsonclass__") then                         (* 241-242 *)
          let '(r, m', ev) := load_items (jc_load_m inner) m in
          (do ys <- r; Ok (VDict ys), VDict m', ev)
        else
          match descriptor_head E classes m with                      (* 245-312 *)
          | (Raise e, ev) => (Raise e, VDict m, ev)
          | (Ok new_obj, ev) =>
              let raw := match dget m "__jsonclass__" with Some x => x | None => VNone end in
              let '(r, rest', ev2) := setattr_loop E (jc_load_m classes) m new_obj in      (* 316-320 *)
              let restored := (rest' ++ [(jsonclass_key, raw)])%list in                     (* 323 *)
              (r,
               match r with
               | Ok _ => VDict restored
               | Raise _ => if v_finally V then VDict restored else VDict rest'
               end,
               (ev ++ ev2)%list)
          end
    | VInst _ _ | VDec _ | VEnum _ _ | VOpaque _ => (Raise EType, v, [])   (* `"__jsonclass__" not in obj` *)
    end.
End Load.

Definition lres_val (r : lres) : res val := fst (fst r).
Definition lres_arg (r : lres) : val := snd (fst r).
Definition lres_events (r : lres) : list event := snd r.

(** ** The gates of jsonrpc.py *)

(** jsonrpc.load (1308-1327) *)
Definition rpc_load (V : variant) (E : pyenv) (cfg : config) (data : val) : lres :=
  match data with
  | VNone => (Ok VNone, VNone, [])
  | _ => if cf_use cfg then jc_load_m V E (cf_classes cfg) data else (Ok data, data, [])
  end.

(** the part of jsonrpc.dump that touches the parameters / result (1257-1259) *)
Definition rpc_dump_params (hfun : N -> val -> res val) (V : variant) (E : pyenv) (cfg : config) (params : val) : res val :=
  if cf_use cfg then jc_dump_top hfun V E cfg None None None params else Ok params.

Section Server.
  (** the JSON backend and the rest of the dispatcher are external here *)
  Variable dec : str -> res val.
  Variable call : Type.
  Variable dispatch : val -> val * list call.     (* _unmarshaled_dispatch + jdumps: reply, invocation log *)

  (** jsonrpc.loads (1330-1347) *)
  Definition rpc_loads (V : variant) (E : pyenv) (cfg : config) (data : str) : res val * list event :=
    if String.eqb data "" then (Ok VNone, [])
    else match dec data with
         | Raise e => (Raise e, [])
         | Ok v => let r := rpc_load V E cfg v in (lres_val r, lres_events r)
         end.

  (** Fault(-32700, ...).response() with the server's configured version *)
  Definition parse_error_reply (v2 : bool) : val :=
    if v2 then VDict [(VStr "jsonrpc", VStr "2.0"); (VStr "error", VDict [(VStr "code", VInt (-32700))]); (VStr "id", VNone)]
    else VDict [(VStr "result", VNone); (VStr "error", VDict [(VStr "code", VInt (-32700))]); (VStr "id", VNone)].

  (** SimpleJSONRPCServer._marshaled_dispatch (273-310): message texts are not modelled *)
  Definition marshaled_dispatch (V : variant) (E : pyenv) (cfg : config) (v2 : bool) (data : str)
    : val * list call * list event :=
    match rpc_loads V E cfg data with
    | (Raise _, ev) => (parse_error_reply v2, [], ev)
    | (Ok request, ev) => let '(reply, calls) := dispatch request in (reply, calls, ev)
    end.
End Server.

(** ** Domain predicates *)

(** nestings of the four iterable kinds, dicts and primitives *)
Fixpoint plain (v : val) : bool :=
  match v with
  | VNone | VBool _ | VInt _ | VFlt _ | VStr _ => true
  | VList l | VTuple l | VSet l | VFrozen l => forallb plain l
  | VDict m => forallb (fun kv => plain (snd kv)) m
  | _ => false
  end.

(** no dict of the nesting carries a "__jsonclass__" key *)
Fixpoint no_descriptor (v : val) : bool :=
  match v with
  | VList l | VTuple l | VSet l | VFrozen l => forallb no_descriptor l
  | VDict m => negb (dhas m "__jsonclass__") && forallb (fun kv => no_descriptor (snd kv)) m
  | _ => true
  end.

Fixpoint str_keys (v : val) : bool :=
  match v with
  | VList l | VTuple l | VSet l | VFrozen l => forallb str_keys l
  | VDict m => forallb (fun kv => is_string (fst kv) && str_keys (snd kv)) m
  | _ => true
  end.

(** made of dicts, lists and primitives only *)
Fixpoint json_shape (v : val) : bool :=
  match v with
  | VNone | VBool _ | VInt _ | VFlt _ | VStr _ => true
  | VList l => forallb json_shape l
  | VDict m => forallb (fun kv => json_shape (snd kv)) m
  | _ => false
  end.

(** the primitives of a nesting, left to right (dict keys are not traversed by dump/load) *)
Fixpoint leaves (v : val) : list val :=
  match v with
  | VList l | VTuple l | VSet l | VFrozen l => flat_map leaves l
  | VDict m => flat_map (fun kv => leaves (snd kv)) m
  | _ => [v]
  end.

(** the value with the "__jsonclass__" entry of every dict moved to the end: two Python values
    with the same [canon] are [==] (dict comparison ignores the order of the entries) *)
Fixpoint canon (v : val) : val :=
  match v with
  | VList l => VList (map canon l)
  | VTuple l => VTuple (map canon l)
  | VSet l => VSet (map canon l)
  | VFrozen l => VFrozen (map canon l)
  | VDict m =>
      let m' := map (fun kv => (fst kv, canon (snd kv))) m in
      VDict (drop_jc m' ++ match dget m' "__jsonclass__" with Some x => [(jsonclass_key, x)] | None => [] end)
  | _ => v
  end.

(** C08: the class name of a descriptor is a non-empty string over [a-zA-Z0-9_.] *)
Definition name_ok (name : val) : bool :=
  match name with
  | VStr s => negb (String.eqb s "") && valid_name s
  | _ => false
  end.

(** "otherwise well-formed": the "__jsonclass__" member is a list of length >= 2 whose second
    element is a list or a dict *)
Definition descriptor_shape (jc : val) : option (val * val) :=
  match jc with
  | VList (name :: params :: _) =>
      match params with
      | VList _ | VDict _ => Some (name, params)
      | _ => None
      end
  | _ => None
  end.

(** positions load traverses: items of the four iterable kinds and values of descriptor-free dicts
    (C08: a rejected descriptor at any depth); [plug f x] puts [x] at the hole of the frame *)
Inductive frame :=
| FList (pre post : list val) | FTuple (pre post : list val)
| FSet (pre post : list val) | FFrozen (pre post : list val)
| FDict (pre : list (val * val)) (k : val) (post : list (val * val)).

Definition plug (f : frame) (x : val) : val :=
  match f with
  | FList pre post => VList (pre ++ x :: post)
  | FTuple pre post => VTuple (pre ++ x :: post)
  | FSet pre post => VSet (pre ++ x :: post)
  | FFrozen pre post => VFrozen (pre ++ x :: post)
  | FDict pre k post => VDict (pre ++ (k, x) :: post)
  end.

(** outermost frame first *)
Definition plugs (fs : list frame) (x : val) : val := fold_right plug x fs.

Definition loads_ok (V : variant) (E : pyenv) (cl : list (str * str)) (x : val) : bool :=
  match lres_val (jc_load_m V E cl x) with Ok _ => true | Raise _ => false end.

(** the members visited before the hole load successfully; a dict frame is not itself a descriptor *)
Definition frame_ok (V : variant) (E : pyenv) (cl : list (str * str)) (f : frame) : bool :=
  match f with
  | FList pre _ | FTuple pre _ | FSet pre _ | FFrozen pre _ => forallb (loads_ok V E cl) pre
  | FDict pre k post =>
      forallb (fun kv => loads_ok V E cl (snd kv)) pre &&
      negb (dhas (pre ++ (k, VNone) :: post) "__jsonclass__")
  end.

(** events of the members visited before the hole *)
Definition frame_events (V : variant) (E : pyenv) (cl : list (str * str)) (f : frame) : list event :=
  match f with
  | FList pre _ | FTuple pre _ | FSet pre _ | FFrozen pre _ =>
      flat_map (fun x => lres_events (jc_load_m V E cl x)) pre
  | FDict pre _ _ => flat_map (fun kv => lres_events (jc_load_m V E cl (snd kv))) pre
  end.

(** ** C07: supported object graphs *)

(** normalisation that also looks inside instances: what a reloaded object graph is compared with *)
Fixpoint normi (v : val) : val :=
  match v with
  | VList l | VTuple l | VSet l | VFrozen l => VList (map normi l)
  | VDict m => VDict (map (fun kv => (fst kv, normi (snd kv))) m)
  | VInst c fs => VInst c (map (fun kv => (fst kv, normi (snd kv))) fs)
  | _ => v
  end.

Definition fields_eqb (a b : list (str * val)) : bool :=
  list_eqb (fun x y => String.eqb (fst x) (fst y) && val_eqb (snd x) (snd y)) a b.

Fixpoint nodup_str (l : list str) : bool :=
  match l with
  | [] => true
  | x :: r => negb (mem_str x r) && nodup_str r
  end.

(** the name dump writes for class [c] is accepted by load and leads back to [c] *)
Definition resolves (E : pyenv) (cl : list (str * str)) (d : classdef) (c : str) : bool :=
  name_ok (VStr (dump_name d)) &&
  match fst (resolve_name E cl (dump_name d)) with
  | Ok c' => String.eqb c' c
  | Raise _ => false
  end.

Definition is_some {A} (o : option A) : bool := match o with Some _ => true | None => false end.

(** field names are ordinary attribute names, each occurring once, and setattr accepts them *)
Definition field_names_ok (E : pyenv) (c : str) (d : classdef) (fields : list (str * val)) : bool :=
  nodup_str (map fst fields) &&
  forallb (fun kx => negb (dunder (fst kx)) && (has_dict d || mem_str (fst kx) (real_slots (e_ctab E) c))) fields.

(** [supported E cl sm ia v]: the domain of C07 for the class table [E], the local table [cl] and the
    configured names — primitives; containers of supported values; dicts without a "__jsonclass__" key;
    Decimals; enum members; instances of
    - automatically serialised classes (attribute-dict or slotted, argument-less constructor, no ignore
      list, every slot assigned) whose field values are primitives or containers (beans only inside those),
    - classes with a serialisation method whose constructor arguments and attribute map are JSON values,
    such that constructing the class anew and assigning the dumped attributes yields the fields again
    (for automatically serialised classes this follows from the instance carrying the constructor's
    attributes first: [reload_of_wf_instance]) and such that the dumped class name leads back to the class. *)
Fixpoint supported (E : pyenv) (cl : list (str * str)) (sm ia : str) (v : val) {struct v} : bool :=
  match v with
  | VNone | VBool _ | VInt _ | VFlt _ | VStr _ => true
  | VList l | VTuple l | VSet l | VFrozen l => forallb (supported E cl sm ia) l
  | VDict m => negb (dhas m "__jsonclass__") && forallb (fun kv => supported E cl sm ia (snd kv)) m
  | VDec s =>
      match find_class (e_ctab E) "decimal.Decimal" with
      | Some d => match c_kind d with KDecimal => true | _ => false end && dec_ok s && resolves E cl d "decimal.Decimal"
      | None => false
      end
  | VEnum c m =>
      match find_class (e_ctab E) c with
      | Some d => match c_kind d with KEnum => true | _ => false end &&
                  match find (py_eq m) (c_members d) with Some m' => val_eqb m' m | None => false end &&
                  resolves E cl d c
      | None => false
      end
  | VInst c fields =>
      match find_class (e_ctab E) c with
      | None => false
      | Some d =>
          resolves E cl d c && negb (is_some (flookup sm fields)) && field_names_ok E c d fields &&
          match mro_find (e_ctab E) c (ser_pred sm) with
          | Some ds =>
              match c_kind d with KSer _ => true | _ => false end &&
              list_eqb String.eqb (c_params ds) (c_params d) &&
              forallb (fun kx => is_json (snd kx) && no_descriptor (snd kx)) fields &&
              forallb (fun p => is_some (flookup p fields)) (c_params d) &&
              fields_eqb (fset_all (ctor_fields (e_ctab E) c
                                      (map (fun p => (p, match flookup p fields with Some x => x | None => VNone end)) (c_params d)))
                                   (filter (fun kx => negb (mem_str (fst kx) (c_params d))) fields))
                         fields
          | None =>
              match c_kind d with KDict | KSlot => true | _ => false end &&
              match c_params d with [] => true | _ => false end &&
              negb (is_some (flookup ia fields)) &&
              negb (is_some (mro_find (e_ctab E) c (ign_pred ia))) &&
              forallb (fun s => is_some (flookup s fields)) (slots_finder fixed (e_ctab E) c) &&
              forallb (fun kx => supported_ty (type_of (snd kx)) && supported E cl sm ia (snd kx)) fields &&
              fields_eqb (fset_all (ctor_fields (e_ctab E) c []) (map (fun kv => (fst kv, normi (snd kv))) fields))
                         (map (fun kv => (fst kv, normi (snd kv))) fields)
          end
      end
  | VOpaque _ => false
  end.

(** ** C20: the positions dump traverses, and occurrence in the dumped form *)

(** the test of lines 197 and 203-206 on one field *)
Definition field_kept (E : pyenv) (cfg : config) (ignl : list val) (kx : str * val) : bool :=
  negb (existsb (py_eq (VStr (fst kx))) ignl) && (known_type E cfg (snd kx) && negb (existsb (py_eq (snd kx)) ignl)).

Definition seq_items (v : val) : option (list val) :=
  match v with VList l | VTuple l | VSet l | VFrozen l => Some l | _ => None end.

(** [reaches ... v y]: [y] sits at a position of [v] that dump traverses — items of lists / tuples /
    sets / frozensets, dict values, fields of automatically serialised objects that pass the filter —
    through nodes to which no handler applies (a handler's argument is not traversed) *)
Inductive reaches (E : pyenv) (cfg : config) (sm ia : str) (ign : list val) : val -> val -> Prop :=
| R_here v : reaches E cfg sm ia ign v v
| R_item v l x y :
    seq_items v = Some l -> handler_for cfg (type_of v) = None -> In x l ->
    reaches E cfg sm ia ign x y -> reaches E cfg sm ia ign v y
| R_value m k x y :
    handler_for cfg TDict = None -> In (k, x) m ->
    reaches E cfg sm ia ign x y -> reaches E cfg sm ia ign (VDict m) y
| R_field c fields d ignl n x y :
    handler_for cfg (TClass c) = None -> find_class (e_ctab E) c = Some d ->
    flookup sm fields = None -> mro_find (e_ctab E) c (ser_pred sm) = None ->
    ignore_list E ia ign c fields = Ok ignl ->
    nodup_str (map fst fields) = true -> n <> "__jsonclass__" ->
    In (n, x) fields -> field_kept E cfg ignl (n, x) = true ->
    reaches E cfg sm ia ign x y -> reaches E cfg sm ia ign (VInst c fields) y.

(** [occurs o out]: [o] is [out] or sits in it below list items and dict values *)
Inductive occurs : val -> val -> Prop :=
| O_here o : occurs o o
| O_item o ys y : In y ys -> occurs o y -> occurs o (VList ys)
| O_value o m k y : In (k, y) m -> occurs o y -> occurs o (VDict m).

Definition is_prim (v : val) : bool :=
  match v with VNone | VBool _ | VInt _ | VFlt _ | VStr _ => true | _ => false end.

Definition no_handlers (cfg : config) : bool :=
  match cf_handlers cfg with [] => true | _ => false end.

Definition default_cfg : config := mkCfg true "_serialize" "_ignore" [] [].
Definition empty_env : pyenv := mkEnv [] [].
