(** * Val — the value universe shared by every sequential model.

    Python values as they occur in jsonrpclib's API: JSON data, the extra
    container kinds jsonclass accepts, instances of user classes, and an
    opaque constructor for unsupported objects.

    Strings are Coq [string]s holding the UTF-8 bytes of the Python [str].
    Every string operation the library performs (equality, emptiness, prefix,
    split on '.', substring, the module-name character class, ASCII
    lower-casing) gives the same answer on UTF-8 bytes as on code points
    (UTF-8 is self-synchronising and every byte of a non-ASCII character is
    >= 128).  Code points only matter for C17, which has its own model.

    Integers are unbounded [Z].  Floats are never computed with: they are
    carried, compared for identity and compared against integer bounds, so a
    finite float is the exact rational [n / d] that [float.as_integer_ratio]
    returns (plus a separate negative zero).  *)

From Coq Require Export String ZArith List Bool.
Export ListNotations.
Open Scope string_scope.
Open Scope Z_scope.

Definition str := string.

Inductive flt :=
| F (n : Z) (d : positive)       (* exactly n/d ; from as_integer_ratio, or from a decimal string *)
| FNegZero.                      (* -0.0 *)

Inductive val :=
| VNone
| VBool (b : bool)
| VInt (z : Z)
| VFlt (f : flt)
| VStr (s : str)
| VList (l : list val)
| VTuple (l : list val)
| VSet (l : list val)                  (* carried in iteration order *)
| VFrozen (l : list val)
| VDict (m : list (val * val))         (* insertion ordered, keys unique w.r.t. Python == *)
| VInst (c : str) (fields : list (str * val))  (* instance of class [c] of the class table *)
| VDec (repr : str)                    (* decimal.Decimal, by its str() *)
| VEnum (c : str) (member : val)       (* enum member of class [c], by its .value *)
| VOpaque (tag : N).                   (* unsupported object: function, datetime, ... *)

(** ** Nested induction principle *)

Section val_ind'.
  Variable P : val -> Prop.
  Hypothesis HNone : P VNone.
  Hypothesis HBool : forall b, P (VBool b).
  Hypothesis HInt : forall z, P (VInt z).
  Hypothesis HFlt : forall f, P (VFlt f).
  Hypothesis HStr : forall s, P (VStr s).
  Hypothesis HList : forall l, Forall P l -> P (VList l).
  Hypothesis HTuple : forall l, Forall P l -> P (VTuple l).
  Hypothesis HSet : forall l, Forall P l -> P (VSet l).
  Hypothesis HFrozen : forall l, Forall P l -> P (VFrozen l).
  Hypothesis HDict : forall m, Forall (fun kv => P (fst kv) /\ P (snd kv)) m -> P (VDict m).
  Hypothesis HInst : forall c fs, Forall (fun kv => P (snd kv)) fs -> P (VInst c fs).
  Hypothesis HDec : forall s, P (VDec s).
  Hypothesis HEnum : forall c m, P m -> P (VEnum c m).
  Hypothesis HOpaque : forall t, P (VOpaque t).

  Fixpoint val_ind' (v : val) : P v :=
    let fix go (l : list val) : Forall P l :=
      match l with
      | [] => Forall_nil _
      | x :: xs => Forall_cons _ (val_ind' x) (go xs)
      end in
    match v with
    | VNone => HNone
    | VBool b => HBool b
    | VInt z => HInt z
    | VFlt f => HFlt f
    | VStr s => HStr s
    | VList l => HList l (go l)
    | VTuple l => HTuple l (go l)
    | VSet l => HSet l (go l)
    | VFrozen l => HFrozen l (go l)
    | VDict m =>
        HDict m ((fix gd (m : list (val * val)) : Forall (fun kv => P (fst kv) /\ P (snd kv)) m :=
                    match m with
                    | [] => Forall_nil _
                    | kv :: r => Forall_cons kv (conj (val_ind' (fst kv)) (val_ind' (snd kv))) (gd r)
                    end) m)
    | VInst c fs =>
        HInst c fs ((fix gi (m : list (str * val)) : Forall (fun kv => P (snd kv)) m :=
                       match m with
                       | [] => Forall_nil _
                       | kv :: r => Forall_cons kv (val_ind' (snd kv)) (gi r)
                       end) fs)
    | VDec s => HDec s
    | VEnum c m => HEnum c m (val_ind' m)
    | VOpaque t => HOpaque t
    end.
End val_ind'.

(** ** Structural (Leibniz) equality, decidable *)

Definition flt_eqb (a b : flt) : bool :=
  match a, b with
  | F n d, F n' d' => Z.eqb n n' && Pos.eqb d d'
  | FNegZero, FNegZero => true
  | _, _ => false
  end.

Fixpoint list_eqb {A} (eqb : A -> A -> bool) (l1 l2 : list A) : bool :=
  match l1, l2 with
  | [], [] => true
  | x :: xs, y :: ys => eqb x y && list_eqb eqb xs ys
  | _, _ => false
  end.

Fixpoint val_eqb (a b : val) {struct a} : bool :=
  match a, b with
  | VNone, VNone => true
  | VBool x, VBool y => Bool.eqb x y
  | VInt x, VInt y => Z.eqb x y
  | VFlt x, VFlt y => flt_eqb x y
  | VStr x, VStr y => String.eqb x y
  | VList x, VList y | VTuple x, VTuple y | VSet x, VSet y | VFrozen x, VFrozen y =>
      (fix go (l1 l2 : list val) {struct l1} : bool :=
         match l1, l2 with
         | [], [] => true
         | p :: ps, q :: qs => val_eqb p q && go ps qs
         | _, _ => false
         end) x y
  | VDict x, VDict y =>
      (fix go (l1 l2 : list (val * val)) {struct l1} : bool :=
         match l1, l2 with
         | [], [] => true
         | (k, p) :: ps, (k', q) :: qs => val_eqb k k' && val_eqb p q && go ps qs
         | _, _ => false
         end) x y
  | VInst c x, VInst c' y =>
      String.eqb c c' &&
      (fix go (l1 l2 : list (str * val)) {struct l1} : bool :=
         match l1, l2 with
         | [], [] => true
         | (k, p) :: ps, (k', q) :: qs => String.eqb k k' && val_eqb p q && go ps qs
         | _, _ => false
         end) x y
  | VDec x, VDec y => String.eqb x y
  | VEnum c x, VEnum c' y => String.eqb c c' && val_eqb x y
  | VOpaque x, VOpaque y => N.eqb x y
  | _, _ => false
  end.

Lemma flt_eqb_eq a b : flt_eqb a b = true <-> a = b.
Proof.
  destruct a, b; simpl; split; intros H; try discriminate; try reflexivity.
  - apply andb_true_iff in H as [H1 H2]. apply Z.eqb_eq in H1. apply Pos.eqb_eq in H2. congruence.
  - inversion H; subst. now rewrite Z.eqb_refl, Pos.eqb_refl.
Qed.

Lemma val_eqb_refl : forall v, val_eqb v v = true.
Proof.
  induction v using val_ind'; simpl; auto using Z.eqb_refl, String.eqb_refl, N.eqb_refl.
  - now destruct b.
  - apply flt_eqb_eq; reflexivity.
  - induction H; simpl; auto. now rewrite H, IHForall.
  - induction H; simpl; auto. now rewrite H, IHForall.
  - induction H; simpl; auto. now rewrite H, IHForall.
  - induction H; simpl; auto. now rewrite H, IHForall.
  - induction H as [|[k x] r [Hk Hx] _ IH]; simpl in *; auto. now rewrite Hk, Hx, IH.
  - rewrite String.eqb_refl. simpl.
    induction H as [|[k x] r Hx _ IH]; simpl in *; auto. now rewrite String.eqb_refl, Hx, IH.
  - now rewrite String.eqb_refl, IHv.
Qed.

Lemma val_eqb_eq : forall a b, val_eqb a b = true -> a = b.
Proof.
  induction a using val_ind'; intros w; destruct w; simpl; intros E; try discriminate; auto.
  - apply Bool.eqb_prop in E; congruence.
  - apply Z.eqb_eq in E; congruence.
  - apply flt_eqb_eq in E; congruence.
  - apply String.eqb_eq in E; congruence.
  - f_equal. revert l0 E. induction H as [|x xs Hx _ IH]; intros [|y ys] E; try discriminate; auto.
    apply andb_true_iff in E as [E1 E2]. f_equal; auto.
  - f_equal. revert l0 E. induction H as [|x xs Hx _ IH]; intros [|y ys] E; try discriminate; auto.
    apply andb_true_iff in E as [E1 E2]. f_equal; auto.
  - f_equal. revert l0 E. induction H as [|x xs Hx _ IH]; intros [|y ys] E; try discriminate; auto.
    apply andb_true_iff in E as [E1 E2]. f_equal; auto.
  - f_equal. revert l0 E. induction H as [|x xs Hx _ IH]; intros [|y ys] E; try discriminate; auto.
    apply andb_true_iff in E as [E1 E2]. f_equal; auto.
  - f_equal. revert m0 E. induction H as [|[k x] xs [Hk Hx] _ IH]; intros [|[k' y] ys] E; try discriminate; auto.
    simpl in *. apply andb_true_iff in E as [E1 E3]. apply andb_true_iff in E1 as [E1 E2].
    f_equal; auto. f_equal; auto.
  - apply andb_true_iff in E as [E0 E]. apply String.eqb_eq in E0. subst. f_equal.
    revert fields E. induction H as [|[k x] xs Hx _ IH]; intros [|[k' y] ys] E; try discriminate; auto.
    simpl in *. apply andb_true_iff in E as [E1 E3]. apply andb_true_iff in E1 as [E1 E2].
    apply String.eqb_eq in E1. f_equal; auto. f_equal; auto.
  - apply String.eqb_eq in E; congruence.
  - apply andb_true_iff in E as [E0 E]. apply String.eqb_eq in E0. subst. f_equal; auto.
  - apply N.eqb_eq in E; congruence.
Qed.

Lemma val_eqb_iff a b : val_eqb a b = true <-> a = b.
Proof. split; [apply val_eqb_eq | intros ->; apply val_eqb_refl]. Qed.

(** ** Observation equality: type-exact like [val_eqb], but dicts (and instance
    field lists) are compared up to order.  Used only to compare observations
    in the correspondence stage, never inside a model. *)

Fixpoint val_sim (a b : val) {struct a} : bool :=
  match a, b with
  | VList x, VList y | VTuple x, VTuple y | VSet x, VSet y | VFrozen x, VFrozen y =>
      (fix go (l1 l2 : list val) {struct l1} : bool :=
         match l1, l2 with
         | [], [] => true
         | p :: ps, q :: qs => val_sim p q && go ps qs
         | _, _ => false
         end) x y
  | VDict x, VDict y =>
      Nat.eqb (length x) (length y) &&
      (fix go (l1 : list (val * val)) {struct l1} : bool :=
         match l1 with
         | [] => true
         | kp :: ps =>
             (fix find (l2 : list (val * val)) : bool :=
                match l2 with
                | [] => false
                | kq :: qs => if val_eqb (fst kq) (fst kp) then val_sim (snd kp) (snd kq) else find qs
                end) y && go ps
         end) x
  | VInst c x, VInst c' y =>
      String.eqb c c' && Nat.eqb (length x) (length y) &&
      (fix go (l1 : list (str * val)) {struct l1} : bool :=
         match l1 with
         | [] => true
         | kp :: ps =>
             (fix find (l2 : list (str * val)) : bool :=
                match l2 with
                | [] => false
                | kq :: qs => if String.eqb (fst kq) (fst kp) then val_sim (snd kp) (snd kq) else find qs
                end) y && go ps
         end) x
  | VEnum c x, VEnum c' y => String.eqb c c' && val_sim x y
  | _, _ => val_eqb a b
  end.

(** ** Classification predicates (computable) *)

(** JSON-representable: what the stdlib backend can emit and parse back.  *)
Fixpoint is_json (v : val) : bool :=
  match v with
  | VNone | VBool _ | VInt _ | VFlt _ | VStr _ => true
  | VList l => forallb is_json l
  | VDict m => forallb (fun kv => match fst kv with VStr _ => is_json (snd kv) | _ => false end) m
  | _ => false
  end.

(** [norm]: JSON normalisation — tuples, sets and frozensets become lists. *)
Fixpoint norm (v : val) : val :=
  match v with
  | VList l | VTuple l | VSet l | VFrozen l => VList (map norm l)
  | VDict m => VDict (map (fun kv => (fst kv, norm (snd kv))) m)
  | _ => v
  end.

(** Builds a string from a list of byte values (used by generated case files). *)
Definition sb (l : list N) : str :=
  fold_right (fun n acc => String (Ascii.ascii_of_N n) acc) EmptyString l.

(** index of failing cases — the only thing the correspondence stage prints *)
Fixpoint failing {A} (ok : A -> bool) (i : nat) (l : list A) : list nat :=
  match l with
  | [] => []
  | x :: r => if ok x then failing ok (S i) r else i :: failing ok (S i) r
  end.
