(** * Sched — interleaving semantics shared by the concurrency models (DESIGN.md 3.5)

    A system is a state type, a type of scheduling choices ("thread ids"; a model that has
    timeouts uses choices [Go t | Fire t], see [stepf]) and a partial step function
    [step : St -> Tid -> option St] ([None] = the choice is not enabled in that state).
    A schedule is an ARBITRARY list of choices: [run] applies the enabled ones and skips the
    others, so [forall sched] ranges over all interleavings at the model's step granularity.
    (harness/sched's [Replay] policy implements the same skipping semantics on the real code.) *)
From Coq Require Import List Bool Arith Lia.
Import ListNotations.

Section Sched.
  Context {St Tid : Type}.
  Variable step : St -> Tid -> option St.

  Fixpoint run (sched : list Tid) (s : St) : St :=
    match sched with
    | [] => s
    | t :: rest => match step s t with
                   | Some s' => run rest s'
                   | None => run rest s
                   end
    end.

  (** the choices of a schedule that were actually executed (the others were skipped) *)
  Fixpoint executed (sched : list Tid) (s : St) : list Tid :=
    match sched with
    | [] => []
    | t :: rest => match step s t with
                   | Some s' => t :: executed rest s'
                   | None => executed rest s
                   end
    end.

  (** the state after every executed step (lock-step comparison with the implementation) *)
  Fixpoint states (sched : list Tid) (s : St) : list St :=
    match sched with
    | [] => []
    | t :: rest => match step s t with
                   | Some s' => s' :: states rest s'
                   | None => states rest s
                   end
    end.

  (** an observation [o] of the state BEFORE every executed step (e.g. the label about to be taken) *)
  Fixpoint observed {O : Type} (o : St -> Tid -> O) (sched : list Tid) (s : St) : list O :=
    match sched with
    | [] => []
    | t :: rest => match step s t with
                   | Some s' => o s t :: observed o rest s'
                   | None => observed o rest s
                   end
    end.

  Lemma run_app : forall a b s, run (a ++ b) s = run b (run a s).
  Proof.
    induction a as [|t a IH]; intros b s; cbn [run app]; [reflexivity|].
    destruct (step s t); apply IH.
  Qed.

  Lemma run_cons_some : forall t rest s s', step s t = Some s' -> run (t :: rest) s = run rest s'.
  Proof. intros t rest s s' H; cbn [run]; rewrite H; reflexivity. Qed.

  Lemma run_cons_none : forall t rest s, step s t = None -> run (t :: rest) s = run rest s.
  Proof. intros t rest s H; cbn [run]; rewrite H; reflexivity. Qed.

  (** skipped choices do not matter: running the executed choices gives the same state *)
  Lemma run_executed : forall sched s, run (executed sched s) s = run sched s.
  Proof.
    induction sched as [|t r IH]; intros s; cbn [run executed]; [reflexivity|].
    destruct (step s t) eqn:E; [cbn [run]; rewrite E|]; apply IH.
  Qed.

  (** ** The invariant rule *)
  Theorem run_invariant : forall (Inv : St -> Prop),
    (forall s t s', Inv s -> step s t = Some s' -> Inv s') ->
    forall sched s, Inv s -> Inv (run sched s).
  Proof.
    intros Inv Hstep; induction sched as [|t r IH]; intros s Hs; cbn [run]; [exact Hs|].
    destruct (step s t) eqn:E; [apply IH; eapply Hstep; eauto | apply IH; exact Hs].
  Qed.

  Corollary invariant_rule : forall (Inv : St -> Prop) init,
    Inv init -> (forall s t s', Inv s -> step s t = Some s' -> Inv s') ->
    forall sched, Inv (run sched init).
  Proof. intros Inv init H0 Hs sched; apply run_invariant; assumption. Qed.

  (** invariants also hold in every intermediate state *)
  Theorem states_invariant : forall (Inv : St -> Prop),
    (forall s t s', Inv s -> step s t = Some s' -> Inv s') ->
    forall sched s, Inv s -> Forall Inv (states sched s).
  Proof.
    intros Inv Hstep; induction sched as [|t r IH]; intros s Hs; cbn [states]; [constructor|].
    destruct (step s t) eqn:E; [constructor; [|apply IH]; eapply Hstep; eauto | apply IH; exact Hs].
  Qed.

  (** a relation between a state and its successors that is reflexive, transitive and holds for
      every step holds along every run (monotonicity / stability properties) *)
  Theorem run_preorder : forall (R : St -> St -> Prop),
    (forall s, R s s) -> (forall a b c, R a b -> R b c -> R a c) ->
    (forall s t s', step s t = Some s' -> R s s') ->
    forall sched s, R s (run sched s).
  Proof.
    intros R Hr Ht Hs; induction sched as [|t r IH]; intros s; cbn [run]; [apply Hr|].
    destruct (step s t) eqn:E; [eapply Ht; [eapply Hs; eauto | apply IH] | apply IH].
  Qed.

  (** the same, restricted to states satisfying an invariant *)
  Theorem run_preorder_inv : forall (Inv : St -> Prop) (R : St -> St -> Prop),
    (forall s t s', Inv s -> step s t = Some s' -> Inv s') ->
    (forall s, R s s) -> (forall a b c, R a b -> R b c -> R a c) ->
    (forall s t s', Inv s -> step s t = Some s' -> R s s') ->
    forall sched s, Inv s -> R s (run sched s).
  Proof.
    intros Inv R Hi Hr Ht Hs; induction sched as [|t r IH]; intros s HI; cbn [run]; [apply Hr|].
    destruct (step s t) eqn:E; [eapply Ht; [eapply Hs; eauto | apply IH; eapply Hi; eauto] | apply IH; exact HI].
  Qed.

  (** reachability *)
  Definition reachable (init s : St) : Prop := exists sched, s = run sched init.

  Lemma reachable_refl : forall init, reachable init init.
  Proof. intros init; exists []; reflexivity. Qed.

  Lemma reachable_run : forall init s sched, reachable init s -> reachable init (run sched s).
  Proof. intros init s sched [p ->]; exists (p ++ sched); symmetry; apply run_app. Qed.

  Lemma reachable_invariant : forall (Inv : St -> Prop) init,
    Inv init -> (forall s t s', Inv s -> step s t = Some s' -> Inv s') ->
    forall s, reachable init s -> Inv s.
  Proof. intros Inv init H0 Hs s [sched ->]; apply invariant_rule; assumption. Qed.
End Sched.

(** ** Timeouts.  A model with timed waits has a second partial function [fire] (expiry of the
    timeout the thread is blocked on).  [stepf] is the system whose choices are [(t, false)]
    (step) and [(t, true)] (fire): in it a timeout may expire at ANY moment -- the system the
    safety theorems quantify over.  [run_q] is the reading used for progress claims and by the
    implementation runs: a timeout expires only at quiescent moments (no thread of [threads]
    has an enabled step).  Every quiescent run is a run of [stepf] ([run_q_is_run]), so an
    invariant of [stepf] holds along every quiescent run as well. *)
Section Fire.
  Context {St Tid : Type}.
  Variables (step fire : St -> Tid -> option St).

  Definition stepf (s : St) (c : Tid * bool) : option St :=
    if snd c then fire s (fst c) else step s (fst c).

  Definition quiescent (threads : list Tid) (s : St) : bool :=
    forallb (fun t => match step s t with Some _ => false | None => true end) threads.

  Definition stepq (threads : list Tid) (s : St) (c : Tid * bool) : option St :=
    if snd c then (if quiescent threads s then fire s (fst c) else None) else step s (fst c).

  Definition run_q (threads : list Tid) := run (stepq threads).

  Lemma run_q_is_run : forall threads sched s, exists sched', run_q threads sched s = run stepf sched' s.
  Proof.
    intros threads; induction sched as [|c r IH]; intros s.
    - exists []; reflexivity.
    - unfold run_q in *; cbn [run]. destruct (stepq threads s c) eqn:E.
      + destruct (IH s0) as [r' Hr']. exists (c :: r'). cbn [run].
        assert (stepf s c = Some s0) as ->.
        { unfold stepq, stepf in *. destruct (snd c); [destruct (quiescent threads s); [exact E|discriminate]|exact E]. }
        exact Hr'.
      + destruct (IH s) as [r' Hr']. exists r'. exact Hr'.
  Qed.

  Corollary run_q_invariant : forall (Inv : St -> Prop) threads,
    (forall s c s', Inv s -> stepf s c = Some s' -> Inv s') ->
    forall sched s, Inv s -> Inv (run_q threads sched s).
  Proof.
    intros Inv threads H sched s Hs. destruct (run_q_is_run threads sched s) as [r ->].
    apply run_invariant with (step := stepf); assumption.
  Qed.
End Fire.

(** ** Thread-local state: total maps [nat -> A] updated pointwise (kept opaque in proofs) *)
Definition upd {A} (f : nat -> A) (i : nat) (a : A) : nat -> A :=
  fun j => if Nat.eqb j i then a else f j.

Lemma upd_same : forall {A} (f : nat -> A) i a, upd f i a i = a.
Proof. intros; unfold upd; rewrite Nat.eqb_refl; reflexivity. Qed.

Lemma upd_other : forall {A} (f : nat -> A) i a j, j <> i -> upd f i a j = f j.
Proof. intros A f i a j H; unfold upd; destruct (Nat.eqb_spec j i); [contradiction|reflexivity]. Qed.

Global Opaque upd.
