(** * PyOps — the dynamic Python operations jsonrpclib relies on.

    Each operation returns [res] and raises exactly where CPython raises
    (modelled, cross-checked against CPython by the correspondence stage of
    the properties that use it; DESIGN.md section 6.6). *)

From JR Require Export Val.
From Coq Require Import Ascii.

(** ** Exceptions and results *)

Inductive exn :=
| EProtocol (payload : val)      (* jsonrpclib.ProtocolError(payload): args[0] *)
| EApp (payload : val)           (* jsonrpclib.AppError(payload) *)
| ETransport (url : str) (status : Z)
| ETranslation                   (* jsonclass.TranslationError *)
| EType | EValue | EKey | EIndex | EAttr | ENotImpl | EAssert | EOS | EImport
| EOther (cls : str)             (* any other exception class, by name *)
| EUnmodelled.                   (* the model does not cover this input (excluded from theorem domains) *)

Inductive res (A : Type) := Ok (a : A) | Raise (e : exn).
Arguments Ok {A} a.
Arguments Raise {A} e.

Definition bind {A B} (r : res A) (f : A -> res B) : res B :=
  match r with Ok a => f a | Raise e => Raise e end.
Notation "'do' x <- r ; k" := (bind r (fun x => k)) (at level 200, x pattern, r at level 100, k at level 200).

(** ** Numbers *)

Definition rat := (Z * positive)%type.

Definition num_of (v : val) : option rat :=
  match v with
  | VBool b => Some (if b then 1 else 0, 1%positive)
  | VInt z => Some (z, 1%positive)
  | VFlt (F n d) => Some (n, d)
  | VFlt FNegZero => Some (0, 1%positive)
  | _ => None
  end.

Definition rat_eqb (x y : rat) : bool := (fst x * Zpos (snd y) =? fst y * Zpos (snd x)).
Definition rat_leb (x y : rat) : bool := (fst x * Zpos (snd y) <=? fst y * Zpos (snd x)).
Definition rat_ltb (x y : rat) : bool := (fst x * Zpos (snd y) <? fst y * Zpos (snd x)).
Definition rat_of_Z (z : Z) : rat := (z, 1%positive).

(** [isinstance(v, (int, float))] — note that bool is a subclass of int. *)
Definition is_numeric (v : val) : bool :=
  match v with VBool _ | VInt _ | VFlt _ => true | _ => false end.

Definition is_string (v : val) : bool := match v with VStr _ => true | _ => false end.
Definition is_dict (v : val) : bool := match v with VDict _ => true | _ => false end.
Definition is_list (v : val) : bool := match v with VList _ => true | _ => false end.
Definition is_tuple (v : val) : bool := match v with VTuple _ => true | _ => false end.

(** ** Truthiness: [bool(v)] *)

Definition truthy (v : val) : bool :=
  match v with
  | VNone => false
  | VBool b => b
  | VInt z => negb (z =? 0)
  | VFlt (F n _) => negb (n =? 0)
  | VFlt FNegZero => false
  | VStr s => negb (String.eqb s "")
  | VList l | VTuple l | VSet l | VFrozen l => match l with [] => false | _ => true end
  | VDict m => match m with [] => false | _ => true end
  | VInst _ _ | VDec _ | VEnum _ _ | VOpaque _ => true
  end.

(** ** Python [==] on the data fragment (numbers compare across int/float/bool,
    dicts compare up to order, list and tuple are distinct). *)

Fixpoint py_eq (a b : val) {struct a} : bool :=
  match num_of a, num_of b with
  | Some x, Some y => rat_eqb x y
  | Some _, None | None, Some _ => false
  | None, None =>
      match a, b with
      | VNone, VNone => true
      | VStr x, VStr y => String.eqb x y
      | VList x, VList y | VTuple x, VTuple y =>
          (fix go (l1 l2 : list val) {struct l1} : bool :=
             match l1, l2 with
             | [], [] => true
             | p :: ps, q :: qs => py_eq p q && go ps qs
             | _, _ => false
             end) x y
      | VDict x, VDict y =>
          Nat.eqb (length x) (length y) &&
          (fix go (l1 : list (val * val)) {struct l1} : bool :=
             match l1 with
             | [] => true
             | kp :: ps =>
                 (fix find (l2 : list (val * val)) : bool :=
                    match l2 with
                    | [] => false
                    | kq :: qs => if py_eq (fst kp) (fst kq) then py_eq (snd kp) (snd kq) else find qs
                    end) y && go ps
             end) x
      | _, _ => val_eqb a b
      end
  end.

(** ** Strings *)

Fixpoint prefixb (p s : string) : bool :=
  match p, s with
  | EmptyString, _ => true
  | String a p', String b s' => Ascii.eqb a b && prefixb p' s'
  | _, _ => false
  end.

Fixpoint substrb (needle hay : string) : bool :=
  prefixb needle hay ||
  match hay with
  | EmptyString => false
  | String _ h' => substrb needle h'
  end.

(** a UTF-8 continuation byte is 10xxxxxx *)
Definition is_cont (a : ascii) : bool :=
  let n := N_of_ascii a in (128 <=? n)%N && (n <? 192)%N.

(** Split a UTF-8 string into its characters (each a short string). *)
Fixpoint str_chars_aux (cur : string) (s : string) : list string :=
  match s with
  | EmptyString => match cur with EmptyString => [] | _ => [cur] end
  | String a s' =>
      if is_cont a then str_chars_aux (cur ++ String a EmptyString) s'
      else match cur with
           | EmptyString => str_chars_aux (String a EmptyString) s'
           | _ => cur :: str_chars_aux (String a EmptyString) s'
           end
  end.
Definition str_chars (s : string) : list string := str_chars_aux EmptyString s.

(** ** Dict access (keys compared with Python ==) *)

Definition hashable (v : val) : bool :=
  match v with
  | VList _ | VDict _ | VSet _ => false
  | _ => true       (* tuples of hashables, frozensets: not refined; unused by the library *)
  end.

Fixpoint assoc (k : val) (m : list (val * val)) : option val :=
  match m with
  | [] => None
  | (k', v) :: r => if py_eq k k' then Some v else assoc k r
  end.

Definition dget (m : list (val * val)) (k : str) : option val := assoc (VStr k) m.
Definition dhas (m : list (val * val)) (k : str) : bool :=
  match dget m k with Some _ => true | None => false end.

(** [d[k] = v] : replace in place if present, append otherwise (insertion order kept) *)
Fixpoint dset (m : list (val * val)) (k v : val) : list (val * val) :=
  match m with
  | [] => [(k, v)]
  | (k', v') :: r => if py_eq k k' then (k', v) :: r else (k', v') :: dset r k v
  end.

Fixpoint ddel (m : list (val * val)) (k : val) : list (val * val) :=
  match m with
  | [] => []
  | (k', v') :: r => if py_eq k k' then r else (k', v') :: ddel r k
  end.

(** ** [x in c] *)
Definition py_contains (x c : val) : res bool :=
  match c with
  | VStr s => match x with VStr n => Ok (substrb n s) | _ => Raise EType end
  | VList l | VTuple l => Ok (existsb (py_eq x) l)
  | VSet l | VFrozen l => if hashable x then Ok (existsb (py_eq x) l) else Raise EType
  | VDict m => if hashable x then Ok (match assoc x m with Some _ => true | None => false end) else Raise EType
  | _ => Raise EType
  end.

(** ** [c[k]] *)
Definition nth_py {A} (l : list A) (i : Z) : option A :=
  let n := Z.of_nat (length l) in
  let j := if i <? 0 then i + n else i in
  if (j <? 0) || (n <=? j) then None else nth_error l (Z.to_nat j).

Definition index_of (k : val) : option Z :=
  match k with VInt z => Some z | VBool b => Some (if b then 1 else 0) | _ => None end.

Definition py_getitem (c k : val) : res val :=
  match c with
  | VDict m => if hashable k then match assoc k m with Some v => Ok v | None => Raise EKey end else Raise EType
  | VList l | VTuple l =>
      match index_of k with
      | Some i => match nth_py l i with Some v => Ok v | None => Raise EIndex end
      | None => Raise EType
      end
  | VStr s =>
      match index_of k with
      | Some i => match nth_py (str_chars s) i with Some ch => Ok (VStr ch) | None => Raise EIndex end
      | None => Raise EType
      end
  | _ => Raise EType
  end.

(** ** [float(v)] — numbers, and decimal strings  digits [ '.' digits ] only.
    Other strings are outside the modelled domain ([EUnmodelled]). *)

Definition digit_of (a : ascii) : option Z :=
  let n := N_of_ascii a in
  if (48 <=? n)%N && (n <=? 57)%N then Some (Z.of_N n - 48) else None.

Fixpoint parse_digits (s : string) (acc : Z) (cnt : nat) : option (Z * nat * string) :=
  match s with
  | EmptyString => Some (acc, cnt, EmptyString)
  | String a s' =>
      match digit_of a with
      | Some d => parse_digits s' (acc * 10 + d) (S cnt)
      | None => Some (acc, cnt, s)
      end
  end.

Definition parse_decimal (s : string) : option rat :=
  match parse_digits s 0 0%nat with
  | Some (ip, S _, EmptyString) => Some (ip, 1%positive)
  | Some (ip, S _, String "." rest) =>
      match parse_digits rest ip 0%nat with
      | Some (all, S k, EmptyString) => Some (all, Pos.pow 10 (Pos.of_nat (S k)))
      | _ => None
      end
  | _ => None
  end.

Definition py_float (v : val) : res rat :=
  match num_of v with
  | Some r => Ok r
  | None =>
      match v with
      | VStr s => match parse_decimal s with Some r => Ok r | None => Raise EUnmodelled end
      | _ => Raise EType
      end
  end.

(** ** [len(v)] *)
Definition py_len (v : val) : res Z :=
  match v with
  | VStr s => Ok (Z.of_nat (length (str_chars s)))
  | VList l | VTuple l | VSet l | VFrozen l => Ok (Z.of_nat (length l))
  | VDict m => Ok (Z.of_nat (length m))
  | _ => Raise EType
  end.

(** ** String helpers used by the dispatcher and jsonclass *)

Fixpoint split_on (sep : ascii) (s : string) (cur : string) : list string :=
  match s with
  | EmptyString => [cur]
  | String a s' => if Ascii.eqb a sep then cur :: split_on sep s' EmptyString
                   else split_on sep s' (cur ++ String a EmptyString)
  end.
Definition split_dot (s : string) : list string := split_on "." s EmptyString.

Definition starts_with_underscore (s : string) : bool := prefixb "_" s.

Definition ascii_lower_char (a : ascii) : ascii :=
  let n := N_of_ascii a in
  if (65 <=? n)%N && (n <=? 90)%N then ascii_of_N (n + 32) else a.
Fixpoint ascii_lower (s : string) : string :=
  match s with
  | EmptyString => EmptyString
  | String a s' => String (ascii_lower_char a) (ascii_lower s')
  end.

Fixpoint join (sep : string) (l : list string) : string :=
  match l with
  | [] => EmptyString
  | [x] => x
  | x :: r => x ++ sep ++ join sep r
  end.
