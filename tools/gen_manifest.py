#!/usr/bin/env python3
"""Regenerates MANIFEST.json from the table below (run after adding a property check)."""
import json
import os

HERE = os.path.dirname(os.path.dirname(os.path.abspath(__file__)))
ids = [json.loads(l)["id"] for l in open(os.path.join(HERE, "properties.jsonl"))]

COMMON_NOTE = ("Trusted: Coq 8.16.1 kernel + vm_compute; the hand-written Gallina model is tied to /repo only by the "
               "correspondence stage (model and implementation run on the same generated cases, compared inside coqc); "
               "Python->Gallina encoder; property oracle transcribed from the statement. ")

# Each harness/props/cNN.py that is ready to be claimed defines
#   MANIFEST_ENTRY = {"text": ..., "note": ..., "technique": ..., "design_ref": ...}
import glob
import importlib
import sys
sys.path.insert(0, HERE)
sys.dont_write_bytecode = True
CLAIMED = {}
for path in sorted(glob.glob(os.path.join(HERE, "harness", "props", "c[0-9][0-9].py"))):
    name = os.path.basename(path)[:-3]
    mod = importlib.import_module("harness.props." + name)
    e = getattr(mod, "MANIFEST_ENTRY", None)
    if e:
        CLAIMED[mod.PROP_ID] = (e["text"], e["note"], e["technique"], e["design_ref"])
REASONS = {}
rp = os.path.join(HERE, "tools", "not_applicable_reasons.json")
if os.path.exists(rp):
    REASONS = json.load(open(rp))

checks = []
for i in ids:
    if i in CLAIMED:
        text, note, tech, ref = CLAIMED[i]
        checks.append({
            "property_id": i,
            "quick_cmd": "./check %s --tier quick" % i,
            "thorough_cmd": "./check %s --tier thorough" % i,
            "evidence_file": "/verif/evidence/%s.json" % i,
            "replay_cmd_template": "./check %s --replay {path}" % i,
            "engine": "rocq-model+correspondence",
            "level_claimed": {"category": "proof", "text": text, "design_ref": ref},
            "level_note": COMMON_NOTE + note,
            "technique": tech,
        })
m = {
    "version": 1,
    "setup_cmd": "cd /verif/coq && sh gen_project.sh && coq_makefile -f _CoqProject -o Makefile && timeout 3000 make -j16",
    "hooks": {"guard": "JSONRPCLIB_VERIF",
              "enable": "no hooks: all instrumentation is applied from outside at run time (namespace shims, sys.settrace, custom transport objects)",
              "baseline_off_cmd": "cd /repo && /venv/bin/python -m pytest -ra -q -p no:cacheprovider --timeout=900 --continue-on-collection-errors",
              "source_commits": [], "add_only": True},
    "engines": [{"name": "rocq-model+correspondence", "path": "/verif/check",
                 "serves_properties": sorted(CLAIMED),
                 "kind_free_text": "Coq 8.16.1 development (coq/theories: Base, Model, Proofs, Props) + Python harness (harness/) that runs model and implementation on the same generated cases and a property oracle"}],
    "checks": checks,
    "notes": "See DESIGN.md. known_findings.json lists fixed/known findings; replays/ is written at run time.",
    "not_applicable": [{"property_id": i, "reason": REASONS.get(i, "check not built yet (framework under construction; DESIGN.md section 7 gives the order)")}
                       for i in ids if i not in CLAIMED],
}
json.dump(m, open(os.path.join(HERE, "MANIFEST.json"), "w"), indent=1)
print("claimed:", sorted(CLAIMED))
