#!/usr/bin/env python3
"""Self-test against the seeded changes in /verif/seeded/<name>/ (patch.diff, demo.py, meta.json).

For every selected seed: a scratch git worktree of /repo's HEAD is created under /tmp/seedrun, the patch
is applied there, and (depending on the mode)

  --confirm   the demonstration is run on the clean worktree (must exit 0) and on the patched one (must
              exit 1), and the repository's own test suite is run on the patched worktree (62 must pass);
  --check     the property's check (./check <ID> --tier T) is run with VERIF_REPO pointing at the patched
              worktree; build/evidence/replays of that run go to a scratch directory so that nothing under
              /verif/evidence is touched.  (The registered way -- git -C /repo apply, run, checkout -- gives
              the same result; the worktree only allows several seeds to be tried at once.)

Results are merged into /verif/seeded/RESULTS.json.  Worktrees and scratch output are removed at the end."""
import argparse
import json
import os
import re
import shutil
import subprocess
import sys
import time
from concurrent.futures import ThreadPoolExecutor

VERIF = os.path.dirname(os.path.dirname(os.path.abspath(__file__)))
SEEDED = os.path.join(VERIF, "seeded")
SCRATCH = "/tmp/seedrun"
PY = "/venv/bin/python"


def sh(cmd, cwd=None, env=None, timeout=3600):
    try:
        p = subprocess.run(cmd, cwd=cwd, env=env, stdout=subprocess.PIPE, stderr=subprocess.STDOUT, text=True, timeout=timeout)
        return p.returncode, p.stdout
    except subprocess.TimeoutExpired as ex:
        return 124, (ex.stdout or "") + "\nTIMEOUT"


import threading
_GIT = threading.Lock()      # concurrent `git worktree add/remove` on one repository race with each other


def worktree(name):
    with _GIT:
        return _worktree(name)


def _worktree(name):
    wt = os.path.join(SCRATCH, name)
    if os.path.exists(wt):
        sh(["git", "-C", "/repo", "worktree", "remove", "--force", wt])
        shutil.rmtree(wt, ignore_errors=True)
    rc, out = sh(["git", "-C", "/repo", "worktree", "add", "--detach", wt, "HEAD"])
    if rc:
        raise RuntimeError(out)
    return wt


def drop(wt):
    with _GIT:
        sh(["git", "-C", "/repo", "worktree", "remove", "--force", wt])
        shutil.rmtree(wt, ignore_errors=True)


def prop_of(name):
    meta = os.path.join(SEEDED, name, "meta.json")
    if os.path.exists(meta):
        return json.load(open(meta))["property"]
    return name.split("-")[0]


def confirm(name):
    d = os.path.join(SEEDED, name)
    wt = worktree(name + "-confirm")
    res = {}
    try:
        env = dict(os.environ, PYTHONPATH=wt, PYTHONDONTWRITEBYTECODE="1")
        rc0, out0 = sh([PY, os.path.join(d, "demo.py")], cwd=d, env=env, timeout=300)
        res["demo_clean_exit"] = rc0
        rc, out = sh(["git", "-C", wt, "apply", os.path.join(d, "patch.diff")])
        res["applies"] = rc == 0
        if rc == 0:
            rc1, out1 = sh([PY, os.path.join(d, "demo.py")], cwd=d, env=env, timeout=300)
            res["demo_patched_exit"] = rc1
            res["demo_patched_tail"] = out1.strip().splitlines()[-1][:300] if out1.strip() else ""
            rct, outt = sh([PY, "-m", "pytest", "-q", "-p", "no:cacheprovider", "--timeout=900"], cwd=wt,
                           env=dict(os.environ, PYTHONDONTWRITEBYTECODE="1"), timeout=1200)
            m = re.search(r"(\d+) failed, (\d+) passed", outt) or re.search(r"()(\d+) passed", outt)
            res["suite"] = outt.strip().splitlines()[-1][:200] if outt.strip() else ""
            res["suite_passed"] = int(m.group(2)) if m else -1
        res["confirmed"] = bool(res.get("applies") and rc0 == 0 and res.get("demo_patched_exit") == 1 and res.get("suite_passed") == 62)
    finally:
        drop(wt)
    return res


def check(name, tier, props=None, seed=0):
    d = os.path.join(SEEDED, name)
    out = {}
    for prop in (props or [prop_of(name)]):
        wt = worktree("%s-%s" % (name, prop))
        scratch = os.path.join(SCRATCH, "out-%s-%s" % (name, prop))
        shutil.rmtree(scratch, ignore_errors=True)
        os.makedirs(scratch)
        try:
            rc, o = sh(["git", "-C", wt, "apply", os.path.join(d, "patch.diff")])
            if rc:
                out[prop] = {"error": "patch does not apply: " + o[-300:]}
                continue
            env = dict(os.environ, VERIF_REPO=wt, VERIF_BUILD=os.path.join(scratch, "build"), VERIF_EVIDENCE=os.path.join(scratch, "evidence"),
                       VERIF_REPLAYS=os.path.join(scratch, "replays"), VERIF_SEED=str(seed), VERIF_JOBS=os.environ.get("VERIF_JOBS", "8"))
            t0 = time.time()
            rc, o = sh([os.path.join(VERIF, "check"), prop, "--tier", tier], cwd=VERIF, env=env, timeout=3600)
            viol = [l for l in o.splitlines() if l.startswith("VIOLATION")]
            keys = []
            for l in viol:
                m = re.search(r"replay=(\S+)", l)
                if m and os.path.exists(m.group(1)):
                    try:
                        doc = json.load(open(m.group(1)))
                        keys.append((doc.get("key") or doc.get("broken") or "?") + " :: " + str(doc.get("message", ""))[:160])
                    except Exception:
                        pass
            out[prop] = {"exit": rc, "violations": len(viol), "with_failing_input": sum(1 for l in viol if "no-failing-input-found" not in l),
                         "keys": keys[:4], "secs": round(time.time() - t0, 1), "tail": o.strip().splitlines()[-1][:200] if o.strip() else ""}
        finally:
            drop(wt)
            shutil.rmtree(scratch, ignore_errors=True)
    return out


def main():
    ap = argparse.ArgumentParser()
    ap.add_argument("names", nargs="*")
    ap.add_argument("--confirm", action="store_true")
    ap.add_argument("--check", action="store_true")
    ap.add_argument("--tier", default="quick")
    ap.add_argument("--jobs", type=int, default=4)
    ap.add_argument("--props", default="", help="comma-separated property ids to run instead of the seed's own")
    ap.add_argument("--results", default=os.path.join(SEEDED, "RESULTS.json"), help="file the results are merged into")
    a = ap.parse_args()
    names = a.names or sorted(n for n in os.listdir(SEEDED) if os.path.isdir(os.path.join(SEEDED, n)))
    os.makedirs(SCRATCH, exist_ok=True)
    rp = a.results
    results = json.load(open(rp)) if os.path.exists(rp) else {}

    def job(n):
        r = {}
        if a.confirm:
            r["confirm"] = confirm(n)
        if a.check:
            r["check_" + a.tier] = check(n, a.tier, [p for p in a.props.split(",") if p] or None)
        return n, r

    with ThreadPoolExecutor(max_workers=a.jobs) as ex:
        for n, r in ex.map(job, names):
            results.setdefault(n, {}).update(r)
            print(n, json.dumps(r)[:600])
            sys.stdout.flush()
            json.dump(results, open(rp, "w"), indent=1, sort_keys=True)
    sh(["git", "-C", "/repo", "worktree", "prune"])


if __name__ == "__main__":
    main()
