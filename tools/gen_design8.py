#!/usr/bin/env python3
"""Regenerates section 8 of DESIGN.md from tools/design_section8.md: the seeded-change tables come from
seeded/RESULTS.json (written by tools/run_seeded.py), seeded/<name>/meta.json and seeded/FIRST_PASS.json."""
import json
import os
import re
import sys

VERIF = os.path.dirname(os.path.dirname(os.path.abspath(__file__)))
S = os.path.join(VERIF, "seeded")


def status(v):
    if not v or "exit" not in v:
        return "not run"
    if v["violations"] == 0:
        return "not detected"
    if v["with_failing_input"] == 0:
        return "VIOLATION, `no-failing-input-found` (correspondence only)"
    return "VIOLATION, failing input"


def keys_of(v):
    ks = []
    for k in (v or {}).get("keys", []):
        k = k.split(" :: ")[0]
        k = re.sub(r"\s*\(model .*$", "", k)
        if k not in ks:
            ks.append(k)
    return ", ".join("`%s`" % k for k in ks[:3])


def table(R, names, first=None):
    head = "| seed | needs to manifest | own check (quick) | oracle keys of the replay(s) | also caught by |"
    sep = "|---|---|---|---|---|"
    if first is not None:
        head = "| seed | needs to manifest | first pass | own check now (quick) | oracle keys of the replay(s) |"
    rows = [head, sep]
    for n in names:
        meta = json.load(open(os.path.join(S, n, "meta.json")))
        p = meta["property"]
        c = R.get(n, {}).get("check_quick", {})
        own = c.get(p)
        need = meta["needs_to_manifest"].replace("|", "\\|")
        if first is not None:
            rows.append("| %s | %s | %s | %s | %s |" % (n, need, first.get(n, "?"), status(own), keys_of(own)))
        else:
            others = []
            for q, v in sorted(c.items()):
                if q != p and v.get("violations"):
                    others.append(q + ("" if v.get("with_failing_input") else " (correspondence)"))
            rows.append("| %s | %s | %s | %s | %s |" % (n, need, status(own), keys_of(own), ", ".join(others)))
    return "\n".join(rows)


def main():
    R = json.load(open(os.path.join(S, "RESULTS.json")))
    first = json.load(open(os.path.join(S, "FIRST_PASS.json")))
    names = sorted(n for n in os.listdir(S) if os.path.isdir(os.path.join(S, n)))
    r1 = [n for n in names if n.endswith(("-1", "-2"))]
    r2 = [n for n in names if n.endswith(("-3", "-4"))]
    r3 = [n for n in names if n.endswith(("-5", "-6"))]
    r4 = [n for n in names if n.endswith(("-7", "-8"))]
    t = open(os.path.join(VERIF, "tools", "design_section8.md")).read()
    t = t.replace("SEEDED_TABLE_4", table(R, r4, first))
    t = t.replace("SEEDED_TABLE_3", table(R, r3, first)).replace("SEEDED_TABLE_2", table(R, r2)).replace("SEEDED_TABLE", table(R, r1))
    cc = os.path.join(VERIF, "tools", "coqchk_result.txt")
    t = t.replace("COQCHK_RESULT", open(cc).read().strip() if os.path.exists(cc) else "(not run)")
    d = open(os.path.join(VERIF, "DESIGN.md")).read()
    a = d.index("## 8. As built")
    b = d.index("## Appendix A.")
    open(os.path.join(VERIF, "DESIGN.md"), "w").write(d[:a] + t.rstrip("\n") + "\n\n" + d[b:])
    und = [n for n in names if status(R.get(n, {}).get("check_quick", {}).get(n.split("-")[0])) == "not detected"]
    print("rounds:", len(r1), len(r2), len(r3), len(r4), "not detected:", und)


if __name__ == "__main__":
    main()
