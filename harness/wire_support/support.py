"""Helpers of the C17 check: fake files / sockets / responses, a raw recording socket peer,
and the Gallina literals of byte strings and texts (run-length compressed)."""
import http.client
import io
import os
import socket
import threading


# ------------------------------------------------------------------ Gallina literals

def g_nlist(values):
    """list N literal; runs of >= 12 equal values become (rp x n)."""
    values = list(values)
    parts = []
    lit = []
    i, n = 0, len(values)
    while i < n:
        j = i
        while j < n and values[j] == values[i]:
            j += 1
        if j - i >= 12:
            if lit:
                parts.append("[%s]%%N" % ";".join(map(str, lit)))
                lit = []
            parts.append("(rp %d%%N %d%%N)" % (values[i], j - i))
        else:
            lit.extend(values[i:j])
        i = j
    if lit or not parts:
        parts.append("[%s]%%N" % ";".join(map(str, lit)))
    if len(parts) == 1:
        return "(%s : list N)" % parts[0] if parts[0].startswith("[") else parts[0]
    return "(%s)%%list" % " ++ ".join(parts)


def g_bytes(b):
    return g_nlist(bytes(b))


def g_text(s):
    return g_nlist(ord(c) for c in s)


_SAFE = set(range(32, 127)) - {ord('"')}


def g_string(s):
    """Coq [string] literal of an ASCII Python str."""
    b = s.encode("latin-1")
    if all(c in _SAFE for c in b):
        return '"%s"%%string' % s
    return "(sb [%s]%%N)" % ";".join(str(c) for c in b)


# ------------------------------------------------------------------ raw HTTP parsing of captured bytes

def split_http(raw):
    """-> (start line, [(name, value)], body bytes) of a captured request or response head + body"""
    head, sep, body = raw.partition(b"\r\n\r\n")
    lines = head.split(b"\r\n")
    start = lines[0].decode("latin-1")
    headers = []
    for ln in lines[1:]:
        name, _, value = ln.partition(b":")
        headers.append((name.decode("latin-1"), value.decode("latin-1").strip(" \t")))
    return start, headers, body


def framing_of(headers):
    """the values of Content-Type and of Content-Length (names compared case-insensitively)"""
    ct = [v for (k, v) in headers if k.lower() == "content-type"]
    cl = [v for (k, v) in headers if k.lower() == "content-length"]
    return ct, cl


# ------------------------------------------------------------------ server side: fake rfile / wfile

class FakeRFile(object):
    """rfile whose read(n) returns at most n bytes, at most the next scripted size (short reads; a
    scripted 0 is an empty read), at most what is left.  Records the requested sizes."""

    def __init__(self, data, caps):
        self.data = bytes(data)
        self.pos = 0
        self.caps = list(caps)
        self.requests = []

    def read(self, n=-1):
        self.requests.append(n)
        left = len(self.data) - self.pos
        if n is None or n < 0:
            n = left
        if self.caps:
            n = min(n, self.caps.pop(0))
        n = min(n, left)
        out = self.data[self.pos:self.pos + n]
        self.pos += n
        return out

    def readline(self, *a):
        return b""


class RunBody(object):
    """A bytes-like source described by construction (prefix run, middle, suffix run) so that a
    10 MiB body never has to be stored in a replay file."""

    def __init__(self, pre, mid, post):
        self.bytes = b"a" * pre + mid + b"b" * post


# ------------------------------------------------------------------ client side: fake socket under the real http.client

class FakeSock(object):
    def __init__(self, response_bytes):
        self.sent = []
        self.response = response_bytes

    def sendall(self, data):
        self.sent.append(bytes(data))

    def makefile(self, mode="rb", *a, **k):
        return io.BytesIO(self.response)

    def settimeout(self, t):
        pass

    def setsockopt(self, *a):
        pass

    def close(self):
        pass


class CapturingConnection(http.client.HTTPConnection):
    """The real http.client.HTTPConnection, writing into a FakeSock."""

    def __init__(self, response_bytes):
        http.client.HTTPConnection.__init__(self, "localhost")
        self._fake = FakeSock(response_bytes)

    def connect(self):
        self.sock = self._fake

    def captured(self):
        return b"".join(self._fake.sent)


class FakeResponse(object):
    """Response object for Transport.parse_response: read(amt) follows a script of short reads."""

    def __init__(self, wire, sizes, gzip_header):
        self.wire = bytes(wire)
        self.pos = 0
        self.sizes = list(sizes)
        self.gzip_header = gzip_header
        self.status = 200

    def getheader(self, name, default=None):
        if name.lower() == "content-encoding" and self.gzip_header:
            return "gzip"
        return default

    def read(self, amt=None):
        left = len(self.wire) - self.pos
        if amt is None or amt < 0:
            n = left
        else:
            n = amt
            if self.sizes:
                n = min(n, max(1, self.sizes.pop(0)))
            n = min(max(1, n), left)
        out = self.wire[self.pos:self.pos + n]
        self.pos += n
        return out

    def close(self):
        pass


# ------------------------------------------------------------------ raw recording peer over real sockets

class RecordingPeer(object):
    """One-shot raw socket peer: accepts one connection, records every byte the client sends (the head,
    the declared body, and anything the client sends afterwards until it closes), and answers with a
    scripted byte string sent in scripted pieces (down to one byte at a time)."""

    def __init__(self, family="tcp", unix_dir=None):
        self.family = family
        if family == "unix":
            self.path = os.path.join(unix_dir, "peer-%d.sock" % id(self))
            self.lsock = socket.socket(socket.AF_UNIX, socket.SOCK_STREAM)
            self.lsock.bind(self.path)
        else:
            self.lsock = socket.socket(socket.AF_INET, socket.SOCK_STREAM)
            self.lsock.setsockopt(socket.SOL_SOCKET, socket.SO_REUSEADDR, 1)
            self.lsock.bind(("127.0.0.1", 0))
            self.port = self.lsock.getsockname()[1]
        self.lsock.listen(1)
        self.lsock.settimeout(30)
        self.raw = b""
        self.error = None
        self.pieces = []
        self.thread = None

    def start(self, pieces):
        self.pieces = list(pieces)
        self.thread = threading.Thread(target=self._run, daemon=True)
        self.thread.start()

    def _run(self):
        try:
            conn, _ = self.lsock.accept()
        except Exception as ex:   # noqa
            self.error = ex
            return
        try:
            conn.settimeout(30)
            if self.family != "unix":
                conn.setsockopt(socket.IPPROTO_TCP, socket.TCP_NODELAY, 1)
            buf = b""
            while b"\r\n\r\n" not in buf:
                d = conn.recv(65536)
                if not d:
                    break
                buf += d
            head, sep, rest = buf.partition(b"\r\n\r\n")
            clen = 0
            for ln in head.split(b"\r\n")[1:]:
                k, _, v = ln.partition(b":")
                if k.strip().lower() == b"content-length":
                    try:
                        clen = int(v.strip())
                    except ValueError:
                        clen = 0
            while len(rest) < clen:
                d = conn.recv(65536)
                if not d:
                    break
                rest += d
            self.raw = head + sep + rest
            for p in self.pieces:
                conn.sendall(p)
            # whatever else the client sends before closing belongs to the record
            try:
                conn.shutdown(socket.SHUT_WR)
            except OSError:
                pass
            while True:
                d = conn.recv(65536)
                if not d:
                    break
                self.raw += d
        except Exception as ex:   # noqa
            self.error = ex
        finally:
            conn.close()

    def unblock(self):
        """the client failed before connecting: let the accept() return"""
        try:
            fam = socket.AF_UNIX if self.family == "unix" else socket.AF_INET
            c = socket.socket(fam, socket.SOCK_STREAM)
            c.settimeout(5)
            c.connect(self.path if self.family == "unix" else ("127.0.0.1", self.port))
            c.close()
        except OSError:
            pass

    def finish(self):
        if self.thread is not None:
            self.thread.join(40)
        self.lsock.close()
        if self.family == "unix":
            try:
                os.unlink(self.path)
            except OSError:
                pass
        return self.raw


def http_response(body, gzip_encoded=False, extra=()):
    head = [b"HTTP/1.1 200 OK", b"Content-Type: application/json-rpc", b"Content-Length: %d" % len(body),
            b"Connection: close"]
    if gzip_encoded:
        head.append(b"Content-Encoding: gzip")
    head.extend(extra)
    return b"\r\n".join(head) + b"\r\n\r\n" + body


def cut(data, points):
    """split a byte string at the given offsets"""
    pts = sorted(set(p for p in points if 0 < p < len(data)))
    out, last = [], 0
    for p in pts:
        out.append(data[last:p])
        last = p
    out.append(data[last:])
    return out
