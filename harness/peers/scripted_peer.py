"""Scripted raw-socket HTTP peer for C19 (transport faults).

The peer consumes one *fault symbol* per connection attempt / request exchange from a script
over the alphabet of property C19:

    H  healthy keep-alive           200 + Content-Length + JSON-RPC reply echoing the request's token
    C  healthy then close           same reply, then the peer closes silently (no `Connection: close`)
    R  refuse                       no listener: connect() gets ECONNREFUSED
    X  close before reply           the complete request is read, then FIN
    T  reset                        the complete request is read, then RST
                                    (TCP: SO_LINGER 0; Unix: close with one unread byte => ECONNRESET)
    L<status>  4xx/5xx with Content-Length, connection kept      (default 503)
    N<status>  5xx without length, then close                     (default 500)
    B<status>  bodiless status (no body, no length, kept open)    (default 204)
               for an interim status (1xx: B102, B103) the final 200 reply of that request is late: the peer
               sends it as soon as it sees another request on the same connection, before treating that request
               (a client that re-uses the connection without having seen the final reply reads a foreign result)
    U  truncated body               200, Content-Length n, only the first half of the body, then close
    Z  empty 200                    200, Content-Length 0, kept open
    J  non-JSON 200                 200, Content-Length, an HTML body, kept open

When the script is exhausted every further exchange is H ("once faults stop").

Determinism (no timing dependence):
  * the peer is single-threaded and handles one connection at a time, to its end, before the
    next one; it always reads the *complete* request before acting;
  * connection attempts of the client are observed synchronously through the `socket.connect`
    audit event (raised in the client's thread before the connect syscall): the hook first waits
    until the peer has finished the previous connection (the client has at most one socket, and it
    has closed it before it connects again, so this always happens), then takes the next symbol:
    for R it makes sure the listener is closed *before* the syscall, otherwise it makes sure the
    listener is open and hands the symbol to the accepting thread;
  * a request arriving on a kept connection takes the next symbol in the peer thread; if that
    symbol is R the peer drops the connection without a reply and does *not* consume it (the
    server is down: the refusal is consumed by the connection attempt that follows);
  * the TCP port stays reserved while the listener is closed (a second socket bound with
    SO_REUSEPORT that never listens).
"""
import json
import os
import socket
import struct
import sys
import threading

HANG = 20.0          # only to detect hangs; healthy operations take well under a millisecond

BASE = ["H", "C", "R", "X", "T", "L", "N", "B", "U", "Z", "J"]
DEFAULT_STATUS = {"L": 503, "N": 500, "B": 204}
REASONS = {204: "No Content", 304: "Not Modified", 400: "Bad Request", 404: "Not Found", 418: "I'm a teapot",
           500: "Internal Server Error", 502: "Bad Gateway", 503: "Service Unavailable", 201: "Created", 301: "Moved"}

_peers = []          # live peers looked at by the audit hook
_hook_installed = False


def _audit(event, args):
    if event != "socket.connect" or not _peers:
        return
    try:
        addr = args[1]
    except Exception:
        return
    for p in list(_peers):
        if p.matches(addr):
            p.on_connect_attempt()


def _install_hook():
    global _hook_installed
    if not _hook_installed:
        sys.addaudithook(_audit)
        _hook_installed = True


L_BODIES = {404: b"introuvable: caf\xe9 ferm\xe9", 500: b"\x1f\x8b\x08\x00\x00\x00\x00\x00\x02\xff\xb3\xc9(\xc9\xcd\xb1\x03\x00", 503: b""}


def sym_kind(sym):
    return sym[0]


def sym_status(sym):
    if len(sym) > 1:
        return int(sym[1:])
    return DEFAULT_STATUS.get(sym[0])


class ScriptedPeer(object):
    def __init__(self, kind, script, tmpdir=None):
        assert kind in ("tcp", "unix")
        self.kind = kind
        self.script = list(script)
        self.idx = 0
        self.cv = threading.Condition()
        self.conn_active = False
        self.expect = None
        self.stopping = False
        self.listener = None
        self.holder = None
        self.cur = None
        self.log = []            # dicts {ev, idx, sym, tok, call} in the order the symbols were used
        self.current_call = None # set by the harness before each proxy call (used for refusals only)
        self.anomalies = []      # things that must not happen (peer-side timeouts ...)
        self.tmpdir = tmpdir
        if kind == "tcp":
            self.holder = self._tcp_socket(0, False)
            self.port = self.holder.getsockname()[1]
            self.addr = ("127.0.0.1", self.port)
            self.host = "127.0.0.1:%d" % self.port
            self.handler = "/rpc/x"
            self.url = "http://%s%s" % (self.host, self.handler)
        else:
            self.path = os.path.join(tmpdir, "peer.sock")
            self.addr = self.path
            self.host = "localhost"
            self.handler = "/"
            self.url = "unix+http://localhost" + self.path
        self._open_listener()
        self.thread = threading.Thread(target=self._serve, name="c19-peer", daemon=True)
        _install_hook()
        _peers.append(self)
        self.thread.start()

    # ------------------------------------------------------------ sockets
    def _tcp_socket(self, port, listen):
        s = socket.socket(socket.AF_INET, socket.SOCK_STREAM)
        s.setsockopt(socket.SOL_SOCKET, socket.SO_REUSEADDR, 1)
        s.setsockopt(socket.SOL_SOCKET, socket.SO_REUSEPORT, 1)
        s.bind(("127.0.0.1", port))
        if listen:
            s.listen(8)
        return s

    def _open_listener(self):
        if self.listener is not None:
            return
        if self.kind == "tcp":
            self.listener = self._tcp_socket(self.port, True)
        else:
            if os.path.exists(self.path):
                os.unlink(self.path)
            s = socket.socket(socket.AF_UNIX, socket.SOCK_STREAM)
            s.bind(self.path)
            s.listen(8)
            self.listener = s
        self.listener.settimeout(HANG)

    def _close_listener(self):
        if self.listener is not None:
            self.listener.close()       # Unix: the socket file stays => ECONNREFUSED (not ENOENT)
            self.listener = None

    def matches(self, addr):
        if self.kind == "tcp":
            return isinstance(addr, tuple) and len(addr) >= 2 and addr[0] == "127.0.0.1" and addr[1] == self.port
        if isinstance(addr, bytes):
            addr = os.fsdecode(addr)
        return addr == self.path

    # ------------------------------------------------------------ script
    def _peek(self):
        return self.script[self.idx] if self.idx < len(self.script) else "H"

    def _take(self):
        s = self._peek()
        self.idx += 1
        return s

    def consumed(self):
        return min(self.idx, len(self.script))

    # ------------------------------------------------------------ client-side hook (client thread)
    def on_connect_attempt(self):
        with self.cv:
            if self.stopping:
                return
            if not self.cv.wait_for(lambda: not self.conn_active or self.stopping, timeout=HANG):
                self.anomalies.append("peer still busy with the previous connection at a new connection attempt")
                return
            if self.stopping:
                return
            sym = self._take()
            if sym_kind(sym) == "R":
                self._close_listener()
                self.log.append({"ev": "refuse", "idx": self.idx - 1, "sym": sym, "tok": None, "call": self.current_call})
                return
            self._open_listener()
            self.expect = sym
            self.conn_active = True
            self.cv.notify_all()

    # ------------------------------------------------------------ peer thread
    def _serve(self):
        while True:
            with self.cv:
                self.cv.wait_for(lambda: self.expect is not None or self.stopping)
                if self.stopping:
                    return
                sym = self.expect
                self.expect = None
                lst = self.listener
            conn = None
            try:
                try:
                    conn, _ = lst.accept()
                except Exception as ex:     # the announced connection never arrived
                    if not self.stopping:
                        self.anomalies.append("accept failed: %r" % (ex,))
                    continue
                conn.settimeout(HANG)
                self.cur = conn
                self._handle(conn, sym)
            except Exception as ex:         # noqa
                if not self.stopping:
                    self.anomalies.append("peer error: %r" % (ex,))
            finally:
                if conn is not None:
                    try:
                        conn.close()
                    except Exception:
                        pass
                self.cur = None
                with self.cv:
                    self.conn_active = False
                    self.cv.notify_all()

    def _read_request(self, conn, leave_last_byte):
        """Reads one complete request.  Returns (token, id) or None on EOF / reset before a request.
        With leave_last_byte the last body byte is left unread (Unix reset)."""
        buf = b""
        while b"\r\n\r\n" not in buf:
            try:
                d = conn.recv(65536, socket.MSG_PEEK)
                if d:
                    joined = buf + d
                    pos = joined.find(b"\r\n\r\n")
                    take = len(d) if pos < 0 else pos + 4 - len(buf)
                    d = conn.recv(take)          # consume exactly up to the end of the headers
            except (ConnectionError, socket.timeout) as ex:
                if isinstance(ex, socket.timeout) and not self.stopping:
                    self.anomalies.append("peer timed out waiting for a request")
                return None
            if not d:
                return None
            buf += d
        head, _, body = buf.partition(b"\r\n\r\n")
        length = 0
        for line in head.split(b"\r\n")[1:]:
            k, _, v = line.partition(b":")
            if k.strip().lower() == b"content-length":
                length = int(v.strip())
        want = length - (1 if leave_last_byte and length >= 2 else 0)
        while len(body) < want:
            try:
                d = conn.recv(want - len(body))
            except (ConnectionError, socket.timeout):
                return None
            if not d:
                return None
            body += d
        if len(body) < length:
            body = body + b"}"            # the unread last byte of a JSON object
        try:
            req = json.loads(body[:length].decode("utf-8"))
            params = req.get("params")
            tok = params[0] if isinstance(params, list) and params else None
            return (tok, req.get("id"))
        except Exception:
            return ("<unparsed>", None)

    def _send(self, conn, data):
        try:
            conn.sendall(data)
        except OSError:
            pass                          # the client went away (abandoned request): nothing to do

    def _response(self, status, body, with_length=True):
        head = "HTTP/1.1 %d %s\r\nServer: c19-peer\r\n" % (status, REASONS.get(status, "Status"))
        if body is not None:
            head += "Content-Type: application/json\r\n"
        if with_length:
            head += "Content-Length: %d\r\n" % len(body)
        return head.encode("ascii") + b"\r\n" + (body or b"")

    def _handle(self, conn, sym):
        first = True
        late = None          # the final reply owed after an interim status
        while True:
            if not first:
                sym = None
            # For the Unix reset the last request byte must stay unread; which symbol applies to a
            # request on a kept connection is only known once the request has started to arrive,
            # so peek: the script cannot change between the peek and the take (single consumer here,
            # the hook waits for conn_active to drop).
            if first:
                k = sym_kind(sym)
            else:
                # wait for the first byte without consuming it
                try:
                    d = conn.recv(1, socket.MSG_PEEK)
                except (ConnectionError, socket.timeout) as ex:
                    if isinstance(ex, socket.timeout) and not self.stopping:
                        self.anomalies.append("kept connection idle for %.0f s" % HANG)
                    return
                if not d:
                    return
                with self.cv:
                    k = sym_kind(self._peek())
            req = self._read_request(conn, leave_last_byte=(k == "T" and self.kind == "unix"))
            if req is None:
                return
            if not first:
                with self.cv:
                    if k == "R":
                        self.log.append({"ev": "drop-for-refuse", "idx": None, "sym": self._peek(), "tok": req[0], "call": None})
                        return                      # not consumed
                    sym = self._take()
            with self.cv:
                my_idx = self.idx - 1
            first = False
            tok, rid = req
            if late is not None:
                self._send(conn, late)
                late = None
            self.log.append({"ev": "exchange", "idx": my_idx, "sym": sym, "tok": tok, "call": None})
            st = sym_status(sym)
            reply = json.dumps({"jsonrpc": "2.0", "result": tok, "id": rid}).encode("utf-8")
            if k == "H":
                self._send(conn, self._response(200, reply))
            elif k == "C":
                self._send(conn, self._response(200, reply))
                return
            elif k == "X":
                return
            elif k == "T":
                if self.kind == "tcp":
                    conn.setsockopt(socket.SOL_SOCKET, socket.SO_LINGER, struct.pack("ii", 1, 0))
                return
            elif k == "L":
                # error pages are not JSON and need not be UTF-8 (Latin-1 text, a compressed page) nor non-empty
                self._send(conn, self._response(st, L_BODIES.get(st, b"busy!")))
            elif k == "N":
                self._send(conn, self._response(st, b"server error, no length", with_length=False))
                return
            elif k == "B":
                self._send(conn, self._response(st, None, with_length=False))
                if 100 < st < 200:
                    late = self._response(200, reply)
            elif k == "U":
                full = self._response(200, reply)
                cut = len(full) - (len(reply) + 1) // 2
                self._send(conn, full[:cut])
                return
            elif k == "Z":
                self._send(conn, self._response(200, b""))
            elif k == "J":
                self._send(conn, self._response(200, b"<html><body>not json</body></html>"))
            else:
                raise ValueError("unknown symbol %r" % (sym,))

    # ------------------------------------------------------------ control
    def abort(self):
        """Unblocks a hung client: closes every socket of the peer."""
        c = self.cur
        if c is not None:
            try:
                c.shutdown(socket.SHUT_RDWR)
            except Exception:
                pass

    def abort_all(self):
        """watchdog: also stops listening, so that a client blocked in connect() is released"""
        self.abort()
        lst = self.listener
        if lst is not None:
            try:
                lst.close()
            except Exception:
                pass

    def stop(self):
        with self.cv:
            self.stopping = True
            self.cv.notify_all()
        if self in _peers:
            _peers.remove(self)
        self.abort()
        with self.cv:
            self._close_listener()
        self.thread.join(HANG)
        if self.holder is not None:
            self.holder.close()
        if self.kind == "unix" and os.path.exists(self.path):
            os.unlink(self.path)
