"""Shared by C09, C10, C11: program generator, the lock-step correspondence stream, and the
implementation-side oracles (each written from its property statement; none consults the model)."""
import json

from harness.core import pipeline, env
from harness.sched import RandomPolicy, PCT, Replay, DONE
from .runner import PoolRun, AlignmentError

TRUSTED = [
    "controlled scheduler harness/sched (cooperative threading/queue shims, conformance-tested against the real classes by harness.sched.selftest); "
    "library objects (queue.Queue, threading.Event/RLock/Condition/Thread) are atomic operations with their documented blocking/timeout behaviour",
    "granularity: one step = one source line touching shared state or one synchronisation operation (statement table in harness/pool_support/runner.py, fail-closed); "
    "pre-emption inside a source line is not explored (CPython switches at bytecode boundaries; the properties name line granularity)",
    "model scope: unbounded queue, thread creation succeeds, start()/stop() issued by one controlling thread; bounded queues are explored on the implementation only (oracle)",
]
ASSUMPTIONS = ["task bodies terminate unless blocked on a gate that some other accepted task or client opens",
               "timeouts expire only at quiescent moments (no thread enabled), as the properties state"]

ANCHOR_RANGES = [("jsonrpclib/threadpool.py", 298, 525)]


# ---------------------------------------------------------------------------------- programs

def gen_program(rng, bounded=False):
    mx = rng.choice([1, 1, 2, 2, 3])
    mn = rng.randint(0, mx)
    nclients = rng.choice([1, 2, 2, 3])
    gates = 0
    dep = None
    if mx >= 2 and not bounded and rng.random() < 0.45:
        # one group of mutually dependent tasks, no larger than max_threads
        k = rng.randint(2, mx)
        gates = k - 1
        dep = [("wait", 0)] + [("waitopen", g + 1, g) for g in range(k - 2)] + [("open", k - 2)]
        if k == 2:
            dep = [("wait", 0), ("open", 0)]
        if rng.random() < 0.5:
            dep.reverse()

    def simple_kind():
        return rng.choice([("ret",), ("ret",), ("raise",)])

    clients = []
    # controller
    ops = []
    for _ in range(rng.choice([0, 0, 1, 2])):
        ops.append(("enq", simple_kind()))            # before the first start
    ops.append(("start",))
    running = True
    n_enq = sum(1 for o in ops if o[0] == "enq")
    body_len = rng.randint(1, 6)
    dep_left = list(dep) if dep else []
    for _ in range(body_len):
        r = rng.random()
        if running:
            if dep_left and r < 0.5:
                ops.append(("enq", dep_left.pop(0)))
                n_enq += 1
            elif r < 0.45:
                ops.append(("enq", simple_kind()))
                n_enq += 1
            elif r < 0.6 and not dep_left:
                ops.append(("join", rng.random() < 0.4))
            elif r < 0.72 and n_enq and not dep_left:
                # an untimed wait is only safe when no stop() can have dropped the task
                ops.append(("await", rng.randrange(n_enq), True if any(o[0] == "stop" for o in ops) else rng.random() < 0.3))
            elif r < 0.8:
                ops.append(("start",))                # redundant
            else:
                if not dep_left:
                    if dep and ("join", False) not in ops[-1:]:
                        ops.append(("join", False))   # the dependent group must have finished before stop()
                    ops.append(("stop",))
                    running = False
        else:
            if r < 0.3:
                ops.append(("enq", simple_kind()))
                n_enq += 1
            elif r < 0.45:
                ops.append(("stop",))                 # redundant
            else:
                ops.append(("start",))
                running = True
    while dep_left and running:
        ops.append(("enq", dep_left.pop(0)))
        n_enq += 1
    if running and (dep or rng.random() < 0.7):
        ops.append(("join", False))
    if rng.random() < 0.6:
        if not running:
            pass
        else:
            ops.append(("stop",))
    clients.append(ops)
    for ci in range(1, nclients):
        ops = []
        n = 0
        for _ in range(rng.randint(1, 3)):
            r = rng.random()
            if r < 0.6:
                ops.append(("enq", simple_kind()))
                n += 1
            elif r < 0.8:
                ops.append(("join", True))
            elif n:
                ops.append(("await", rng.randrange(n), True))
        clients.append(ops)
    return {"max": mx, "min": mn, "qsize": (1 if bounded else 0), "gates": gates, "clients": clients}


CORPUS = [
    # F5: two dependent tasks, max_threads=2: the waiter must not stall the opener (needs the retirement race)
    {"max": 2, "min": 0, "qsize": 0, "gates": 1,
     "clients": [[("start",), ("enq", ("ret",)), ("enq", ("wait", 0)), ("enq", ("open", 0)), ("join", False), ("stop",)]]},
    # F6: join() while a taken task is still running
    {"max": 1, "min": 1, "qsize": 0, "gates": 1,
     "clients": [[("start",), ("enq", ("wait", 0)), ("join", True), ("open", 0), ("join", False), ("stop",)]]},
    {"max": 2, "min": 1, "qsize": 0, "gates": 0,
     "clients": [[("enq", ("ret",)), ("enq", ("ret",)), ("enq", ("ret",)), ("start",), ("join", False), ("stop",), ("enq", ("ret",)), ("start",), ("join", False), ("stop",)],
                 [("enq", ("raise",)), ("join", True)]]},
    # stop() while a task may still be running, then a restart without permanent workers: the task enqueued
    # after the restart must still find (or get) a worker -- the counters must survive the stop/clear cycle
    {"max": 1, "min": 0, "qsize": 0, "gates": 0,
     "clients": [[("start",), ("enq", ("ret",)), ("stop",), ("start",), ("enq", ("ret",)), ("await", 1, True), ("stop",)]]},
    {"max": 2, "min": 0, "qsize": 0, "gates": 0,
     "clients": [[("start",), ("enq", ("ret",)), ("enq", ("raise",)), ("stop",), ("start",), ("enq", ("ret",)), ("await", 2, True),
                  ("join", True), ("stop",)]]},
    # a kept-alive worker that has run a task and then sees its idle time-out expire (the client idles): nothing runs again
    {"max": 1, "min": 1, "qsize": 0, "gates": 0,
     "clients": [[("start",), ("enq", ("ret",)), ("await", 0, True), ("idle",), ("idle",), ("enq", ("ret",)), ("await", 1, True),
                  ("idle",), ("join", False), ("stop",)]]},
    {"max": 2, "min": 2, "qsize": 0, "gates": 0,
     "clients": [[("start",), ("enq", ("raise",)), ("enq", ("ret",)), ("join", False), ("idle",), ("idle",), ("idle",), ("join", False), ("stop",)]]},
    # stop() while a worker is busy (its stop marker stays in the queue for clear()), restart, then two dependent tasks:
    # the counters must come out of the cycle such that the second task still gets its worker
    {"max": 2, "min": 1, "qsize": 0, "gates": 2,
     "clients": [[("start",), ("enq", ("wait", 0)), ("stop",), ("start",), ("enq", ("wait", 1)), ("enq", ("open", 1)), ("join", False), ("stop",)],
                 [("open", 0)]]},
]


def valid_program(p):
    """The API discipline the generator obeys (shrinking must not leave it): untimed join()/result()
    only on a running pool, an untimed result() only if no stop() can have dropped the task, other
    clients use timed waits only, and a dependent group is complete, no larger than max_threads
    and not interrupted by join()/stop()."""
    waits, opens = set(), set()
    group_pos = []
    for ci, ops in enumerate(p["clients"]):
        running, stopped_before = False, False
        for k, o in enumerate(ops):
            if o[0] in ("start", "stop") and ci != 0:
                return False
            if o[0] == "start":
                running = True
            elif o[0] == "stop":
                running, stopped_before = False, True
            elif o[0] == "join" and not o[1] and (ci != 0 or not running):
                return False
            elif o[0] == "await" and not o[2] and (ci != 0 or not running or stopped_before):
                return False
            elif o[0] == "open":
                opens.add(o[1])
                group_pos.append((ci, k))
            elif o[0] == "enq" and o[1][0] != "ret" and o[1][0] != "raise":
                if ci != 0 or not running:
                    return False
                kd = o[1]
                if kd[0] in ("wait", "waitopen"):
                    waits.add(kd[1])
                if kd[0] == "open":
                    opens.add(kd[1])
                if kd[0] == "waitopen":
                    opens.add(kd[2])
                group_pos.append((ci, k))
    if waits - opens:
        return False
    n_group = sum(1 for ops in p["clients"] for o in ops if o[0] == "enq" and o[1][0] not in ("ret", "raise"))
    if n_group > p["max"]:
        return False
    ks = [k for (ci, k) in group_pos if ci == 0]
    if ks:
        ops = p["clients"][0]
        if any(o[0] == "stop" or (o[0] == "join" and not o[1]) or (o[0] == "await" and not o[2]) for o in ops[min(ks):max(ks)]):
            return False
        # the group must have finished (an untimed join) before any later stop()
        for k in range(max(ks) + 1, len(ops)):
            if ops[k][0] == "stop" and ("join", False) not in ops[max(ks) + 1:k]:
                return False
    return True


def policy_for(rng, k):
    seed = rng.randrange(1 << 30)
    if k % 3 == 2:
        return ("pct", seed, rng.randint(1, 3))
    return ("random", seed)


class FairAtQuiescence(object):
    """At a quiescent moment (only timeouts can fire) let a client's timed wait expire with
    probability 0.7, so that a priority-based policy cannot starve the clients by firing the
    workers' idle time-outs for ever.  Every choice is still drawn from one seeded PRNG."""

    def __init__(self, inner, seed):
        import random
        self.inner = inner
        self.rng = random.Random(seed)

    def choose(self, ctl, options):
        if options and all(o.fire for o in options):
            # a timed Queue.put is pending inside enqueue() (bounded queue, pool lock held): its expiry is
            # what lets the pool go on, so a client's result()/join() time-out expiring first would say
            # nothing about the pool ("is executed once the pool is running" is about eventual execution).
            # The pool's own timed put therefore expires before any client's wait.
            puts = [i for i, o in enumerate(options) if o.label.startswith("Queue.put")]
            if puts:
                return self.rng.choice(puts)
            # a client that just idles lets the workers' idle time-outs expire first (most of the time)
            idle = [i for i, o in enumerate(options) if "idle" in o.label]
            others = [i for i, o in enumerate(options) if i not in idle and not o.name.startswith("c")]
            if idle and others and self.rng.random() < 0.85:
                return self.rng.choice(others)
            cl = [i for i, o in enumerate(options) if o.name.startswith("c")]
            if cl and self.rng.random() < 0.7:
                return self.rng.choice(cl)
        return self.inner.choose(ctl, options)


def make_policy(desc):
    if desc[0] == "pct":
        return FairAtQuiescence(PCT(desc[1], desc[2], 150), desc[1])
    if desc[0] == "replay":
        return Replay(desc[1])
    return FairAtQuiescence(RandomPolicy(desc[1]), desc[1])


# ---------------------------------------------------------------------------------- encoding

def g_thr(t):
    return "(T%s %d%%nat)" % (t[0], t[1])


def g_item(x):
    return "ISent" if x == "S" else "(ITask %d%%nat)" % x


def g_snap(s):
    lock = "None" if s["lock"] is None else "(Some (%s, %d%%nat))" % (g_thr(s["lock"][0]), s["lock"][1])
    qm = "None" if s["qmutex"] is None else "(Some %d%%nat)" % s["qmutex"]
    return "(%s, [%s], %d, %s, [%s]%%nat, (%d, %d, %d), %s, [%s]%%nat, [%s])" % (
        "true" if s["stopped"] else "false", "; ".join(g_item(x) for x in s["q"]), s["unfinished"], lock,
        "; ".join(str(x) for x in s["threads"]), s["nb_threads"], s["nb_active"], s["nb_pending"], qm,
        "; ".join(str(x) for x in s["starts"]), "; ".join("true" if x else "false" for x in s["done"]))


def g_op(op):
    if op[0] == "start":
        return "OStart"
    if op[0] == "stop":
        return "OStop"
    if op[0] == "enq":
        return "OEnqueue"
    if op[0] == "join":
        return "(OJoin %s)" % ("true" if op[1] else "false")
    return None     # await / open: not pool operations (their yield points are SKIPs)


def g_case(program, steps):
    progs = "[%s]" % "; ".join("[%s]" % "; ".join(x for x in (g_op(o) for o in ops) if x) for ops in program["clients"])
    st = "[%s]" % ";\n ".join("(%s, %s, %s)" % (g_thr(t), "true" if f else "false", g_snap(sn)) for (t, f, sn, _) in steps)
    return "(%d, %d, %s,\n %s)" % (program["max"], program["min"], progs, st)


# ---------------------------------------------------------------------------------- analysis

class Obs(object):
    """What one controlled run showed."""

    def __init__(self, run, res):
        self.status = res.status
        self.errors = [(n, repr(e)) for n, e in res.errors]
        self.blocked = list(res.blocked)
        self.events = list(res.events)
        self.trace = list(res.trace)
        self.schedule = list(res.schedule)
        self.steps = run.steps
        self.skips = run.skips
        self.align_error = run.align_error
        self.aborted = getattr(run, "aborted", False)
        self.ntasks = len(run.tasks)
        self.task_kinds = [t["kind"] for t in run.tasks]
        self.begins = [t["begins"] for t in run.tasks]
        self.ends = [t["ends"] for t in run.tasks]
        # identity of the stored outcome, checked after the run (shim operations outside a run are immediate)
        self.outcome_ok = []
        for t in run.tasks:
            fut = t["future"]
            ok = None
            if not fut.done():
                ok = None if True else None
                self.outcome_ok.append(None)
                continue
            if not t["ends"]:
                self.outcome_ok.append(False)       # done although the body has not finished
                continue
            if t["ends"]:
                try:
                    v = fut.result(0)
                    ok = (t["outcome"]["exc"] is None and v is t["outcome"]["obj"] and fut.done())
                except OSError:
                    ok = False
                except Exception as ex:       # noqa
                    ok = (ex is t["outcome"]["exc"] and fut.done())
            else:
                ok = not fut.done()
            self.outcome_ok.append(ok)
        self.pool_threads_alive_at_end = [n for (n, lab) in res.blocked if n.startswith("pool-")]


def run_program(case, repo=None, snapshots=True):
    run = PoolRun(case["program"], make_policy(case["policy"]), fire="quiescent", repo=repo or env.REPO, snapshots=snapshots)
    try:
        res = run.run()
    except AlignmentError as ex:           # raised outside a controlled thread
        run.align_error = str(ex)
        run.aborted = True
        res = run.result if hasattr(run, "result") else None
        if res is None:
            raise
    return Obs(run, res)


# ---- helpers over the event log

def lifecycle_intervals(events):
    """[(kind, call_step, ret_step)] for start/stop calls of the controlling thread"""
    out, open_ = [], {}
    for (i, th, ev) in events:
        if ev[0] in ("start-call", "stop-call"):
            open_[ev[0][:-5]] = i
        elif ev[0] in ("start-ret", "stop-ret"):
            k = ev[0][:-4]
            out.append((k, open_.pop(k, i), i))
    for k, i in open_.items():
        out.append((k, i, None))
    return sorted(out, key=lambda x: x[1])


def oracle_c09(case, o):
    prog = case["program"]
    if o.errors:
        return ("C09:client-exception", "uncaught exception in a controlled thread: %s" % (o.errors[:2],))
    for t, b in enumerate(o.begins):
        if b > 1:
            return ("C09:task-ran-twice", "task %d began %d times" % (t, b))
    for t, ok in enumerate(o.outcome_ok):
        if ok is False:
            return ("C09:future-not-faithful", "future of task %d does not hold the very object/exception of its body (or is done without a finished body)" % t)
    for (i, th, ev) in o.events:
        if ev[0] == "result" and ev[3] in ("value", "raise") and ev[4] is not True:
            return ("C09:result-not-identical", "result() of task %d is not the object the task produced" % ev[2])
        if ev[0] == "task-args":
            return ("C09:task-arguments", "task %d was called with %s, enqueue() was given %s" % (ev[1], ev[2], ev[3]))
    # no task starts after stop() returned, until start() is called again
    stopped_since = None
    for (i, th, ev) in o.events:
        if ev[0] == "stop-ret":
            stopped_since = i
        elif ev[0] == "start-call":
            stopped_since = None
        elif ev[0] == "begin" and stopped_since is not None:
            return ("C09:ran-after-stop", "task %d began at step %d, after stop() returned at step %d" % (ev[1], i, stopped_since))
    if prog["max"] == 1:
        order = [ev[1] for (i, th, ev) in o.events if ev[0] == "begin"]
        if order != sorted(order):
            return ("C09:fifo-single-worker", "single worker started tasks in order %s" % order)
    # a covered task that cannot complete: under quiescent firing a result() timeout means nothing else could run
    iv = lifecycle_intervals(o.events)
    for (i, th, ev) in o.events:
        if ev[0] == "result" and ev[3] == "timeout":
            tid = ev[2]
            enq = [e2[3] for (j, th2, e2) in o.events if e2[0] == "enq-ret" and e2[2] == tid]
            enq = enq[0] if enq else 0
            # covered: no stop() overlaps [enqueue call, now], and the pool has been started before now
            stop_overlap = any(k == "stop" and c <= i and (r is None or r >= enq) for (k, c, r) in iv)
            started = any(k == "start" and r is not None and r <= i for (k, c, r) in iv)
            last = [k for (k, c, r) in iv if r is not None and r <= i]
            if started and not stop_overlap and last and last[-1] == "start" and o.task_kinds[tid][0] in ("ret", "raise"):
                return ("C09:accepted-task-never-ran", "result() of task %d timed out at a quiescent moment while the pool was running" % tid)
    if o.status != DONE and not o.aborted:
        waiting_gate = any("gate" in lab for (_, lab) in o.blocked)
        if not waiting_gate and not any(n == "c0" and ("Thread.join" in lab or "Queue.join" in lab) for (n, lab) in o.blocked):
            return ("C09:run-did-not-finish", "status %s, blocked %s" % (o.status, o.blocked[:4]))
    return None


def serving_intervals(o):
    """per worker: (step at which it was started, step from which it will take no further task).
    A worker stops serving at the retirement decision that is followed by its own decrement
    (the last L:WTest before its L:WNbDec), or when its thread ends."""
    start, end = {}, {}
    last_test, last_step = {}, {}
    for i, (name, lab) in enumerate(o.trace):
        if lab.startswith("Thread.start:pool-"):
            start[lab.split(":")[1]] = i
        if name.startswith("pool-"):
            last_step[name] = i
            if lab == "L:WTest":
                last_test[name] = i
            elif lab == "L:WNbDec" and name not in end:
                end[name] = last_test.get(name, i)
    alive = set(o.pool_threads_alive_at_end)
    for w in start:
        if w not in end:
            end[w] = len(o.trace) + 1 if w in alive else last_step.get(w, start[w])
    return start, end


def oracle_c10(case, o):
    prog = case["program"]
    mx, mn = prog["max"], prog["min"]
    # tasks inside their body, per step
    delta = {}
    for (i, th, ev) in o.events:
        if ev[0] == "begin":
            delta[i] = delta.get(i, 0) + 1
        elif ev[0] == "end":
            delta[i + 0.5] = delta.get(i + 0.5, 0) - 1
    cur = 0
    for k in sorted(delta):
        cur += delta[k]
        if cur > mx:
            return ("C10:more-bodies-than-max", "%d task bodies running at step %s with max_threads=%d" % (cur, k, mx))
    start, last = serving_intervals(o)
    n = len(o.trace)
    serving = [0] * (n + 2)
    for w, s in start.items():
        e = last.get(w, s - 1)
        for i in range(s + 1, min(e, n + 1)):
            serving[i] += 1
    for i in range(n + 1):
        if serving[i] > mx:
            return ("C10:more-serving-workers-than-max", "%d workers still to read the queue at step %d with max_threads=%d" % (serving[i], i, mx))
    # at least min_threads from the return of start() until stop() is called
    iv = lifecycle_intervals(o.events)
    for idx, (k, call, ret) in enumerate(iv):
        if k == "start" and ret is not None:
            nxt = [c for (k2, c, r2) in iv[idx + 1:] if k2 == "stop"]
            # a redundant start() (pool already running) proves nothing new but the bound still holds
            end = nxt[0] if nxt else n
            was_stopped_before = True
            for i in range(ret, end + 1):
                if i <= n and serving[i] < mn:
                    return ("C10:fewer-serving-workers-than-min", "%d workers serve the queue at step %d (start() returned at %d, next stop() at %s), min_threads=%d" % (serving[i], i, ret, nxt[:1], mx and mn))
    if o.status != DONE and not o.aborted:
        if any("gate" in lab for (_, lab) in o.blocked):
            return ("C10:dependent-tasks-stalled", "status %s: a task waits on a gate whose opener is accepted but not started; blocked %s" % (o.status, o.blocked[:5]))
    return None


def oracle_c11(case, o):
    if o.errors:
        return ("C11:client-exception", "uncaught exception in a controlled thread: %s" % (o.errors[:2],))
    ended_at = {}
    for (i, th, ev) in o.events:
        if ev[0] == "end":
            ended_at[ev[1]] = i
    stops = [(c, r) for (k, c, r) in lifecycle_intervals(o.events) if k == "stop"]
    open_join = {}
    for (i, th, ev) in o.events:
        if ev[0] == "join-call":
            open_join[ev[1]] = (i, ev[2])
        elif ev[0] == "join-ret":
            call, nput = open_join.pop(ev[1], (i, 0))
            r, timed = ev[2], ev[3]
            overlapped_stop = any(c <= i and (rr is None or rr >= call) for (c, rr) in stops)
            if r is True and not overlapped_stop:
                late = [t for t in range(nput) if ended_at.get(t, 1 << 60) > i and not any(c <= i for (c, _) in stops if c >= 0 and o.begins[t] == 0)]
                late = [t for t in late if not (o.begins[t] == 0 and any(c <= i for (c, _) in stops))]
                if late:
                    return ("C11:join-true-before-finished", "join() called at step %d returned True at step %d while tasks %s enqueued before the call had not finished" % (call, i, late))
            if r is False and not timed:
                return ("C11:untimed-join-false", "join() without timeout returned False")
    # stop() always returns
    for (k, c, r) in lifecycle_intervals(o.events):
        if k == "stop" and r is None and not o.aborted:
            gate = any("gate" in lab for (_, lab) in o.blocked)
            if not gate:
                return ("C11:stop-does-not-return", "stop() called at step %d never returned: status %s, blocked %s" % (c, o.status, o.blocked[:5]))
    # after stop() returned: no task starts (until restart) and every worker terminates on its own
    stopped_since = None
    for (i, th, ev) in o.events:
        if ev[0] == "stop-ret":
            stopped_since = i
        elif ev[0] == "start-call":
            stopped_since = None
        elif ev[0] == "begin" and stopped_since is not None:
            return ("C11:task-started-after-stop", "task %d began at step %d after stop() returned at %d" % (ev[1], i, stopped_since))
    if stopped_since is not None and o.status == DONE and o.pool_threads_alive_at_end:
        return ("C11:worker-survives-stop", "workers %s still alive at the end of the run, after stop() returned" % o.pool_threads_alive_at_end)
    # idempotence: a redundant start()/stop() performs one read of the stop flag and nothing else
    state = "stopped"
    steps_by_c0 = [i for i, (name, lab) in enumerate(o.trace) if name == "c0"]
    for (k, c, r) in lifecycle_intervals(o.events):
        if r is None:
            continue
        redundant = (k == "start" and state == "running") or (k == "stop" and state == "stopped")
        if redundant:
            inside = [i for i in steps_by_c0 if c <= i < r]
            labs = [o.trace[i][1] for i in inside]
            if labs != ["Event.is_set:stop"]:
                return ("C11:redundant-%s-not-a-noop" % k, "redundant %s() performed %s" % (k, labs[:6]))
        state = "running" if k == "start" else "stopped"
    if o.status != DONE and not o.aborted and not any("gate" in lab for (_, lab) in o.blocked):
        return ("C11:run-did-not-finish", "status %s, blocked %s" % (o.status, o.blocked[:4]))
    return None


# ---------------------------------------------------------------------------------- stream

class PoolStream(pipeline.Stream):
    name = "lockstep"
    model_imports = "PoolObs"
    case_type = "pool_case"
    check_fn = "pool_check"
    shard = 40
    oracle_fn = None
    bounded = False
    n_quick = 400
    n_thorough = 6000

    def gen(self, tier, rng):
        cases = []
        n = self.n_quick if tier == "quick" else self.n_thorough
        for k, p in enumerate(CORPUS):
            for j in range(6 if tier == "quick" else 40):
                cases.append({"program": p, "policy": policy_for(rng, j)})
        for k in range(n):
            cases.append({"program": gen_program(rng, self.bounded), "policy": policy_for(rng, k)})
        return cases

    def run_impl(self, case):
        return run_program(case)

    def oracle(self, case, o):
        return type(self).oracle_fn(case, o)

    def encode(self, case, o):
        if self.bounded:
            return None
        if o.align_error:
            # fail closed: the structure of the code changed; the model cannot be compared
            return "(0, 0, [], [(TC 0%nat, false, (false, [], 0, None, []%nat, (0,0,0), None, []%nat, []))])"
        return g_case(case["program"], o.steps)

    def nontrivial(self, case, o):
        return o.ntasks >= 1 and len(o.steps) >= 20

    def kind(self, case, o):
        p = case["program"]
        return "max=%d min=%d clients=%d gates=%d %s -> %s" % (p["max"], p["min"], len(p["clients"]), p.get("gates", 0), case["policy"][0], o.status)

    def describe(self, case, o):
        return {"program": case["program"], "policy": list(case["policy"]), "status": o.status, "steps": len(o.trace),
                "model_steps": len(o.steps), "skips": o.skips, "begins": o.begins, "blocked": o.blocked[:6],
                "events": [list(map(str, e)) for e in o.events[:60]], "schedule": o.schedule[:400], "align_error": o.align_error}

    def to_replay(self, case):
        return json.loads(json.dumps(case))

    def from_replay(self, j):
        def tup(x):
            return tuple(tup(y) for y in x) if isinstance(x, list) else x
        p = j["program"]
        return {"program": {"max": p["max"], "min": p["min"], "qsize": p.get("qsize", 0), "gates": p.get("gates", 0),
                            "clients": [[tup(o) for o in ops] for ops in p["clients"]]},
                "policy": tup(j["policy"])}

    def shrink(self, case):
        p = case["program"]
        # drop one client, or one operation
        for ci in range(len(p["clients"]) - 1, 0, -1):
            q = dict(p, clients=p["clients"][:ci] + p["clients"][ci + 1:])
            if valid_program(q):
                yield {"program": q, "policy": case["policy"]}
        for ci, ops in enumerate(p["clients"]):
            for k in range(len(ops) - 1, -1, -1):
                if ops[k][0] in ("start",) and ci == 0 and k == [o[0] for o in ops].index("start"):
                    continue
                if p.get("gates") and (ops[k][0] in ("join", "stop", "open") or (ops[k][0] == "enq" and ops[k][1][0] not in ("ret", "raise"))):
                    continue          # keep the dependent group and its guards intact
                q = dict(p, clients=[o2 if c2 != ci else ops[:k] + ops[k + 1:] for c2, o2 in enumerate(p["clients"])])
                if valid_program(q):
                    yield {"program": q, "policy": case["policy"]}

    def widen(self, rng):
        return [{"program": gen_program(rng), "policy": policy_for(rng, k)} for k in range(1500)]


class BoundedStream(PoolStream):
    """bounded queue (queue_size=1): implementation + oracle only (outside the model's scope)"""
    name = "bounded-queue"
    bounded = True
    n_quick = 100
    n_thorough = 1000

    def gen(self, tier, rng):
        n = self.n_quick if tier == "quick" else self.n_thorough
        return [{"program": gen_program(rng, True), "policy": policy_for(rng, k)} for k in range(n)]
