"""Drives the real jsonrpclib.threadpool.ThreadPool under the controlled scheduler, at the
granularity of Model/Pool.v, and records (schedule, snapshot-after-every-step) for the
lock-step correspondence, plus the event log the property oracles read.

Alignment (DESIGN.md 2.2): every yield point of a run is classified as a step of the model
(thread, fired?) or as a SKIP (a step the pool model does not see: future internals, gates,
result waits).  Shim operations on the pool's own objects are model steps by their label;
source lines that touch shared pool state without a shim operation are made yield points by
the statement table below.  A statement of a ThreadPool method that is not in the table makes
the run fail closed (AlignmentError)."""
import os
import re

from harness.core import env
from harness.sched import Controller, Replay, RandomPolicy, PCT, DONE
from harness.sched.tracer import line_info


class AlignmentError(Exception):
    pass


LOCAL = None
# (method, normalised statement text) -> label | LOCAL ; a list gives the label per occurrence (source order)
STATEMENTS = {
    "start": {
        "if not self._done_event.is_set():": LOCAL, "return": LOCAL, "self._done_event.clear()": LOCAL,
        "nb_pending_tasks = self._queue.qsize()": LOCAL, "if nb_pending_tasks > self._max_threads:": LOCAL,
        "nb_threads = self._max_threads": LOCAL, "nb_pending_tasks = self._max_threads": LOCAL,
        "elif nb_pending_tasks < self._min_threads:": LOCAL, "nb_threads = self._min_threads": LOCAL,
        "else:": LOCAL, "nb_threads = nb_pending_tasks": LOCAL,
        "for _ in range(nb_pending_tasks):": "L:STLoopA", "self.__nb_pending_task += 1": LOCAL,
        "self.__start_thread()": LOCAL, "for _ in range(nb_threads - nb_pending_tasks):": "L:STLoopB",
    },
    "__start_thread": {
        "with self.__lock:": LOCAL, "if self.__nb_threads >= self._max_threads:": LOCAL,
        "return False": ["L:STestFail", LOCAL, LOCAL], "if self._done_event.is_set():": LOCAL,
        'name = "{0}-{1}".format(self._logger.name, self._thread_id)': LOCAL, "self._thread_id += 1": LOCAL,
        "thread = threading.Thread(target=self.__run, name=name)": LOCAL, "thread.daemon = True": LOCAL,
        "try:": LOCAL, "self.__nb_threads += 1": "L:SNbInc", "thread.start()": LOCAL,
        "self._threads.append(thread)": "L:SAppend", "return True": LOCAL,
        "except (RuntimeError, OSError):": LOCAL, "self.__nb_threads -= 1": LOCAL,
    },
    "stop": {
        "if self._done_event.is_set():": LOCAL, "return": LOCAL, "self._done_event.set()": LOCAL,
        "with self.__lock:": LOCAL, "try:": LOCAL, "for _ in self._threads:": LOCAL,
        "self._queue.put(self._done_event, True, self._timeout)": LOCAL, "except queue.Full:": LOCAL, "pass": LOCAL,
        "threads = self._threads[:]": "L:SPCopy", "for thread in threads:": LOCAL, "while thread.is_alive():": LOCAL,
        "thread.join(3)": LOCAL, "if thread.is_alive():": LOCAL, "self._logger.warning(": LOCAL,
        '"Thread %s is still alive...", thread.name': LOCAL, ")": LOCAL,
        "del self._threads[:]": "L:SPDel", "self.clear()": LOCAL,
    },
    "enqueue": {
        'if not hasattr(method, "__call__"):': LOCAL, "raise ValueError(": LOCAL,
        '"{0} has no __call__ member.".format(method.__name__)': LOCAL, ")": LOCAL,
        "future = FutureResult(self._logger)": LOCAL, "with self.__lock:": LOCAL,
        "self._queue.put((method, args, kwargs, future), True, self._timeout)": LOCAL,
        "self.__nb_pending_task += 1": "L:EPend", "if self.__nb_pending_task > self.__nb_threads:": "L:ETest",
        "self.__start_thread()": LOCAL, "return future": LOCAL,
    },
    "clear": {
        "with self.__lock:": LOCAL, "try:": LOCAL, "while True:": LOCAL, "self._queue.get_nowait()": LOCAL,
        "self._queue.task_done()": LOCAL, "except queue.Empty:": LOCAL, "pass": LOCAL, "self.join()": LOCAL,
    },
    "join": {
        "if not self._queue.unfinished_tasks:": "L:JTest", "return True": LOCAL,
        # pre-repair statement (finding F6), kept so that the oracles still run on the pinned tree
        "if self._queue.empty():": LOCAL, "elif timeout is None:": LOCAL,
        "self._queue.join()": LOCAL, "else:": LOCAL, "with self._queue.all_tasks_done:": LOCAL,
        "self._queue.all_tasks_done.wait(timeout)": LOCAL,
        "return not bool(self._queue.unfinished_tasks)": "L:JRet",
    },
    "__run": {
        "already_cleaned = False": LOCAL, "try:": LOCAL, "while not self._done_event.is_set():": LOCAL,
        "task = self._queue.get(True, self._timeout)": LOCAL, "if task is self._done_event:": LOCAL,
        "self._queue.task_done()": LOCAL, "return": LOCAL, "except queue.Empty:": LOCAL, "pass": LOCAL, "else:": LOCAL,
        "with self.__lock:": LOCAL, "self.__nb_active_threads += 1": "L:WActInc",
        "method, args, kwargs, future = task": LOCAL, "future.execute(method, args, kwargs)": LOCAL,
        "except Exception as ex:": LOCAL, "self._logger.exception(": LOCAL,
        '"Error executing %s: %s",': LOCAL, 'getattr(method, "__name__", method),': LOCAL, "ex,": LOCAL, ")": LOCAL, "finally:": LOCAL,
        "self.__nb_pending_task -= 1": "L:WPendDec", "self.__nb_active_threads -= 1": "L:WActDec",
        # the retirement test: one model step for the whole (multi-line) condition
        "if (": ("group", "L:WTest"), "self.__nb_threads > self._min_threads": ("group", "L:WTest"),
        "and self.__nb_threads > self._queue.unfinished_tasks": ("group", "L:WTest"), "):": ("group", "L:WTest"),
        # pre-repair statements (finding F5), kept so that the oracles still run on the pinned tree
        "extra_threads = self.__nb_threads - self.__nb_active_threads": LOCAL,
        "and extra_threads > self._queue.qsize()": ("group", "L:WTest"),
        "self.__nb_threads -= 1": ["L:WNbDec", LOCAL], "already_cleaned = True": LOCAL,
        "self._threads.remove(threading.current_thread())": "L:WFRemove", "except ValueError:": LOCAL,
        "if not already_cleaned:": "L:WFNbDec",
    },
}


def _occurrence_index(filename):
    """(method, lineno) -> index of this line among the lines of the method with the same text"""
    import ast
    import linecache
    from harness.sched.tracer import norm_text
    src = open(filename).read()
    tree = ast.parse(src)
    out = {}
    for cls in [n for n in tree.body if isinstance(n, ast.ClassDef) and n.name == "ThreadPool"]:
        for fn in [n for n in cls.body if isinstance(n, ast.FunctionDef)]:
            seen = {}
            for ln in range(fn.lineno, fn.end_lineno + 1):
                t = norm_text(linecache.getline(filename, ln))
                k = seen.get(t, 0)
                seen[t] = k + 1
                out[(fn.name, ln)] = k
    return out


class PoolRun(object):
    """One controlled run of a program on a fresh ThreadPool.

    program: {"max": int, "min": int, "qsize": 0, "clients": [[op, ...], ...]} with ops
      ("start",) ("stop",) ("enq", kind) ("join", timed) ("await", k, timed) ("open", g)
      kind: ("ret",) | ("raise",) | ("wait", g) | ("open", g) | ("waitopen", gw, go)
    """

    def __init__(self, program, policy, fire="quiescent", repo=None, max_steps=4000, snapshots=True):
        self.program = program
        self.policy = policy
        self.fire = fire
        self.repo = repo or env.REPO
        self.max_steps = max_steps
        self.want_snap = snapshots
        self.steps = []          # [(thr, fired, snapshot)] model steps in order
        self.skips = 0
        self.task_items = {}     # id(queue item) -> task index (put order)
        self.tasks = []          # per task: dict(cell, future, kind, begins, ends, item)
        self.align_error = None
        self._last_group = {}

    # ------------------------------------------------------------------ line hook
    def _line_hook(self, frame):
        qual, lineno, text = line_info(frame)
        if not qual.startswith("ThreadPool."):
            return None
        meth = qual.split(".", 1)[1]
        if meth == "__init__":
            return None
        table = STATEMENTS.get(meth)
        tid = id(frame)
        if table is None or text not in table:
            if not text or text.startswith(('"' * 3, "'" * 3, "#", ":param", ":return", ":raise")):
                return None
            # the structure of the code changed: the correspondence fails closed (the model cannot be
            # compared), but the run goes on -- the unknown line is a yield point of its own -- so that the
            # property oracle still judges what the code really does under this schedule
            if self.align_error is None:
                self.align_error = "unknown statement in ThreadPool.%s line %d: %r" % (meth, lineno, text)
            self._last_group[tid] = None
            return "L?%s:%d" % (meth, lineno)
        lab = table[text]
        if isinstance(lab, list):
            k = self._occ.get((meth, lineno), 0)
            lab = lab[k] if k < len(lab) else None
        if isinstance(lab, tuple):
            # grouped lines: only the first event of a run of group lines is a yield point
            if self._last_group.get(tid) == lab[1]:
                return None
            self._last_group[tid] = lab[1]
            return lab[1]
        self._last_group[tid] = None
        return lab

    # ------------------------------------------------------------------ classification
    POOL_LABEL = re.compile(
        r"^(RLock\.(acquire|release):lock|Queue\.\w+:q|Event\.(is_set|set|clear):stop|"
        r"Lock\.(acquire|release):q\.mutex|Condition\.wait\.(release|block|reacquire):q\.all_tasks_done|"
        r"Thread\.(start|join|is_alive):pool-\d+|L:\w+|task\.begin)!?$")
    FUTURE_SET = re.compile(r"^Event\.set#\d+$")

    def _thr(self, name):
        if name.startswith("pool-"):
            return ("W", int(name.split("-")[1]))
        if name.startswith("c"):
            return ("C", int(name[1:]))
        raise AlignmentError("unknown thread %r" % name)

    def _is_model_step(self, thread_name, label):
        base = label[:-1] if label.endswith("!") else label
        if self.POOL_LABEL.match(base):
            return True
        if thread_name.startswith("pool-") and self.FUTURE_SET.match(base):
            return True          # EventData's event: the future becomes done (model: WBody)
        return False

    # ------------------------------------------------------------------ snapshot
    def _snapshot(self):
        p = self.pool
        q = []
        for it in list(p._queue.queue):
            if it is p._done_event:
                q.append("S")
            else:
                q.append(self.task_items[id(it)])
        lk = p._ThreadPool__lock
        owner = None
        if lk._owner is not None:
            owner = (self._thr(lk._owner.name), lk._depth)
        mo = p._queue.mutex._owner
        return {
            "stopped": p._done_event._flag, "q": q, "unfinished": p._queue.unfinished_tasks, "lock": owner,
            "threads": [int(t.name.split("-")[1]) for t in p._threads],
            "nb_threads": p._ThreadPool__nb_threads, "nb_active": p._ThreadPool__nb_active_threads,
            "nb_pending": p._ThreadPool__nb_pending_task,
            "qmutex": (self._thr(mo.name)[1] if mo is not None else None),
            "starts": [t["begins"] for t in self.tasks],
            "done": [bool(getattr(getattr(t["future"]._done_event, "_EventData__event", None), "_flag", False)) for t in self.tasks],
        }

    def _scan_queue(self):
        p = self.pool
        # new queue items get their task index in put order
        for it in list(p._queue.queue):
            if it is not p._done_event and id(it) not in self.task_items:
                idx = len(self.tasks)
                self.task_items[id(it)] = idx
                method, args, kwargs, future = it
                method.cell["tid"] = idx
                self.tasks.append({"cell": method.cell, "future": future, "kind": method.kind, "begins": 0, "ends": 0,
                                   "item": it, "outcome": method.outcome})

    def _on_step(self, ctl, cthread, label, fired):
        self._scan_queue()
        lab = label + ("!" if fired and not label.endswith("!") else "")
        if self._is_model_step(cthread.name, lab):
            self.steps.append((self._thr(cthread.name), bool(fired), self._snapshot() if self.want_snap else None, lab))
        else:
            self.skips += 1

    # ------------------------------------------------------------------ the program
    def _make_task(self, kind):
        ctl, run = self.ctl, self
        outcome = {"obj": object(), "exc": None}
        if kind[0] == "raise":
            outcome["exc"] = ValueError("task failure %d" % id(outcome))

        cellref = {}

        def body(*a, **k):
            ctl.yield_point("task.begin")
            tid = cellref["cell"]["tid"]
            run.tasks[tid]["begins"] += 1
            ctl.record(("begin", tid))
            want = cellref["cell"].get("args", ((), {}))
            if (tuple(a), dict(k)) != (tuple(want[0]), dict(want[1])) or any(x is not y for x, y in zip(a, want[0])):
                ctl.record(("task-args", tid, repr((a, k))[:200], repr(want)[:200]))
            if kind[0] in ("wait", "waitopen"):
                run.gates[kind[1]].wait()
            if kind[0] == "open":
                run.gates[kind[1]].set()
            if kind[0] == "waitopen":
                run.gates[kind[2]].set()
            run.tasks[tid]["ends"] += 1
            ctl.record(("end", tid))
            if outcome["exc"] is not None:
                raise outcome["exc"]
            return outcome["obj"]
        body.__name__ = "task"
        if kind[0] == "raise":
            # a raising task is handed over as a callable WITHOUT __name__ (functools.partial): enqueue() accepts
            # anything with __call__, and the worker's error handler must cope with it (finding F17)
            import functools
            body = functools.partial(body)
        body.cell = {"tid": None}
        cellref["cell"] = body.cell
        body.kind = kind
        body.outcome = outcome
        return body

    def _client(self, ci, ops):
        ctl, pool = self.ctl, self.pool
        mine = []

        def run():
            for op in ops:
                if op[0] == "start":
                    ctl.record(("start-call", ci))
                    pool.start()
                    ctl.record(("start-ret", ci))
                elif op[0] == "stop":
                    ctl.record(("stop-call", ci))
                    pool.stop()
                    ctl.record(("stop-ret", ci))
                elif op[0] == "enq":
                    body = self._make_task(op[1])
                    enq_call = ctl.step_index
                    # every other task is enqueued with arguments, among them keyword names a pool could be tempted to
                    # interpret (callback, extra, timeout): the task must receive exactly what was given
                    self._n_enq = getattr(self, "_n_enq", 0) + 1
                    if self._n_enq % 2 == 0:
                        marker = object()
                        body.cell["args"] = ((marker, self._n_enq), {"callback": marker, "extra": ("x", self._n_enq), "timeout": 0, "k": None})
                    a, k = body.cell.get("args", ((), {}))
                    try:
                        fut = pool.enqueue(body, *a, **k)
                    except self.mod.queue.Full:
                        ctl.record(("enq-full", ci))
                        continue
                    mine.append(body)
                    if body.cell["tid"] is None:
                        # (a pool whose enqueue() returns in the very step of its put: nobody else ran since)
                        self._scan_queue()
                    ctl.record(("enq-ret", ci, body.cell["tid"], enq_call))
                elif op[0] == "join":
                    ctl.record(("join-call", ci, len(self.tasks)))
                    r = pool.join(5.0 if op[1] else None)
                    ctl.record(("join-ret", ci, r, op[1]))
                elif op[0] == "await":
                    if op[1] < len(mine):
                        tid = mine[op[1]].cell["tid"]
                        fut = self.tasks[tid]["future"]
                        try:
                            v = fut.result(5.0 if op[2] else None)
                            ctl.record(("result", ci, tid, "value", v is mine[op[1]].outcome["obj"]))
                        except OSError:
                            ctl.record(("result", ci, tid, "timeout", fut.done()))
                        except Exception as ex:     # noqa
                            ctl.record(("result", ci, tid, "raise", ex is mine[op[1]].outcome["exc"]))
                elif op[0] == "open":
                    self.gates[op[1]].set()
                elif op[0] == "idle":
                    # the client does nothing for a while (a timed wait on an event nobody sets): at such a quiescent moment the
                    # idle time-outs of the workers expire
                    ctl.name(ctl.threading.Event(), "idle").wait(5.0)
        return run

    def run(self):
        prog = self.program
        self.ctl = ctl = Controller(policy=self.policy, fire=self.fire, max_steps=self.max_steps,
                                    line_hook=self._line_hook, on_step=self._on_step)
        self.mod = mod = ctl.load("jsonrpclib/threadpool.py", repo=self.repo)
        self._occ = _occurrence_index(mod.__file__)
        self.pool = pool = mod.ThreadPool(prog["max"], prog["min"], prog.get("qsize", 0), 60, "pool")
        ctl.name(pool._done_event, "stop")
        ctl.name(pool._ThreadPool__lock, "lock")
        q = pool._queue
        q._sname, q.mutex._sname, q.all_tasks_done._sname = ":q", ":q.mutex", ":q.all_tasks_done"
        q.not_empty._sname, q.not_full._sname = ":q.not_empty", ":q.not_full"
        self.gates = {}
        for g in range(prog.get("gates", 0)):
            self.gates[g] = ctl.name(ctl.threading.Event(), "gate%d" % g)
        for ci, ops in enumerate(prog["clients"]):
            ctl.spawn("c%d" % ci, self._client(ci, ops))
        self.result = res = ctl.run()
        return res
