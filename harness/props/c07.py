"""C07 -- objects survive dump/load wherever they occur, for every supported class shape."""
import json

from harness.core import pipeline, gallina as G, values as V
from harness.jsonclass_support import world as W, worldgen as WG

from harness.jsonclass_support import anchors

PROP_ID = "C07"
MANIFEST_ENTRY = {
    "text": ("Theorem by nested induction over all object graphs (Coq, closed under the global context): for every class table and "
             "every supported value (attribute-dict, slotted, inherited, serialize-method classes with list or dict constructor "
             "arguments, enum members, Decimals; at any depth of lists/tuples/sets/dicts, also inside containers held by fields of "
             "other objects; module-qualified or reachable only through Config.classes) load(dump(v)) = norm v in a Gallina model of "
             "jsonclass.dump/load with an explicit class table; plus the composition with the use_jsonclass gates of jsonrpc.dump/load. "
             "The model is checked against the real code on generated class worlds (real classes built with type() in synthetic "
             "modules / __main__) directly and through a ServerProxy <-> dispatcher exchange in both protocol versions, on every run."),
    "note": ("the Python attribute protocol (__dict__, __slots__, name mangling, setattr), inspect.getmodule, __import__ and the "
             "generated constructors / serialisation methods are written into the class table (modelled, not verified); the JSON text "
             "round trip on the RPC path is the codec hypothesis (identity on JSON values); enum members derived from a primitive, "
             "beans held directly in a field, and ignore lists are outside C07's domain (C20)."),
    "technique": "Coq proof over a hand-written executable model + differential correspondence check (vm_compute) + property oracle",
    "design_ref": "DESIGN.md 4/C07",
}
ANCHOR_RANGES = anchors.func_ranges([("jsonrpclib/jsonclass.py", "_slots_finder"), ("jsonrpclib/jsonclass.py", "_find_fields"), ("jsonrpclib/jsonclass.py", "dump"), ("jsonrpclib/jsonclass.py", "load"), ("jsonrpclib/jsonrpc.py", "load")])
RULE = ("generated class worlds (8 classes each over 3 synthetic modules and __main__: __dict__ / tuple __slots__ / serialize-method "
        "classes with list or dict constructor arguments, 0-5 fields with public, protected and name-mangled names, inheritance depth "
        "0-3, constructor defaults, two enums, Decimal) x supported object graphs of depth <= 4 (beans in lists, tuples, dict values, "
        "inside containers held by fields of other beans; sets of primitives) x direct dump/load and ServerProxy<->dispatcher exchange "
        "as parameter and as result under both protocol versions. Non-trivial: the graph contains an instance, enum member or Decimal. "
        "Distinct by canonical hash of (world, value).")
TRUSTED = ["modelled, not verified: attribute protocol of the generated classes, name mangling, inspect.getmodule, __import__ of synthetic "
           "modules, enum lookup by value, Decimal(str)", "loopback transport object standing for the network on the RPC path",
           "JSON text round trip = identity on JSON values (codec hypothesis, exercised on every RPC case)"]
ASSUMPTIONS = ["field values: primitives and containers; beans occur inside containers, not directly in a field (DESIGN 4/C07 reading)",
               "constructor arguments and attributes returned by a serialisation method are JSON values",
               "instances carry at least the attributes their constructor assigns, all slots assigned",
               "no serialize handlers, no ignore lists (C20)"]


def has_object(v):
    return W.dv_has(v, lambda x: isinstance(x, (W.Inst, W.Dec, W.EnumV)))


def outcome(fn):
    try:
        return ("ok", fn())
    except Exception as ex:      # noqa
        return ("raise", ex)


def d_outcome(o):
    return {"value": W.dv_to_json(o[1])} if o[0] == "ok" else {"raised": type(o[1]).__name__, "text": str(o[1])[:200]}


class WorldStream(pipeline.Stream):
    model_imports = "JsonClassObs"
    shard = 150
    n_worlds = {"quick": 6, "thorough": 14}
    per_world = {"quick": 110, "thorough": 350}
    _up = False

    def setup(self):
        self._up = True
        self.worlds = []
        self.extra_defs = ""

    def teardown(self):
        if self._up:
            self._up = False
            for w in self.worlds:
                w.teardown()

    def add_world(self, descs):
        for i, w in enumerate(self.worlds):
            if w.descs == descs:
                return i
        w = W.World(descs)
        w.setup()
        self.worlds.append(w)
        self.extra_defs = "Definition WS : list pyenv := %s.\n" % G.g_list([x.g_env() for x in self.worlds])
        return len(self.worlds) - 1

    def world_of(self, case):
        if not self._up:
            self.setup()
        i = self.add_world(case["world"])
        w = self.worlds[i]
        w.setup()
        return i, w

    def gen_values(self, rng, descs, n):
        return [WG.rand_top(rng, descs, rng.randint(1, 4)) for _ in range(n)]

    def gen(self, tier, rng):
        cases = []
        for k in range(self.n_worlds[tier]):
            descs = WG.gen_world(rng, "%s%d" % (self.name[:1], k))
            for v in self.corpus_values(descs) + self.gen_values(rng, descs, self.per_world[tier]):
                cases.append({"world": descs, "value": v})
        return cases

    def corpus_values(self, descs):
        """every class once at the top, once in a list, once in a dict held by a field of another bean"""
        out = []
        import random
        rng = random.Random(len(descs))
        holder = [d for d in descs if d["kind"] == "dict"]
        for d in descs:
            if d["kind"] in ("dict", "slot", "ser_list", "ser_dict"):
                inst = WG.rand_instance(rng, descs, 1, classes=[d["cid"]], extra_ok=False)
                out.append(inst)
                out.append([W.dv_copy(inst), 1])
                out.append({"k": (W.dv_copy(inst),)})
                if holder:
                    h = WG.rand_instance(rng, descs, 0, classes=[holder[0]["cid"]], extra_ok=False)
                    h.fields.append(("held", {"in": [W.dv_copy(inst)]}))
                    out.append(h)
            elif d["kind"] == "enum":
                for m in d["members"]:
                    out.append(W.EnumV(d["cid"], m))
                    out.append([W.EnumV(d["cid"], m)])
        out.append(W.Dec("1.50"))
        out.append({"d": [W.Dec("-0"), W.Dec("3")]})
        return out

    def nontrivial(self, case, obs):
        return has_object(case["value"])

    def masked(self, case, obs):
        return False

    def to_replay(self, case):
        return {"world": [dict(d, defaults=[[k, W.dv_to_json(v)] for k, v in d["defaults"]],
                               ign=None if d["ign"] is None else [d["ign"][0], W.dv_to_json(d["ign"][1])],
                               members=[W.dv_to_json(m) for m in d["members"]]) for d in case["world"]],
                "value": W.dv_to_json(case["value"])}

    def from_replay(self, j):
        descs = [dict(d, defaults=[(k, W.dv_from_json(v)) for k, v in d["defaults"]],
                      ign=None if d["ign"] is None else (d["ign"][0], W.dv_from_json(d["ign"][1])),
                      members=[W.dv_from_json(m) for m in d["members"]]) for d in j["world"]]
        return {"world": descs, "value": W.dv_from_json(j["value"])}

    def shrink(self, case):
        for c in shrink_dv(case["value"]):
            yield dict(case, value=c)

    def kind(self, case, obs):
        v = case["value"]
        kinds = set()

        def visit(x, pos):
            if isinstance(x, W.Inst):
                d = WG.by(case["world"], x.cid)
                kinds.add("%s%s%s@%s" % (d["kind"], "+inh" if d["bases"] else "", "+local" if d["module"] == W.MAIN else "", pos))
                for _, y in x.fields:
                    visit(y, "field")
            elif isinstance(x, (list, tuple, set, frozenset)):
                for y in x:
                    visit(y, pos if pos == "field" else "container")
            elif isinstance(x, dict):
                for y in x.values():
                    visit(y, pos if pos == "field" else "container")
            elif isinstance(x, W.EnumV):
                kinds.add("enum@" + pos)
            elif isinstance(x, W.Dec):
                kinds.add("decimal@" + pos)
        visit(v, "top")
        return ",".join(sorted(kinds)[:3]) or "plain"


def shrink_dv(v):
    if isinstance(v, (list, tuple)):
        for i in range(len(v)):
            yield v[i]
            yield type(v)(list(v[:i]) + list(v[i + 1:]))
        for i in range(len(v)):
            for c in shrink_dv(v[i]):
                yield type(v)(list(v[:i]) + [c] + list(v[i + 1:]))
    elif isinstance(v, dict):
        for k in v:
            yield v[k]
            yield {kk: vv for kk, vv in v.items() if kk is not k}
        for k in v:
            for c in shrink_dv(v[k]):
                yield {kk: (c if kk is k else vv) for kk, vv in v.items()}
    elif isinstance(v, W.Inst):
        for i, (k, x) in enumerate(v.fields):
            if isinstance(x, (list, tuple, dict, set, frozenset)):
                for c in shrink_dv(x):
                    if not isinstance(c, (W.Inst, W.Dec, W.EnumV)):
                        yield W.Inst(v.cid, v.fields[:i] + [(k, c)] + v.fields[i + 1:])
                yield W.Inst(v.cid, v.fields[:i] + [(k, 0)] + v.fields[i + 1:])


class Direct(WorldStream):
    """jsonclass.dump then jsonclass.load with the world's local class table"""
    name = "direct"
    case_type = "nat * list (str * str) * val * res val * res val"
    check_fn = "(c07_check WS)"

    def setup(self):
        WorldStream.setup(self)
        import jsonrpclib.jsonclass as JC
        self.JC = JC

    def run_impl(self, case):
        i, w = self.world_of(case)
        obj = w.build(case["value"])
        table = w.local_table()
        d = outcome(lambda: self.JC.dump(obj))
        view = w.model_view(obj)
        obs = {"world": i, "table": table, "view": view}
        if d[0] == "ok":
            obs["dump"] = ("ok", W.dv_copy(w.abstract(d[1])))
            l = outcome(lambda: self.JC.load(d[1], table))
            obs["load"] = ("ok", w.abstract(l[1])) if l[0] == "ok" else l
        else:
            obs["dump"] = d
        obs["unchanged"] = W.dv_same(w.abstract(obj), case["value"])
        return obs

    def oracle(self, case, obs):
        if obs["dump"][0] != "ok":
            return ("C07:dump-fails", "dump raised %s: %s" % (type(obs["dump"][1]).__name__, obs["dump"][1]))
        l = obs["load"]
        if l[0] != "ok":
            where = "local-class" if "Empty module name" in str(l[1]) else "other"
            return ("C07:load-fails:" + where, "load(dump(obj)) raised %s: %s" % (type(l[1]).__name__, l[1]))
        if not W.norm_matches(l[1], case["value"]):
            return ("C07:roundtrip-differs", "load(dump(obj)) = %r for obj = %r" % (l[1], case["value"]))
        if not obs["unchanged"]:
            return ("C07:object-modified", "the object was modified")
        return None

    def encode(self, case, obs):
        w = self.worlds[obs["world"]]
        return "(%d%%nat, %s, %s, %s, %s)" % (obs["world"], w.g_classes(obs["table"]), W.g_dv(obs["view"]), W.g_outcome(obs["dump"]),
                                              W.g_outcome(obs["load"]) if "load" in obs else "(Ok VNone)")

    def describe(self, case, obs):
        out = {"value": W.dv_to_json(case["value"]), "dump": d_outcome(obs["dump"])}
        if "load" in obs:
            out["load"] = d_outcome(obs["load"])
        return out


class Loopback(object):
    """transport= object handing the request text to a dispatcher and the reply text back"""

    def __init__(self, dispatcher):
        self.dispatcher = dispatcher

    def push_headers(self, headers):
        pass

    def pop_headers(self, headers):
        pass

    def request(self, host, handler, request_body, verbose=0):
        if isinstance(request_body, bytes):
            request_body = request_body.decode("utf-8")
        return self.dispatcher._marshaled_dispatch(request_body)

    def close(self):
        pass


def json_able(v):
    """the RPC path goes through JSON text: string keys only"""
    return not W.dv_has(v, lambda x: isinstance(x, dict) and any(not isinstance(k, str) for k in x))


class Rpc(WorldStream):
    """the object as a parameter and as a result of a ServerProxy <-> SimpleJSONRPCDispatcher exchange"""
    name = "rpc"
    case_type = "nat * list (str * str) * val * res val"
    check_fn = "(c07_rpc_check WS)"
    per_world = {"quick": 60, "thorough": 200}

    def setup(self):
        WorldStream.setup(self)
        import jsonrpclib.jsonrpc as J
        import jsonrpclib.config as C
        from jsonrpclib.SimpleJSONRPCServer import SimpleJSONRPCDispatcher
        self.J, self.C, self.Disp = J, C, SimpleJSONRPCDispatcher

    def gen(self, tier, rng):
        cases = []
        for c in WorldStream.gen(self, tier, rng):
            if json_able(c["value"]):
                c["as"] = rng.choice(["param", "result", "kwparam", "param", "result", "bparam", "bresult"])
                c["version"] = rng.choice([1.0, 2.0])
                cases.append(c)
        # falsy custom objects (zero Decimals) and every enum member / Decimal in each role and version: the
        # conversion must not depend on the truth value of what travels
        if cases:
            descs = cases[0]["world"]
            edge = [W.Dec("0"), W.Dec("0.00"), W.Dec("-0"), [W.Dec("0")], {"z": W.Dec("0")}]
            edge += [W.EnumV(d["cid"], m) for d in descs if d["kind"] == "enum" for m in d["members"]][:4]
            for v in edge:
                for role in ("param", "result", "kwparam", "bparam", "bresult"):
                    for ver in (1.0, 2.0):
                        cases.append({"world": descs, "value": W.dv_copy(v), "as": role, "version": ver})
        return cases

    def run_impl(self, case):
        i, w = self.world_of(case)
        table = w.local_table()

        def cfg(version=case["version"]):
            c = self.C.Config(version=version, **({"serialize_method": case["ser"]} if case.get("ser") else {}))
            for n, k in table.items():
                c.classes.add(k, n)
            return c
        disp = self.Disp(config=cfg(case.get("sversion", case["version"])))
        received = []
        obj_for_result = w.build(case["value"])

        def echo(*a, **k):
            received.append((a, k))
            return obj_for_result if case["as"] in ("result", "bresult") else None
        disp.register_function(echo, "echo")
        proxy = self.J.ServerProxy("http://localhost/", transport=Loopback(disp), config=cfg(), version=case["version"])
        obj = obj_for_result if case["as"] in ("result", "bresult") else w.build(case["value"])
        view = w.model_view(obj)
        if case["as"] in ("bparam", "bresult"):
            # the same trip inside a MultiCall batch (the decoded message is then a list of envelopes)
            def batch():
                mc = self.J.MultiCall(proxy, config=cfg())
                mc.echo(0)
                if case["as"] == "bparam":
                    mc.echo(obj)
                else:
                    mc.echo()
                return list(mc())[1]
            r = outcome(batch)
            if case["as"] == "bparam":
                got = ("ok", w.abstract(received[1][0][0])) if r[0] == "ok" and len(received) > 1 else r
            else:
                got = ("ok", w.abstract(r[1])) if r[0] == "ok" else r
        elif case["as"] == "param":
            r = outcome(lambda: proxy.echo(obj))
            got = ("ok", w.abstract(received[0][0][0])) if r[0] == "ok" and received else r
        elif case["as"] == "kwparam":
            r = outcome(lambda: proxy.echo(k=obj))
            got = ("ok", w.abstract(received[0][1]["k"])) if r[0] == "ok" and received else r
        else:
            r = outcome(lambda: proxy.echo())
            got = ("ok", w.abstract(r[1])) if r[0] == "ok" else r
        return {"world": i, "table": table, "got": got, "view": view}

    def oracle(self, case, obs):
        g = obs["got"]
        if g[0] != "ok":
            return ("C07:rpc-fails:" + case["as"], "remote call raised %s: %s" % (type(g[1]).__name__, g[1]))
        if not W.norm_matches(g[1], case["value"]):
            return ("C07:rpc-differs:" + case["as"], "%s arrived as %r, sent %r" % (case["as"], g[1], case["value"]))
        return None

    def encode(self, case, obs):
        w = self.worlds[obs["world"]]
        if obs["got"][0] != "ok":
            return None
        return "(%d%%nat, %s, %s, %s)" % (obs["world"], w.g_classes(obs["table"]), W.g_dv(obs["view"]), W.g_outcome(obs["got"]))

    def kind(self, case, obs):
        return "%s v%s / %s" % (case["as"], case["version"], WorldStream.kind(self, case, obs))

    def describe(self, case, obs):
        return {"value": W.dv_to_json(case["value"]), "as": case["as"], "version": case["version"], "arrived": d_outcome(obs["got"])}

    def to_replay(self, case):
        return dict(WorldStream.to_replay(self, case), **{"as": case["as"], "version": case["version"], "ser": case.get("ser"),
                                                          "sversion": case.get("sversion")})

    def from_replay(self, j):
        c = dict(WorldStream.from_replay(self, j), **{"as": j["as"], "version": j["version"]})
        if j.get("ser"):
            c["ser"] = j["ser"]
        if j.get("sversion"):
            c["sversion"] = j["sversion"]
        return c


class RpcCfg(Rpc):
    """the same exchange under a configuration with its own serialisation-method name, and with a server whose protocol
    version differs from the client's (a 2.0 server answering a 1.0 client works on a copy of its configuration)"""
    name = "rpc_cfg"
    case_type = "nat * str * list (str * str) * val * res val"
    check_fn = "(c07_rpcx_check WS)"
    SER = "_to_wire"
    n_worlds = {"quick": 2, "thorough": 6}
    per_world = {"quick": 50, "thorough": 200}

    def gen(self, tier, rng):
        cases = []
        for k in range(self.n_worlds[tier]):
            descs = WG.gen_world(rng, "x%d" % k, ser_name=self.SER)
            for v in self.corpus_values(descs) + self.gen_values(rng, descs, self.per_world[tier]):
                if json_able(v):
                    cver, sver = rng.choice([(1.0, 2.0), (1.0, 2.0), (2.0, 1.0), (1.0, 1.0), (2.0, 2.0)])
                    cases.append({"world": descs, "value": v, "as": rng.choice(["param", "result", "result", "kwparam", "bparam", "bresult"]),
                                  "version": cver, "sversion": sver, "ser": self.SER})
        return cases

    def encode(self, case, obs):
        w = self.worlds[obs["world"]]
        if obs["got"][0] != "ok":
            return None
        return "(%d%%nat, %s, %s, %s, %s)" % (obs["world"], G.g_str(case["ser"]), w.g_classes(obs["table"]), W.g_dv(obs["view"]),
                                             W.g_outcome(obs["got"]))

    def kind(self, case, obs):
        return "server v%s / %s" % (case["sversion"], Rpc.kind(self, case, obs))


def streams():
    return [Direct(), Rpc(), RpcCfg()]
