"""C15 -- jsonclass round-trips plain data and is side-effect free."""
import itertools
import json

from harness.core import pipeline, gallina as G, values as V
from harness.jsonclass_support import world as W, descgen as D

from harness.jsonclass_support import anchors

PROP_ID = "C15"
MANIFEST_ENTRY = {
    "text": ("Theorems by nested induction over all values (Coq, closed under the global context) about a Gallina model of "
             "jsonclass.dump/load in which load's pop/restore of '__jsonclass__' on the caller's dict is explicit state: "
             "dump of plain data is dict/list/primitive only and JSON when keys are strings, load(dump v) = norm v with every "
             "leaf constructor-exact, and the argument of load is == afterwards on success and on every failure path. The "
             "model is checked against the real code on all small nestings and on random large ones on every run."),
    "note": ("isinstance/type tables, dict and set iteration, setattr and the attribute protocol of the generated classes are "
             "modelled, not verified; dump's purity is decided on the implementation by deep snapshot comparison (the model's "
             "dump has no argument state); aliasing inside the argument is outside the value universe; bytes excluded."),
    "technique": "Coq proof over a hand-written executable model + differential correspondence check (vm_compute) + property oracle",
    "design_ref": "DESIGN.md 4/C15",
}
ANCHOR_RANGES = anchors.func_ranges([("jsonrpclib/jsonclass.py", "dump"), ("jsonrpclib/jsonclass.py", "load")])
RULE = ("round-trip stream: every nesting with <= 3 nodes (thorough: <= 4) over {list, tuple, set, frozenset, dict} with leaves "
        "from a 14-value primitive pool, dicts with string and non-string keys, plus random nestings up to depth 8 / width 8; "
        "load stream: descriptors over a 10-class world failing at each stage of load (name, resolution, constructor, nested "
        "load, setattr) and malformed descriptors of every JSON type and length, at the top and nested, with and without a "
        "local class table. Non-trivial: contains a container, or a falsy/extreme/non-ASCII leaf, or a descriptor. Distinct by "
        "canonical hash of the case.")
EXHAUSTIVE = "all nestings with <= 3 nodes (quick) / <= 4 nodes (thorough) over the 5 container kinds and the 14-leaf pool"
TRUSTED = ["modelled, not verified: isinstance against the type tables of utils.py, iteration order of dict/set objects, "
           "`in` on dicts, setattr/getattr and constructors of the generated classes, __import__ of synthetic modules",
           "dump purity is an implementation-side snapshot comparison (repr-level, type-exact, recursive)"]
ASSUMPTIONS = ["values are trees (no object occurs twice in the argument)", "bytes and non-finite floats are excluded",
               "config without serialize handlers (C20 covers handlers)"]

POOL = [None, True, False, 0, 1, -1, 2 ** 70, 0.0, -0.0, 1.5, 1e308, "", "a", "é\U0001f600"]
KINDS = ["list", "tuple", "set", "frozenset", "dict"]
STR_KEYS = ["k0", "", "ké", "__x__"]
ODD_KEYS = [1, None, (1, 2), 2.5]


def mk(kind, kids, keys):
    if kind == "list":
        return list(kids)
    if kind == "tuple":
        return tuple(kids)
    if kind == "dict":
        return {keys[i]: k for i, k in enumerate(kids)}
    try:
        return set(kids) if kind == "set" else frozenset(kids)
    except TypeError:
        return None          # unhashable member: not a Python value


def shapes(n):
    """all ordered trees with exactly n nodes, as nested tuples of children"""
    if n == 1:
        return [()]
    out = []
    for parts in compositions(n - 1):
        for kids in itertools.product(*[shapes(p) for p in parts]):
            out.append(tuple(kids))
    return out


def compositions(n):
    if n == 0:
        return [()]
    return [(k,) + rest for k in range(1, n + 1) for rest in compositions(n - k)]


def fill(shape, keys):
    """all values of the shape: inner nodes range over KINDS (a childless node is a leaf or an empty container)"""
    if shape == ():
        for leaf in POOL:
            yield leaf
        for kind in KINDS:
            yield mk(kind, [], keys)
        return
    for kids in itertools.product(*[list(fill(s, keys)) for s in shape]):
        for kind in KINDS:
            v = mk(kind, [_fresh(k) for k in kids], keys)
            if v is not None:
                yield v


def _fresh(v):
    if isinstance(v, list):
        return [_fresh(x) for x in v]
    if isinstance(v, dict):
        return {k: _fresh(x) for k, x in v.items()}
    if isinstance(v, set):
        return set(v)
    return v


def rand_nest(rng, depth, width, budget=None):
    """random nesting with at most ~budget[0] nodes"""
    if budget is None:
        budget = [rng.choice([10, 30, 80, 150])]
    budget[0] -= 1
    if depth <= 0 or budget[0] <= 0 or rng.random() < 0.25:
        return rng.choice(POOL + V.LEAVES)
    kind = rng.choice(KINDS)
    n = min(rng.randint(0, width), max(0, budget[0]))
    if kind in ("set", "frozenset"):
        kids = [rand_hashable(rng, min(depth - 1, 2), min(width, 3)) for _ in range(n)]
        budget[0] -= n
        return set(kids) if kind == "set" else frozenset(kids)
    kids = [rand_nest(rng, depth - 1, width, budget) for _ in range(n)]
    if kind == "dict":
        keys = list(STR_KEYS) + ["k%d" % i for i in range(8)]
        if rng.random() < 0.3:
            keys += ODD_KEYS + [True, -0.0, frozenset([1])]
        rng.shuffle(keys)
        return {keys[i]: k for i, k in enumerate(kids)}
    return kids if kind == "list" else tuple(kids)


def rand_hashable(rng, depth, width):
    if depth <= 0 or rng.random() < 0.5:
        return rng.choice(POOL)
    kids = [rand_hashable(rng, depth - 1, width) for _ in range(rng.randint(0, width))]
    return tuple(kids) if rng.random() < 0.6 else frozenset(kids)


def only_json_shapes(v):
    t = type(v)
    if v is None or t in (bool, int, float, str):
        return True
    if t is list:
        return all(only_json_shapes(x) for x in v)
    if t is dict:
        return all(only_json_shapes(x) for x in v.values())
    return False


def all_str_keys(v):
    if isinstance(v, dict):
        return all(type(k) is str and all_str_keys(x) for k, x in v.items())
    if isinstance(v, (list, tuple, set, frozenset)):
        return all(all_str_keys(x) for x in v)
    return True


def has_descriptor(v):
    return W.dv_has(v, lambda x: isinstance(x, dict) and D.JC in x)


def outcome(fn):
    try:
        return ("ok", fn())
    except Exception as ex:      # noqa
        return ("raise", ex)


def d_outcome(o):
    return {"value": W.dv_to_json(o[1])} if o[0] == "ok" else {"raised": type(o[1]).__name__, "text": str(o[1])[:200]}


class Roundtrip(pipeline.Stream):
    name = "roundtrip"
    model_imports = "JsonClassObs"
    case_type = "val * res val * res val * val"
    check_fn = "c15_rt_check"
    shard = 250

    def setup(self):
        import jsonrpclib.jsonclass as JC
        self.JC = JC

    def gen(self, tier, rng):
        cases = []
        top = 3 if tier == "quick" else 4
        for n in range(1, top + 1):
            for sh in shapes(n):
                cases.extend(fill(sh, STR_KEYS))
        # the same shapes with non-string keys (two nodes below a dict are enough to reach every key position)
        for sh in shapes(3):
            cases.extend(v for v in fill(sh, ODD_KEYS) if W.dv_has(v, lambda x: isinstance(x, dict) and len(x) > 0))
        if tier == "quick":
            four = [v for sh in shapes(4) for v in itertools.islice(fill(sh, STR_KEYS), 0, None, 97)]
            cases.extend(four)
        n_rand = 400 if tier == "quick" else 5000
        for i in range(n_rand):
            cases.append(rand_nest(rng, rng.randint(1, 8), rng.randint(1, 8) if i % 4 else 3))
        # "__jsonclass__"-free data that looks like a descriptor elsewhere
        cases += [{"jsonclass": ["a.B", []]}, {"x": "__jsonclass__"}, ["__jsonclass__"], {"__jsonclass": 1}]
        # non-finite floats are floats like the others: they stay floats, with their exact value (oracle only: the model's
        # numbers are rationals)
        inf, nan = float("inf"), float("nan")
        cases += [inf, -inf, nan, [inf], (nan, 1.0), {"a": -inf, "b": [nan, {"c": inf}]}, [[inf, -inf], 0.0], {1.5: (inf,)},
                  {"k": frozenset([inf])}, [1e308, inf]]
        return cases

    def run_impl(self, case):
        JC = self.JC
        arg = W.dv_copy(case)
        before = W.dv_copy(arg)
        d = outcome(lambda: JC.dump(arg))
        obs = {"arg": arg, "dump": d, "dump_arg_unchanged": W.dv_same(arg, before)}
        if d[0] == "ok":
            dumped = d[1]
            snap = W.dv_copy(dumped)
            obs["dumped_snapshot"] = snap
            obs["load"] = outcome(lambda: JC.load(dumped))
            obs["load_arg_after"] = dumped
            try:
                json.dumps(snap)
                obs["json_ok"] = True
            except Exception as ex:   # noqa
                obs["json_ok"] = "%s: %s" % (type(ex).__name__, ex)
        return obs

    def masked(self, case, obs):
        return False

    def oracle(self, case, obs):
        d = obs["dump"]
        if not obs["dump_arg_unchanged"]:
            return ("C15:dump-modifies-argument", "dump changed its argument %r" % (case,))
        if d[0] != "ok":
            return ("C15:dump-fails-on-plain-data", "dump raised %s on plain data" % type(d[1]).__name__)
        snap = obs["dumped_snapshot"]
        if not only_json_shapes(snap):
            return ("C15:dump-not-dict-list-primitive", "dump returned %r" % (snap,))
        if all_str_keys(case) and obs["json_ok"] is not True:
            return ("C15:dump-not-serialisable", "json backend: %s" % obs["json_ok"])
        l = obs["load"]
        if l[0] != "ok":
            return ("C15:load-fails-on-dumped-plain-data", "load raised %s" % type(l[1]).__name__)
        if not W.norm_matches(l[1], case):
            return ("C15:roundtrip-differs", "load(dump(v)) = %r for v = %r" % (l[1], case))
        if not W.dv_same(obs["load_arg_after"], snap):
            return ("C15:load-modifies-argument", "load changed its argument")
        return None

    def encode(self, case, obs):
        import math
        if W.dv_has(case, lambda x: isinstance(x, float) and not math.isfinite(x)):
            return None
        d = obs["dump"]
        if d[0] != "ok":
            return "(%s, %s, Ok VNone, VNone)" % (W.g_dv(obs["arg"]), W.g_outcome(d))
        return "(%s, %s, %s, %s)" % (W.g_dv(obs["arg"]), "(Ok %s)" % W.g_dv(obs["dumped_snapshot"]),
                                     W.g_outcome(obs["load"]), W.g_dv(obs["load_arg_after"]))

    def nontrivial(self, case, obs):
        return V.interesting(case)

    def kind(self, case, obs):
        if not V.has_container(case):
            return "leaf"
        k = type(case).__name__
        return "%s size %s%s" % (k, "<=4" if W.dv_size(case) <= 4 else ("<=20" if W.dv_size(case) <= 20 else ">20"),
                                 "" if all_str_keys(case) else " non-str keys")

    def describe(self, case, obs):
        out = {"value": W.dv_to_json(case), "dump": d_outcome(obs["dump"]), "dump_arg_unchanged": obs["dump_arg_unchanged"]}
        if "load" in obs:
            out["load"] = d_outcome(obs["load"])
        return out

    def to_replay(self, case):
        return W.dv_to_json(case)

    def from_replay(self, j):
        return W.dv_from_json(j)

    def shrink(self, case):
        if isinstance(case, (list, tuple)):
            for i in range(len(case)):
                yield case[i]
                yield type(case)(list(case[:i]) + list(case[i + 1:]))
        elif isinstance(case, (set, frozenset)):
            for x in case:
                yield x
                yield type(case)(y for y in case if y is not x)
        elif isinstance(case, dict):
            for k in case:
                yield case[k]
                yield {kk: vv for kk, vv in case.items() if kk is not k}


class Load(pipeline.Stream):
    """load on payloads with descriptors: outcome and the argument afterwards (success and failure)"""
    name = "load"
    model_imports = "JsonClassObs"
    case_type = "list (str * str) * val * res val * val"
    check_fn = "(load_check W15)"
    shard = 500

    _up = False

    def setup(self):
        self._up = True
        import jsonrpclib.jsonclass as JC
        self.JC = JC
        self.world = W.standard_world()
        self.world.setup()
        self.extra_defs = "Definition W15 : pyenv := %s.\n" % self.world.g_env()

    def teardown(self):
        if self._up:
            self._up = False
            self.world.teardown()

    def gen(self, tier, rng):
        cases = []
        for v in D.systematic():
            cases.append({"classes": False, "value": v})
            if has_local(v) or len(cases) % 5 == 0:
                cases.append({"classes": True, "value": v})
        n_rand = 500 if tier == "quick" else 8000
        for _ in range(n_rand):
            cases.append({"classes": rng.random() < 0.5, "value": D.rand_value(rng, rng.randint(1, 4))})
        return cases

    def run_impl(self, case):
        if not self._up:          # the decision stage re-runs cases after teardown()
            self.setup()
        arg = W.dv_copy(case["value"])
        table = self.world.local_table() if case["classes"] else None
        out = outcome(lambda: self.JC.load(arg, table))
        if out[0] == "ok":
            out = ("ok", self.world.abstract(out[1]))
        return {"outcome": out, "after": arg}

    def masked(self, case, obs):
        return False

    def oracle(self, case, obs):
        if not W.dv_same(obs["after"], case["value"]):
            how = "failed (%s)" % type(obs["outcome"][1]).__name__ if obs["outcome"][0] == "raise" else "succeeded"
            key = "C15:load-modifies-argument-on-failure" if obs["outcome"][0] == "raise" else "C15:load-modifies-argument"
            return (key, "load %s and left its argument as %r (was %r)" % (how, obs["after"], case["value"]))
        return None

    def encode(self, case, obs):
        table = self.world.local_table() if case["classes"] else None
        return "(%s, %s, %s, %s)" % (self.world.g_classes(table), W.g_dv(case["value"]), W.g_outcome(obs["outcome"]),
                                     W.g_dv(obs["after"]))

    def nontrivial(self, case, obs):
        return has_descriptor(case["value"])

    def kind(self, case, obs):
        o = obs["outcome"]
        return "%s / %s" % ("descriptor" if has_descriptor(case["value"]) else "plain",
                            "ok" if o[0] == "ok" else "raise " + type(o[1]).__name__)

    def describe(self, case, obs):
        return {"classes": case["classes"], "value": W.dv_to_json(case["value"]), "outcome": d_outcome(obs["outcome"]),
                "argument_afterwards": W.dv_to_json(obs["after"])}

    def to_replay(self, case):
        return {"classes": case["classes"], "value": W.dv_to_json(case["value"])}

    def from_replay(self, j):
        return {"classes": j["classes"], "value": W.dv_from_json(j["value"])}

    def shrink(self, case):
        v = case["value"]
        for c in shrink_value(v):
            yield {"classes": case["classes"], "value": c}
        if case["classes"]:
            yield {"classes": False, "value": v}


def has_local(v):
    return W.dv_has(v, lambda x: isinstance(x, dict) and isinstance(x.get(D.JC), list) and x[D.JC][:1] in (["Loc"], ["LocSlot"]))


def shrink_value(v):
    if isinstance(v, (list, tuple)):
        for i in range(len(v)):
            yield v[i]
            yield type(v)(list(v[:i]) + list(v[i + 1:]))
        for i in range(len(v)):
            for c in shrink_value(v[i]):
                yield type(v)(list(v[:i]) + [c] + list(v[i + 1:]))
    elif isinstance(v, dict):
        for k in v:
            if k != D.JC:
                yield v[k]
                yield {kk: vv for kk, vv in v.items() if kk is not k}
        for k in v:
            if k != D.JC:
                for c in shrink_value(v[k]):
                    yield {kk: (c if kk is k else vv) for kk, vv in v.items()}


def streams():
    return [Roundtrip(), Load()]
