"""C12 -- servers isolate concurrent clients and always shut down cleanly."""
import json
import os
import queue
import subprocess
import sys
import threading

from harness.core import pipeline, gallina as G, env

PROP_ID = "C12"
MANIFEST_ENTRY = {
    "text": ("Coq theorems (closed under the global context) over a Gallina model of do_POST handlers interleaved under "
             "every schedule, for every number of connections, pool size and dispatcher (footprint, no cross-talk, "
             "at-most/exactly-once, fault isolation, progress), and over a lifecycle machine with socketserver's shutdown "
             "protocol as a modelled component, for every API-legal history and every schedule (no call blocks forever, "
             "ranking form; closed state). The model is run against the real servers on every check: handlers on in-memory "
             "connections interleaved line by line, real TCP/Unix sockets with 1-16 concurrent clients, and all legal "
             "lifecycle histories up to a length bound executed under a watchdog in a subprocess."),
    "note": ("partial: the accept loop, select, socket buffers, http.server request parsing, ThreadPool (each enqueued handler "
             "run once by one worker: the statement of C09) and the OS scheduler are modelled components; real-socket runs "
             "sample OS schedules; the dispatcher is a parameter of the handler model (a pure function of the request "
             "text), instantiated in the correspondence by the implementation's own single-threaded replies."),
    "technique": "Coq proof over a hand-written executable model + differential correspondence check (vm_compute) + property oracle",
    "design_ref": "DESIGN.md 4/C12",
}
ANCHOR_RANGES = [("jsonrpclib/SimpleJSONRPCServer.py", 465, 532), ("jsonrpclib/SimpleJSONRPCServer.py", 621, 705)]
RULE = ("three streams. handler: 1-4 in-memory connections through the real handler class, request mix over 17 request "
        "kinds (calls, notifications, batches, invalid JSON/requests, failing/unknown methods, bad paths and "
        "Content-Length), interleaved at source-line granularity by a seeded schedule, compared with the single-threaded "
        "reply of the same request. sockets: {Simple, Pooled} x pools {default 30, user 1, 2, 30} x {TCP 127.0.0.1:0, Unix} "
        "x 1-16 concurrent raw clients x the same mix plus event-gated slow methods, garbage/empty connections, follow-up "
        "requests, then shutdown()+server_close(). lifecycle: ALL API-legal histories over {construct, serve in a thread, "
        "request answered, request in flight, shutdown, server_close} up to the tier's length bound (quick 5, thorough 7) "
        "per server kind/pool/family, plus construction on a taken address; each call under a 20 s watchdog. "
        "Non-trivial: >= 2 connections, or a history that stops a server. Distinct by canonical hash of the case."
        ' Added after the seeded rounds: `long_clen` (fewer bytes than announced, then a half-close) and `abandon` (a call of the slow method whose client leaves without reading) connections in the socket stream.')
EXHAUSTIVE = ("lifecycle stream only: every API-legal history of length <= 5 (quick) / 7 (thorough) over the six calls for "
              "each of 8 server configurations (not the unbounded property: that is the theorems' job)")
TRUSTED = ["modelled, not verified: socketserver (accept loop, serve_forever/shutdown protocol, initially clear __is_shut_down "
           "event), http.server request parsing and header emission, select, kernel sockets, threading.Event/Thread.join",
           "ThreadPool abstracted as 'each enqueued handler is run exactly once by one worker; stop() joins every worker' "
           "(C09/C11 are the properties that establish this for the real pool)",
           "the dispatcher is a Section variable of the handler model; the correspondence instantiates it with the table of the "
           "implementation's single-threaded replies (server._marshaled_dispatch on the same request text)",
           "line-level baton (sys.settrace) for the in-memory handler runs; the OS scheduler for the real-socket runs (sampled)"]
ASSUMPTIONS = ["in-flight handlers eventually finish (the harness opens the gates of slow methods when a stop call is blocked)",
               "API-legal histories: construct first; serve only when not serving and after the previous serving thread ended; "
               "requests and shutdown() only while serving; plain server_close() only when not serving; nothing after server_close()",
               "a request counted as in flight has entered its method (at most pool-size - 1 of them, one for a plain server)",
               "request bodies are ASCII JSON texts; gzip/chunk boundaries are C17's subject"]

OPS = {"C": "Construct", "S": "ServeInThread", "Rf": "(Request false)", "Rs": "(Request true)", "SD": "Shutdown", "CL": "ServerClose"}
OPNAME = {"C": "constructor", "CX": "constructor-on-taken-address", "S": "serve_forever", "Rf": "request", "Rs": "request",
          "SD": "shutdown", "CL": "server_close"}


def setup():
    if env.VERIF not in sys.path:
        sys.path.insert(0, env.VERIF)


# ------------------------------------------------------------------------------------------------
# request mixes and the per-connection oracle (shared by the handler and socket streams)

KINDS_MODEL = ["call", "call", "call_kw", "call_v1", "notify", "fail", "notify_fail", "unknown", "badparams", "batch",
               "invalid_json", "invalid_req", "empty_body", "no_clen", "bad_clen", "short_clen", "bad_path"]
KINDS_RAW = ["garbage", "empty_conn", "get"]
INVALID_REQ_TEXTS = ['{"jsonrpc": "2.0", "id": 3}', "[]", "5", '""', "null", '{"jsonrpc": "2.0", "method": 5, "id": 1}', "[1, 2]"]
PAYLOADS = [1, 0, None, "p", [1, 2], {"a": 1}, "é", 2.5, True, [], ""]


def gen_conn(rng, i, kinds, salt):
    from harness.server_support import common as K
    k = rng.choice(kinds)
    d = {"k": k, "tok": "T%dx%s%xZ" % (i, salt, rng.randrange(16 ** 4)), "rid": rng.choice([i + 1, 100 + i, "id%d" % i])}
    if k in ("call", "call_kw", "call_v1", "notify", "no_clen", "bad_clen", "short_clen", "long_clen", "bad_path"):
        d["payload"] = rng.choice(PAYLOADS)
    if k == "batch":
        d["rid"] = 10 * (i + 1)
        d["elems"] = [rng.choice(K.BATCH_ELEMS) for _ in range(rng.randint(1, 4))]
    if k == "invalid_req":
        d["text"] = rng.choice(INVALID_REQ_TEXTS)
    return d


def _check_item(exp, j, status=200):
    """does the parsed reply object j meet what the property requires for this request?"""
    kind = exp["kind"]
    if kind == "result":
        return (isinstance(j, dict) and not j.get("error") and "result" in j and j["result"] == exp["result"]
                and j.get("id") == exp["id"])
    if kind == "error":
        if not (isinstance(j, dict) and j.get("error")):
            return False
        return j.get("id") is None or j.get("id") == exp["id"]
    return True


def judge(mats, conns, log):
    """The isolation claim, from the statement: every connection gets the reply to its own request, nobody else's
    token; every token is executed exactly as often as its request asks (once, or never for rejected requests)."""
    owner = {}
    for i, m in enumerate(mats):
        for t in m["tokens"]:
            owner[t] = i
    for i, (m, o) in enumerate(zip(mats, conns)):
        exp = m["expect"]
        if exp["kind"] == "none":
            continue
        if o["status"] is None:
            return ("C12:no-reply:%s" % m["k"], "connection %d (%s) got no HTTP reply (%s)" % (i, m["k"], o.get("error")))
        body = o["body"] or ""
        foreign = [t for t, w in owner.items() if w != i and t in body]
        if foreign:
            return ("C12:cross-talk", "connection %d (%s) received token(s) %s of other connections: %r" % (i, m["k"], foreign, body[:200]))
        try:
            j = json.loads(body) if body else None
        except ValueError:
            j = ValueError
        ok = True
        if exp["kind"] in ("result", "error"):
            ok = o["status"] == 200 and _check_item(exp, j)
        elif exp["kind"] == "empty":
            ok = o["status"] == 200 and body == ""
        elif exp["kind"] == "batch":
            items = exp["items"]
            if not items:
                ok = o["status"] == 200 and body == ""
            else:
                ok = o["status"] == 200 and isinstance(j, list) and len(j) == len(items) and all(_check_item(e, x) for e, x in zip(items, j))
        elif exp["kind"] == "status":
            ok = o["status"] == exp["status"]
        elif exp["kind"] == "error_status":
            ok = o["status"] >= 400 or (isinstance(j, dict) and bool(j.get("error")))
        if not ok:
            return ("C12:wrong-reply:%s" % m["k"], "connection %d (%s): status %s body %r does not answer its request (expected %s)" % (
                i, m["k"], o["status"], body[:200], exp))
    for i, m in enumerate(mats):
        for t, want in m["tokens"].items():
            got = log.count(t)
            if got > want:
                return ("C12:duplicate-execution:%s" % m["k"], "token %s of connection %d (%s) executed %d times, expected %d" % (t, i, m["k"], got, want))
            if got < want and m["k"] != "abandon":
                # (a client that went away without reading is owed nothing: its request runs at most once; on a busy plain TCP
                # server the kernel may drop such a connection before the server ever accepts it)
                return ("C12:lost-execution:%s" % m["k"], "token %s of connection %d (%s) executed %d times, expected %d" % (t, i, m["k"], got, want))
    return None


def g_request(m):
    clen = "None" if m["clen"] is None else "(Some %d%%nat)" % m["clen"]
    return "(mkReq %s %s %s)" % (G.g_bool(m["path"] == "/"), clen, G.g_str(m["body"]))


def g_conn_obs(o):
    body = "(Some %s)" % G.g_str(o["body"] or "") if o["status"] == 200 else "None"
    return "(%d%%nat, %s, %s)" % (o["status"], body, G.g_list([G.g_str(t) for t in o["effects"]]))


def g_table(table):
    rows = []
    for d, t, e in table:
        r = "DFail" if t is None else "(DReply %s)" % G.g_str(t)
        rows.append("(%s, (%s, %s))" % (G.g_str(d), r, G.g_list([G.g_str(x) for x in e])))
    return G.g_list(rows)


def encode_handlers(pool, table, mats, sched, conns):
    """(pool size, dispatcher table, requests, schedule, observed outcome) for c12_handler_check; connections that never
    reach do_POST are left out (by the isolation theorems they cannot matter -- and the check would show it if they did)"""
    from harness.server_support import common as K
    keep = [i for i, m in enumerate(mats) if K.in_model(m["k"])]
    if not keep or any(conns[i]["status"] is None for i in keep):
        return None if not keep else "(0%nat, [], [mkReq true None \"\"], [], [])"   # a missing reply: force a disagreement
    n = len(keep)
    sched2 = [s % n for s in sched]
    return "(%d%%nat, %s, %s, %s, %s)" % (
        pool, g_table(table), G.g_list([g_request(mats[i]) for i in keep]),
        G.g_list(["%d%%nat" % s for s in sched2]), G.g_list([g_conn_obs(conns[i]) for i in keep]))


def shrink_conns(case, key="conns"):
    conns = case[key]
    for i in range(len(conns)):
        if len(conns) > 1:
            c = dict(case)
            c[key] = conns[:i] + conns[i + 1:]
            yield c
    for i, d in enumerate(conns):
        if d["k"] == "batch" and len(d["elems"]) > 1:
            for j in range(len(d["elems"])):
                c = dict(case)
                c[key] = conns[:i] + [dict(d, elems=d["elems"][:j] + d["elems"][j + 1:])] + conns[i + 1:]
                yield c


# ------------------------------------------------------------------------------------------------
class Handler(pipeline.Stream):
    """(b) do_POST on in-memory connections in real threads, interleaved line by line"""
    name = "handler"
    model_imports = "Server"
    case_type = "nat * list (string * (dres * list string)) * list request * list nat * list conn_obs"
    check_fn = "c12_handler_check"
    shard = 150

    def setup(self):
        from harness.server_support import common, handlers, sockets
        self.K, self.H, self.S = common, handlers, sockets

    def gen(self, tier, rng):
        cases = []
        n_cases = 150 if tier == "quick" else 2500
        for c in range(n_cases):
            n = rng.choice([1, 2, 2, 3, 3, 3, 4])
            salt = "h%d" % c
            conns = [gen_conn(rng, i, KINDS_MODEL, salt) for i in range(n)]
            style = rng.random()
            if style < 0.15:
                sched = []
            elif style < 0.3:       # few change points
                sched, cur = [], rng.randrange(n)
                for _ in range(rng.randint(1, 4)):
                    sched += [cur] * rng.randint(1, 60)
                    cur = rng.randrange(n)
            else:
                sched = [rng.randrange(n) for _ in range(rng.randint(20, 400))]
            cases.append({"conns": conns, "sched": sched})
        return cases

    def run_impl(self, case):
        K, H = self.K, self.H
        server = H.make_dispatch_server()
        reg = K.Registry()
        reg.register(server)
        mats = [K.materialize(d) for d in case["conns"]]
        outs, baton, errors, hung = H.run_handlers(server, [m["raw"] for m in mats], case["sched"])
        log = list(reg.log)
        conns = self.S.conn_observations(mats, outs, log)
        # single-threaded reply of the same request, through the same handler class
        reg.swap_log()
        single = []
        for m in mats:
            o, _, _, _ = H.run_handlers(server, [m["raw"]], [])
            single.append(K.parse_http(o[0]))
        reg.swap_log()
        table = self.S.reference_table(server, reg, mats)
        return {"conns": conns, "single": [list(s) for s in single], "log": log, "stuck": baton.stuck, "hung": hung,
                "switches": baton.switches, "errors": [repr(e) if e else None for e in errors],
                "table": [[d, t, e] for d, (t, e) in table.items()]}

    def oracle(self, case, obs):
        K = self.K
        mats = [K.materialize(d) for d in case["conns"]]
        if obs["hung"] or obs["stuck"]:
            return ("C12:handler-never-finishes", "handlers %s did not finish (stuck=%s)" % (obs["hung"], obs["stuck"]))
        for i, (o, s) in enumerate(zip(obs["conns"], obs["single"])):
            if (o["status"], o["body"]) != (s[0], s[1]):
                return ("C12:reply-depends-on-other-connections", "connection %d (%s): concurrent reply %r differs from the single-threaded reply %r" % (
                    i, mats[i]["k"], (o["status"], (o["body"] or "")[:160]), (s[0], (s[1] or "")[:160])))
        return judge(mats, obs["conns"], obs["log"])

    def encode(self, case, obs):
        mats = [self.K.materialize(d) for d in case["conns"]]
        return encode_handlers(len(mats), obs["table"], mats, case["sched"], obs["conns"])

    def nontrivial(self, case, obs):
        return len(case["conns"]) >= 2 and obs["switches"] >= 1

    def kind(self, case, obs):
        ks = sorted(set(d["k"] for d in case["conns"]))
        bad = any(k in ("invalid_json", "invalid_req", "empty_body", "no_clen", "bad_clen", "short_clen", "bad_path", "fail", "notify_fail") for k in ks)
        return "%d conns / %s / %s" % (len(case["conns"]), "with bad or failing request" if bad else "all good",
                                       "interleaved" if obs["switches"] else "sequential")

    def describe(self, case, obs):
        return {"conns": case["conns"], "schedule_len": len(case["sched"]), "switches": obs["switches"],
                "replies": [(o["status"], (o["body"] or "")[:120], o["effects"]) for o in obs["conns"]]}

    def widen(self, rng):
        return self.gen("quick", rng)

    def shrink(self, case):
        for c in shrink_conns(case):
            n = len(c["conns"])
            yield dict(c, sched=[s % n for s in c["sched"]])
        if len(case["sched"]) > 1:
            yield dict(case, sched=case["sched"][:len(case["sched"]) // 2])


# ------------------------------------------------------------------------------------------------
SERVER_CONFIGS = [("plain", None), ("pooled", "default"), ("pooled", 1), ("pooled", 2), ("pooled", 30)]


class Sockets(pipeline.Stream):
    """(a) real sockets, OS scheduling (sampled)"""
    name = "sockets"
    model_imports = "Server"
    case_type = Handler.case_type
    check_fn = "c12_handler_check"
    shard = 40

    def setup(self):
        from harness.server_support import common, sockets
        self.K, self.S = common, sockets

    def gen(self, tier, rng):
        cases = []
        per_config = 3 if tier == "quick" else 30
        c = 0
        for (kind, pool) in SERVER_CONFIGS:
            for family in ("tcp", "unix"):
                for r in range(per_config):
                    c += 1
                    n = [1, rng.randint(2, 6), rng.choice([8, 12, 16])][r % 3] if tier == "quick" else rng.choice([1, 2, 3, 4, 5, 6, 8, 10, 12, 16])
                    kinds = KINDS_MODEL + ["slow", "slow", "long_clen", "abandon"] + (KINDS_RAW if r % 2 else [])
                    salt = "s%d" % c
                    if n > 6:
                        # a client that half-closes while the listen backlog (socketserver: 5) is overflowing is reset by the
                        # kernel before the server ever accepts it: an artefact of TCP, not of the library (measured: 11 of 96
                        # such connections with 16 concurrent clients, none with <= 8)
                        kinds = [k for k in kinds if k != "long_clen"]
                    conns = [gen_conn(rng, i, kinds, salt) for i in range(n)]
                    followups = [gen_conn(rng, 100 + i, ["call", "call", "notify", "invalid_json", "batch"], salt) for i in range(2)]
                    if r % 2 == 0:
                        followups.insert(0, gen_conn(rng, 104, ["long_clen"], salt))
                    followups.append(gen_conn(rng, 103, ["call"], salt))
                    cases.append({"server": kind, "pool": pool, "family": family, "conns": conns, "followups": followups,
                                  "msched": [rng.randrange(64) for _ in range(rng.randint(0, 120))]})
                # on every configuration: a client that leaves without reading (the handler's write fails, the error hook runs),
                # and a truncated body, next to a good call; then service must go on
                c += 1
                salt = "f%d" % c
                cases.append({"server": kind, "pool": pool, "family": family,
                              "conns": [gen_conn(rng, 0, ["abandon"], salt), gen_conn(rng, 1, ["call"], salt), gen_conn(rng, 2, ["long_clen"], salt)],
                              "followups": [gen_conn(rng, 100, ["call"], salt), gen_conn(rng, 101, ["fail"], salt), gen_conn(rng, 102, ["call"], salt)],
                              "msched": []})
        return cases

    def run_impl(self, case):
        return self.S.run_scenario(case)

    def fatal(self, case, obs):
        st = obs.get("stop", {})
        if bool(obs.get("stuck_clients")) or st.get("shutdown_returned") is False or st.get("close_returned") is False:
            return True
        # a connection that is owed a reply and got none (each one costs a client time-out): the scenario is judged, going on
        # would only wait out more time-outs
        K = self.K
        for descs, key in ((case["conns"], "conns"), (case.get("followups", []), "followups")):
            for d, c in zip(descs, obs.get(key, [])):
                if c.get("error") and K.materialize(d)["expect"]["kind"] != "none":
                    return True
        return False

    def oracle(self, case, obs):
        K = self.K
        mats = [K.materialize(d) for d in case["conns"]]
        fmats = [K.materialize(d) for d in case.get("followups", [])]
        if obs["stuck_clients"]:
            return ("C12:client-never-answered", "%d clients still waiting after %d s" % (obs["stuck_clients"], K.IO_TIMEOUT + K.HANG))
        bad = judge(mats, obs["conns"], obs["log"])
        if bad:
            return bad
        bad = judge(fmats, obs["followups"], obs["log"])
        if bad:
            return ("C12:service-degraded-after-concurrent-phase:" + bad[0].split(":", 1)[1], "follow-up request: " + bad[1])
        st = obs["stop"]
        if not st.get("shutdown_returned"):
            return ("C12:shutdown-hangs:serving", "shutdown() while serving did not return within %d s" % K.HANG)
        if not st.get("close_returned"):
            return ("C12:server_close-hangs:after-shutdown", "server_close() after shutdown() did not return within %d s" % K.HANG)
        if not st.get("socket_closed"):
            return ("C12:socket-open-after-close", "listening socket still open after server_close()")
        if not st.get("workers_dead"):
            return ("C12:pool-worker-alive-after-close", "a worker of the request pool is alive after server_close()")
        return None

    def encode(self, case, obs):
        K = self.K
        mats = [K.materialize(d) for d in case["conns"] + case.get("followups", [])]
        return encode_handlers(K.pool_size(case["server"], case.get("pool")), obs["table"], mats, case["msched"],
                               obs["conns"] + obs["followups"])

    def nontrivial(self, case, obs):
        return len(case["conns"]) >= 2

    def kind(self, case, obs):
        n = len(case["conns"])
        ks = set(d["k"] for d in case["conns"])
        return "%s%s / %s / %s clients%s%s" % (
            case["server"], "" if case["server"] == "plain" else "(%s)" % case["pool"], case["family"],
            "1" if n == 1 else "2-6" if n <= 6 else "7-16", " / slow" if "slow" in ks else "",
            " / raw garbage" if ks & set(KINDS_RAW) else "")

    def describe(self, case, obs):
        return {"server": case["server"], "pool": case.get("pool"), "family": case["family"], "conns": case["conns"],
                "followups": case.get("followups", []),
                "replies": [(o["status"], (o["body"] or "")[:100], o["effects"]) for o in obs.get("conns", [])],
                "stop": obs.get("stop")}

    def widen(self, rng):
        return self.gen("quick", rng)

    def shrink(self, case):
        for c in shrink_conns(case):
            yield c
        for c in shrink_conns(case, "followups"):
            yield c
        if case["server"] == "pooled" and case.get("pool") != 1:
            yield dict(case, pool=1)
        if case["family"] == "unix":
            yield dict(case, family="tcp")


# ------------------------------------------------------------------------------------------------
def legal_histories(kind, cap, maxlen):
    """every API-legal call sequence of length <= maxlen (all prefixes included), see ASSUMPTIONS"""
    out = []

    def rec(h, phase, inflight, slow_total):
        if h:
            out.append(list(h))
        if len(h) == maxlen:
            return
        if phase == "fresh":
            rec(h + ["C"], "ready", 0, 0)
        elif phase == "ready":
            rec(h + ["S"], "serving", inflight, slow_total)
            rec(h + ["CL"], "closed", 0, slow_total)
        elif phase == "serving":
            if kind == "plain":
                if inflight == 0:
                    rec(h + ["Rf"], phase, 0, slow_total)
                    rec(h + ["Rs"], phase, 1, slow_total + 1)
                rec(h + ["SD"], "ready", 0, slow_total)
            else:
                rec(h + ["Rf"], phase, inflight, slow_total)
                if slow_total + 1 < cap:
                    rec(h + ["Rs"], phase, inflight + 1, slow_total + 1)
                rec(h + ["SD"], "ready", inflight, slow_total)
                rec(h + ["CL"], "closed", 0, slow_total)
    rec([], "fresh", 0, 0)
    return out


LIFE_CONFIGS = [("plain", None), ("pooled", "default"), ("pooled", 1), ("pooled", 2)]


class _Worker(object):
    def __init__(self):
        e = dict(os.environ, VERIF_REPO=env.REPO, PYTHONHASHSEED="0", PYTHONDONTWRITEBYTECODE="1")
        self.p = subprocess.Popen([sys.executable, "-B", "-m", "harness.server_support.life_worker"], cwd=env.VERIF, env=e,
                                  stdin=subprocess.PIPE, stdout=subprocess.PIPE, stderr=subprocess.DEVNULL, text=True)

    def ask(self, case, timeout):
        """-> observation dict or None (worker died / no answer in time)"""
        box = {}

        def rd():
            try:
                self.p.stdin.write(json.dumps(case) + "\n")
                self.p.stdin.flush()
                box["line"] = self.p.stdout.readline()
            except Exception as ex:    # noqa
                box["err"] = ex
        t = threading.Thread(target=rd, daemon=True)
        t.start()
        t.join(timeout)
        line = box.get("line")
        if not line:
            self.kill()
            return None
        return json.loads(line)

    def alive(self):
        return self.p.poll() is None

    def kill(self):
        try:
            self.p.kill()
        except Exception:     # noqa
            pass
        try:
            self.p.wait(5)
        except Exception:     # noqa
            pass


def run_life_batch(cases, jobs=8):
    """the lifecycle histories run in subprocesses that can be killed: a hung call never hangs the check"""
    from harness.server_support import common as K
    todo = queue.Queue()
    for i, c in enumerate(cases):
        todo.put((i, c))
    results = [None] * len(cases)

    def drive():
        w = None
        while True:
            try:
                i, c = todo.get_nowait()
            except queue.Empty:
                break
            if w is None or not w.alive():
                w = _Worker()
            budget = (len(c["history"]) + 6) * c.get("hang", K.HANG) + 30
            r = w.ask(c, budget)
            if r is None:                      # the worker was gone: once more with a fresh one
                w = _Worker()
                r = w.ask(c, budget)
            if r is None:
                r = {"harness_error": "lifecycle worker died or timed out", "returned": 0, "hung_op": 0}
            if r.pop("_dirty", False):         # it had a hung call: its threads cannot be recovered
                w.kill()
                w = None
            results[i] = r
        if w is not None:
            try:
                w.p.stdin.close()
            except Exception:     # noqa
                pass
            w.kill()
    threads = [threading.Thread(target=drive, daemon=True) for _ in range(min(jobs, max(1, len(cases))))]
    for t in threads:
        t.start()
    for t in threads:
        t.join()
    return results


class Life(pipeline.Stream):
    """(c) all API-legal lifecycle histories up to a length bound, every call under a watchdog"""
    name = "lifecycle"
    model_imports = "Server"
    case_type = "kind * list op * (nat * bool * option bool * bool)"
    check_fn = "c12_life_check"
    shard = 400

    def setup(self):
        from harness.server_support import common
        self.K = common
        self._pending = None
        self._cache = {}

    @staticmethod
    def _key(case):
        return json.dumps(case, sort_keys=True)

    def gen(self, tier, rng):
        maxlen = 5 if tier == "quick" else 7
        cases = []
        for (kind, pool) in LIFE_CONFIGS:
            cap = self.K.pool_size(kind, pool)
            hs = legal_histories(kind, cap, maxlen)
            for family in ("tcp", "unix"):
                for h in hs:
                    cases.append({"kind": kind, "pool": pool, "family": family, "history": h})
                if kind == "pooled":
                    cases.append({"kind": kind, "pool": pool, "family": family, "history": ["CX"]})
        if tier == "thorough":      # the stop sequences once more, several times each (other OS schedules)
            for rep in range(5):
                for (kind, pool) in LIFE_CONFIGS:
                    for h in (["C", "CL"], ["C", "S", "SD", "CL"], ["C", "S", "Rf", "SD", "CL"], ["C", "S", "SD", "S", "SD", "CL"]):
                        cases.append({"kind": kind, "pool": pool, "family": "tcp", "history": h, "rep": rep})
        self._pending = list(cases)
        return cases

    def run_impl(self, case):
        if self._pending:
            batch, self._pending = self._pending, None
            for c, r in zip(batch, run_life_batch(batch)):
                self._cache[self._key(c)] = r
        k = self._key(case)
        if k in self._cache:
            return self._cache.pop(k)
        return run_life_batch([case], jobs=1)[0]

    def oracle(self, case, obs):
        h = case["history"]
        if obs.get("harness_error"):
            return ("C12:lifecycle-harness-error", obs["harness_error"])
        if obs.get("hung_op") is not None:
            i = obs["hung_op"]
            o = h[i]
            if obs.get("raised"):
                return ("C12:%s-raises" % OPNAME[o], "call %d (%s) of %s raised %s (%s)" % (i, o, h, obs["raised"], obs["notes"]))
            served = "S" in h[:i]
            serving = served and "SD" not in h[max(j for j in range(i) if h[j] == "S"):i]
            ctx = "while-serving" if serving else "after-shutdown" if served else "never-served"
            return ("C12:%s-hangs:%s" % (OPNAME[o], ctx),
                    "call %d (%s) of history %s on a %s server did not return within %d s (in-flight requests had completed)" % (
                        i, OPNAME[o], h, case["kind"], self.K.HANG))
        if h == ["CX"]:
            if obs.get("ctor_raised") != "OSError":
                return ("C12:constructor-on-taken-address", "expected OSError, got %s" % obs.get("ctor_raised"))
            if obs.get("workers_dead") is False:
                return ("C12:pool-worker-alive-after-close", "bind failed, server_close() ran, but a worker of the pool is alive: %s" % obs["notes"])
            return None
        if not obs.get("replies_ok", True):
            return ("C12:request-not-answered", "a request of history %s did not get its own reply: %s" % (h, obs["notes"]))
        if "S" in h:
            last_s = len(h) - 1 - h[::-1].index("S")
            stopped = any(o in ("SD", "CL") for o in h[last_s:])
            if stopped and obs.get("serve_alive"):
                return ("C12:serving-loop-alive-after-stop", "the serve_forever thread is still running %d s after the stop call of %s returned" % (self.K.HANG, h))
            if not stopped and obs.get("serve_alive") is False:
                return ("C12:serving-loop-died", "the serve_forever thread ended although nobody stopped it in %s" % h)
        if "CL" in h:
            if obs.get("socket_open"):
                return ("C12:socket-open-after-close", "listening socket still open after server_close() in %s" % h)
            if obs.get("workers_dead") is False:
                return ("C12:pool-worker-alive-after-close", "after server_close() in %s: %s" % (h, obs["notes"]))
        return None

    def encode(self, case, obs):
        h = case["history"]
        if "CX" in h or obs.get("harness_error"):
            return None
        closed = "CL" in h and obs.get("returned") == len(h)
        wd = "(Some %s)" % G.g_bool(bool(obs.get("workers_dead"))) if closed else "None"
        return "(%s, %s, (%d%%nat, %s, %s, %s))" % (
            "Plain" if case["kind"] == "plain" else "Pooled", G.g_list([OPS[o] for o in h]),
            obs.get("returned", 0), G.g_bool(bool(obs.get("socket_open"))), wd, G.g_bool(bool(obs.get("serve_alive"))))

    def nontrivial(self, case, obs):
        return "CL" in case["history"] or "SD" in case["history"] or "CX" in case["history"]

    def kind(self, case, obs):
        h = case["history"]
        what = ("close without serving" if "CL" in h and "S" not in h else
                "bind failure in constructor" if "CX" in h else
                "close while serving" if "CL" in h and h[h.index("CL") - 1] != "SD" and "S" in h and "SD" not in h[len(h) - 1 - h[::-1].index("S"):] else
                "shutdown then close" if "CL" in h else "shutdown only" if "SD" in h else "no stop call")
        return "%s%s / %s / %s%s" % (case["kind"], "" if case["kind"] == "plain" else "(%s)" % case["pool"], case["family"], what,
                                     " / in-flight" if "Rs" in h else "")

    def describe(self, case, obs):
        return {"server": case["kind"], "pool": case.get("pool"), "family": case["family"], "history": case["history"],
                "calls_returned": obs.get("returned"), "hung_call": obs.get("hung_op"), "socket_open": obs.get("socket_open"),
                "workers_dead": obs.get("workers_dead"), "serving_thread_alive": obs.get("serve_alive"), "notes": obs.get("notes")}

    def shrink(self, case):
        h = case["history"]
        cap = self.K.pool_size(case["kind"], case.get("pool"))
        legal = set(tuple(x) for x in legal_histories(case["kind"], cap, len(h)))
        for i in range(len(h)):
            c = h[:i] + h[i + 1:]
            if tuple(c) in legal:
                yield dict(case, history=c)
        if case["family"] == "unix":
            yield dict(case, family="tcp")

    def widen(self, rng):
        return []


from harness.pool_support import common as PC     # noqa: E402


def _pool_oracle(case, o):
    bad = PC.oracle_c09(case, o) or PC.oracle_c11(case, o)
    return None if bad is None else ("C12:request-pool:" + bad[0], bad[1])


class PoolDependency(PC.PoolStream):
    """"no lost or duplicated executions" and "every worker of the request pool it stops terminates" are, for the
    pooled server, the thread pool's guarantees (Props/C09.v, Props/C11.v) composed with the server's one
    enqueue per accepted request: the pool model is re-validated here against the real ThreadPool in lock-step
    under the controlled scheduler, judged by the exactly-once and join/stop oracles."""
    name = "pool"
    n_quick = 120
    n_thorough = 1500
    oracle_fn = staticmethod(_pool_oracle)


class BoundedPool(PC.BoundedStream):
    """user-supplied pools with a bounded queue: implementation + oracle only"""
    name = "pool-bounded"
    n_quick = 60
    n_thorough = 600
    oracle_fn = staticmethod(_pool_oracle)


def streams():
    return [Handler(), Sockets(), Life(), PoolDependency(), BoundedPool()]
