"""C03 -- responses echo the request id; batches answer one-to-one and in order."""
import itertools
import json

from harness.core import values as V
from harness.dispatch_support import core as K, gen as GN, stream as S

PROP_ID = "C03"
MANIFEST_ENTRY = {
    "text": ("Theorems over all entries and all batches (induction over the entry list; Coq, closed under the global context) "
             "about a Gallina model of validate_request / _marshaled_single_dispatch / _unmarshaled_dispatch / "
             "_marshaled_dispatch / _dispatch: every answer carries the entry's usable id, the answers of a batch are the "
             "answers of its non-notification entries in order, an all-notification batch yields the empty body. The model is "
             "checked against the real dispatcher (ids, codes, invocation logs) on every run."),
    "note": ("JSON text parsing, the class translator, jsonclass.dump of results and json.dumps are modelled components; "
             "server version in {1.0, 2.0}; C03_multicall_positions is stated server-side (positions of answers = positions of "
             "answerable entries); the client half is C06_same_at_every_batch_position."),
    "technique": "Coq proof over a hand-written executable model + differential correspondence check (vm_compute) + property oracle",
    "design_ref": "DESIGN.md 4/C03",
}
ANCHOR_RANGES = [("jsonrpclib/SimpleJSONRPCServer.py", 98, 170), ("jsonrpclib/SimpleJSONRPCServer.py", 210, 400),
                 ("jsonrpclib/jsonrpc.py", 1004, 1086), ("jsonrpclib/jsonrpc.py", 1159, 1192)]
RULE = ("batches of length <= 3 over 11 entry kinds (ok / raising / unknown / bad-arity / conversion-failure / kwargs call, "
        "invalid non-dict, invalid dict, bad method type, scalar params, no version marker) with ids drawn from IDS (absent, null, '', "
        "'a', 0, -1, 1.5, 0.0, true, false, [1], [], {'a':1}, {}, 10^20), both request forms, x server version x 8 dispatch "
        "kinds (default, instance, custom function returning / raising / returning None, instance _dispatch returning / raising / "
        "raising AttributeError); single requests over the full kind x id product; random batches up to length 12. "
        "Non-trivial: at least one entry with an id other than a string, or a batch of >= 2 entries. Distinct by case hash."
        " Added after the seeded rounds: entries whose jsonrpc member is any JSON value (null, arrays, objects, true, numbers, '1.0', 'two'); the `overlap` stream of C04 under C03's clauses (ids and pairing when two requests overlap or one is dispatched from inside the other's method).")
TRUSTED = ["modelled, not verified: json.loads / class translation of the body (the model's input is the outcome of jsonrpclib.loads), "
           "jsonclass.dump of results, json.dumps, CPython argument binding (model: call_binds)",
           "invocation logging wrappers around generated callables (harness/dispatch_support/core.py)"]
ASSUMPTIONS = ["server Config.version in {1.0, 2.0}",
               "callables return JSON-representable values, raise ordinary exceptions, or return a value whose conversion raises"]


class Main(S.DispatchStream):
    name = "main"

    def gen(self, tier, rng):
        cases = []
        kinds = list(GN.ENTRY_KINDS)
        dkinds = list(GN.DISPATCH_KINDS)

        def entry(kind):
            return GN.ENTRY_KINDS[kind](rng.choice(GN.IDS), rng.random() < 0.6)

        # singles: every kind x every id x both forms, on a rotating (version, dispatch) pair + the F1 witnesses
        combos = list(itertools.product([1.0, 2.0], dkinds))
        n = 0
        for kind, rid, v2 in itertools.product(kinds, GN.IDS, [True, False]):
            for rep in range(2 if tier == "quick" else len(combos)):
                ver, dk = combos[(n + rep * 5) % len(combos)] if tier == "quick" else combos[rep]
                c = GN.base_case(ver, dk)
                c["body"] = json.dumps(GN.ENTRY_KINDS[kind](rid, v2))
                cases.append(c)
            n += 1
        # every real id through every dispatch kind (the exception paths of F1)
        for rid, dk, ver in itertools.product(GN.REAL_IDS, dkinds, [1.0, 2.0]):
            for kind in ("ok-call", "conversion-fails"):
                c = GN.base_case(ver, dk)
                c["body"] = json.dumps(GN.ENTRY_KINDS[kind](rid, ver == 2.0))
                cases.append(c)
        # exhaustive batches of length <= 3 over the kinds (ids and forms drawn), sampled in the quick tier
        small = [list(t) for r in (1, 2, 3) for t in itertools.product(kinds, repeat=r)]
        if tier == "quick":
            small = small[:len(kinds) + len(kinds) ** 2] + rng.sample(small[len(kinds) + len(kinds) ** 2:], 500)
        for ks in small:
            for rep in range(1 if tier == "quick" else 3):
                c = GN.base_case(rng.choice([1.0, 2.0]), rng.choice(dkinds))
                c["body"] = json.dumps([entry(k) for k in ks])
                cases.append(c)
        # all-notification batches (empty body, not an empty array)
        for ln in (1, 2, 3, 5):
            for dk in dkinds:
                c = GN.base_case(rng.choice([1.0, 2.0]), dk)
                c["body"] = json.dumps([GN.ENTRY_KINDS[rng.choice(kinds[:6])](rng.choice([GN.ABSENT, None, ""]), True) for _ in range(ln)])
                cases.append(c)
        # ids that hold a class descriptor somewhere (class translation on): the translated id cannot be echoed, so the
        # entry has "no usable id" -- answered with id null, never by an exception out of the dispatcher (finding F15)
        desc = {"__jsonclass__": ["fractions.Fraction", [1, 3]]}
        for rid in (desc, [desc], {"k": desc}, [1, [desc]], {"a": {"b": [desc]}}):
            for ver, dk in itertools.product([1.0, 2.0], ["default", "custom-returns", "instance-dispatch-raises"]):
                for body in (GN.req("ok", [1], rid, ver == 2.0), [GN.req("ok", [1], rid), GN.req("ok", [2], 8)]):
                    c = GN.base_case(ver, dk, jsonclass=True)
                    c["body"] = json.dumps(body)
                    cases.append(c)
        # random longer batches
        for _ in range(300 if tier == "quick" else 6000):
            c = GN.base_case(rng.choice([1.0, 2.0]), rng.choice(dkinds), jsonclass=rng.random() < 0.85)
            c["body"] = json.dumps([entry(rng.choice(kinds)) for _ in range(rng.randint(1, 12))])
            cases.append(c)
        return cases

    # ---------------------------------------------------------------- oracle (from the statement)
    def masked(self, case, obs):
        # a result whose conversion is switched off is outside the property's callables
        return not case.get("jsonclass", True) and any(ev[0] == "call" and ev[1] == GN.OPQ for ev in obs["log"])

    def oracle(self, case, obs):
        ent = self.entries(case)
        if ent is None:
            return None
        is_batch, entries = ent
        if obs["raised"] is not None:
            return ("C03:dispatcher-raised", "dispatcher raised %s" % type(obs["raised"]).__name__)
        pr = K.parse_reply(obs["text"])
        if pr[0] == "notjson":
            return ("C03:reply-not-json", pr[1])
        if not is_batch and (not entries[0]):
            return None          # falsy top-level value: a single invalid request, covered by the generic rule below
        expected = [e for e in entries if not S.is_notification(e)]
        if not expected:
            if pr[0] != "empty":
                return ("C03:answer-to-notifications-only", "no entry expects a response but the body is %r" % obs["text"][:200])
            return None
        if pr[0] == "empty":
            return ("C03:missing-response", "%d entries expect a response, empty body" % len(expected))
        got = pr[1]
        if is_batch:
            if not isinstance(got, list):
                return ("C03:batch-not-answered-by-array", "batch answered by %r" % (got,))
        else:
            got = [got]
        if len(got) != len(expected):
            return ("C03:response-count", "%d entries expect a response, %d responses" % (len(expected), len(got)))
        for pos, (e, o) in enumerate(zip(expected, got)):
            if not isinstance(o, dict) or "id" not in o:
                return ("C03:response-without-id", "response %d: %r" % (pos, o))
            usable = isinstance(e, dict) and "id" in e and e["id"] is not None and e["id"] != ""
            if usable and case.get("jsonclass", True) and "__jsonclass__" in json.dumps(e["id"]):
                usable = False       # the class translator turns this id into an object that is no JSON value
            if usable:
                if not V.same(o["id"], e["id"]):
                    return ("C03:id-not-echoed", "entry %d has id %r, its response carries %r" % (pos, e["id"], o["id"]))
            else:
                same = isinstance(e, dict) and "id" in e and V.same(o["id"], e["id"])
                if not (o["id"] is None or same):
                    return ("C03:id-invented", "entry %d has no usable id, its response carries %r" % (pos, o["id"]))
        return None

    def nontrivial(self, case, obs):
        ent = self.entries(case)
        if ent is None:
            return False
        return len(ent[1]) >= 2 or any(isinstance(e, dict) and "id" in e and not isinstance(e["id"], str) for e in ent[1])

    def kind(self, case, obs):
        ent = self.entries(case)
        n = 0 if ent is None else len(ent[1])
        size = "single" if ent and not ent[0] else ("batch<=3" if n <= 3 else "batch>3")
        return "%s / %s / v%s" % (size, case.get("kind"), case["ver"])


from harness.props import c04 as C04      # noqa: E402


class Overlap(C04.Overlap):
    """ids and pairing when two requests overlap on one dispatcher (two handler threads, or a method that dispatches another
    request on the same dispatcher): every response carries the id of ITS request (C04's `overlap` stream under C03's clauses)"""
    PREFIX = "C03"


def streams():
    return [Main(), Overlap()]
