"""C20 -- serialisation customisation is honoured at every depth."""
from harness.core import pipeline, gallina as G
from harness.jsonclass_support import world as W, worldgen as WG
from harness.props.c07 import WorldStream, outcome, d_outcome

from harness.jsonclass_support import anchors

PROP_ID = "C20"
MANIFEST_ENTRY = {
    "text": ("Theorems (Coq, closed under the global context) over all values, class tables, handler tables (arbitrary handler "
             "functions), ignore lists and configured names about a Gallina model of jsonclass.dump: a handler registered for the "
             "exact type of a traversed object is applied and its result emitted verbatim before any built-in handling, at every "
             "position dump traverses (list/tuple/set items, dict values, fields of automatically serialised objects); no other "
             "type's handler is applied; names in the object's ignore list or in the ignore argument never become keys of its "
             "dumped form; the serialisation method / ignore attribute consulted are the configured (or explicitly given) ones; "
             "fields of neither a supported nor a handled type are omitted without failure. The model is checked against the real "
             "code on generated class worlds x handler tables x ignore lists x name spellings on every run."),
    "note": ("class behaviour (attribute protocol, isinstance against handler types, generated serialisation methods) is in the class "
             "table (modelled); handler return values are arbitrary in the theorems and three fixed behaviours in the correspondence; "
             "a field whose VALUE equals an entry of the ignore list is also dropped by the code (line 205) -- outside the statement, "
             "masked by the oracle and modelled faithfully."),
    "technique": "Coq proof over a hand-written executable model + differential correspondence check (vm_compute) + property oracle",
    "design_ref": "DESIGN.md 4/C20",
}
ANCHOR_RANGES = anchors.func_ranges([("jsonrpclib/jsonclass.py", "dump")])
RULE = ("generated class worlds of C07 with class-level and instance-level ignore lists (subsets of the field names plus foreign names, "
        "under the configured or another attribute name) x handler tables (0-3 entries over tuple, str, int, dict, list, user classes, "
        "datetime.date, complex, function; None entries; subclasses of handled classes) x per-call ignore lists x spellings of the "
        "names (config default, config custom, explicit argument, both, empty string) x object graphs of depth <= 4 whose fields also "
        "hold beans, enum members, Decimals, library objects and functions directly. Non-trivial: a handler, an ignore list or a "
        "non-default name is in play, or a field holds an unsupported value. Distinct by canonical hash of the case."
        ' Added after the seeded rounds: configurations derived with Config.copy(); handlers registered on a Config that has already been used for a dump (30% of the cases).')
TRUSTED = ["modelled, not verified: attribute protocol, isinstance(value, handler types) as class-table ancestry, set.difference_update / "
           "`in` on ignore lists as Python == on names and values",
           "handlers used in correspondence runs: constant, wrap-the-object, non-JSON shape, raising"]
ASSUMPTIONS = ["ignore lists are lists of hashable entries (DESIGN 4/C20 reading); the return value of a handler and (params, attrs) of a "
               "serialisation method are emitted verbatim and not traversed",
               "a field whose value coincides with an ignore-list entry is outside the statement (masked)"]

HANDLED_BUILTINS = {"tuple": tuple, "str": str, "int": int, "dict": dict, "list": list}
G_TY = {"tuple": "TTuple", "str": "TStr", "int": "TInt", "dict": "TDict", "list": "TList"}
DATE = dict(W.cdesc("datetime.date", "slot", "datetime", "date", params=["year", "month", "day"]), external="datetime.date")


def py_handler(hid):
    def h0(obj, sm, ia, ign, cfg):
        return "H0"

    def h1(obj, sm, ia, ign, cfg):
        return {"h1": obj}

    def h2(obj, sm, ia, ign, cfg):
        return ["h2", (obj,)]

    def h3(obj, sm, ia, ign, cfg):
        raise ValueError("handler refuses")
    return [h0, h1, h2, h3][hid]


def expected_handler_output(hid, v):
    return ["H0", {"h1": v}, ["h2", (v,)]][hid]


def type_key(v):
    """the exact type of a view node, as a handler-table key"""
    if isinstance(v, W.Inst):
        return ("class", v.cid)
    if isinstance(v, W.EnumV):
        return ("class", v.cid)
    if isinstance(v, W.Dec):
        return ("class", "decimal.Decimal")
    if isinstance(v, W.Opaque):
        return ("opaque", v.tag)
    if isinstance(v, W.SetSeq):
        return ("builtin", "frozenset" if v.frozen else "set")
    if v is None:
        return ("builtin", "NoneType")
    return ("builtin", type(v).__name__)


def unview(v):
    """view (SetSeq) -> descriptor tree"""
    if isinstance(v, W.SetSeq):
        items = [unview(x) for x in v.items]
        return frozenset(items) if v.frozen else set(items)
    if isinstance(v, list):
        return [unview(x) for x in v]
    if isinstance(v, tuple):
        return tuple(unview(x) for x in v)
    if isinstance(v, dict):
        return {k: unview(x) for k, x in v.items()}
    if isinstance(v, W.Inst):
        return W.Inst(v.cid, [(k, unview(x)) for k, x in v.fields])
    return v


class Custom(WorldStream):
    name = "custom"
    case_type = "nat * config * option str * option str * option (list val) * val * res val"
    check_fn = "(c20_check WS)"
    n_worlds = {"quick": 8, "thorough": 16}
    per_world = {"quick": 200, "thorough": 500}

    def setup(self):
        WorldStream.setup(self)
        import jsonrpclib.jsonclass as JC
        import jsonrpclib.config as C
        self.JC, self.C = JC, C

    # ------------------------------------------------------------ generation
    def gen(self, tier, rng):
        cases = []
        for k in range(self.n_worlds[tier]):
            descs = WG.gen_world(rng, "c%d" % k, with_ignore=True) + [DATE]
            user = [d["cid"] for d in descs if d["kind"] in ("dict", "slot", "ser_list", "ser_dict")]
            for i in range(self.per_world[tier]):
                v = WG.rand_custom_value(rng, descs, rng.randint(1, 4)) if i % 3 else WG.rand_custom_instance(rng, descs, 3)
                if rng.random() < 0.15:
                    v = [v, W.Inst("datetime.date", []), (1, "s")]
                handlers = []
                for _ in range(rng.choice([0, 0, 1, 2, 3])):
                    r = rng.random()
                    if r < 0.45:
                        key = ("builtin", rng.choice(sorted(HANDLED_BUILTINS)))
                    elif r < 0.8:
                        key = ("class", rng.choice(user + ["datetime.date", "decimal.Decimal"]))
                    else:
                        key = ("opaque", rng.choice([0, 1]))
                    if key not in [h[0] for h in handlers]:
                        hid = rng.choice([0, 1, 1, 2, None, 3 if rng.random() < 0.2 else 1])
                        if key[0] == "opaque" and hid is None:
                            # a None entry makes the type "known" (jsonclass.py:192) without handling it: the
                            # function object is then dumped as an attribute-less bean, which the statement
                            # does not speak about and the model cannot describe (DESIGN.md, false alarms)
                            hid = 1
                        handlers.append((key, hid))
                names = sorted(set(k2 for d in descs for k2 in WG.all_field_names(None, descs, d))) + ["zz", "nope", "extra"]
                case = {"world": descs, "value": v, "handlers": handlers,
                        "cfg_sm": rng.choice(["_serialize", "_serialize", "_custom_ser"]),
                        "cfg_ia": rng.choice(["_ignore", "_ignore", "_other_ignore"]),
                        "sm_arg": rng.choice([None, None, None, "", "_serialize", "_custom_ser", "_nosuch"]),
                        "ia_arg": rng.choice([None, None, None, "", "_ignore", "_other_ignore"]),
                        "ign_arg": rng.choice([None, None, []] + [rng.sample(names, rng.randint(1, min(4, len(names))))] * 2),
                        "copies": rng.choice([0, 0, 1, 2]), "late": rng.random() < 0.3}
                cases.append(case)
        return cases

    # ------------------------------------------------------------ implementation run
    def handler_table(self, w, handlers):
        import types
        table = {}
        for (kind, key), hid in handlers:
            if kind == "builtin":
                t = HANDLED_BUILTINS[key]
            elif kind == "class":
                t = w.classes[key]
            else:
                t = [types.FunctionType, complex][key]
            table[t] = None if hid is None else py_handler(hid)
        return table

    def run_impl(self, case):
        i, w = self.world_of(case)
        obj = w.build(case["value"])
        view = w.model_view(obj)
        if case.get("late"):
            # the handlers are registered on a configuration that has already been used for a dump: a Config is a live object,
            # what counts is its content at the time of the call
            cfg = self.C.Config(serialize_method=case["cfg_sm"], ignore_attribute=case["cfg_ia"])
            try:
                self.JC.dump(w.build(case["value"]), case["sm_arg"], case["ia_arg"], None, cfg)
            except Exception:      # noqa  (the warm-up dump may legitimately fail without the handlers)
                pass
            cfg.serialize_handlers.update(self.handler_table(w, case["handlers"]))
        else:
            cfg = self.C.Config(serialize_method=case["cfg_sm"], ignore_attribute=case["cfg_ia"],
                                serialize_handlers=self.handler_table(w, case["handlers"]))
        # a configuration derived with Config.copy() must customise the dump in the same way
        for _ in range(case.get("copies", 0)):
            cfg = cfg.copy()
        ign = None if case["ign_arg"] is None else list(case["ign_arg"])
        d = outcome(lambda: self.JC.dump(obj, case["sm_arg"], case["ia_arg"], ign, cfg))
        if d[0] == "ok":
            d = ("ok", w.abstract(d[1]))
        return {"world": i, "view": view, "dump": d}

    # ------------------------------------------------------------ oracle, from the statement
    def oracle(self, case, obs):
        descs = case["world"]
        handlers = dict(case["handlers"])
        sm = case["sm_arg"] or case["cfg_sm"]
        ia = case["ia_arg"] or case["cfg_ia"]
        ign = list(case["ign_arg"] or [])
        raising = any(h == 3 for h in handlers.values())
        if obs["dump"][0] != "ok":
            if raising and type(obs["dump"][1]).__name__ == "ValueError":
                return None
            return ("C20:dump-fails", "dump raised %s: %s" % (type(obs["dump"][1]).__name__, obs["dump"][1]))

        def mro(cid):
            d = WG.by(descs, cid)
            out = [d]
            for b in d["bases"]:
                out += mro(b)
            return out

        def dump_name(d):
            return d["name"] if d["module"] in ("", W.MAIN) else d["module"] + "." + d["name"]

        def handled_exact(v):
            return type_key(v) in handlers

        def handled_by_ancestor(v):
            if isinstance(v, (W.Inst, W.EnumV)):
                return any(("class", a["cid"]) in handlers for a in mro(v.cid)[1:])
            if isinstance(v, bool):
                return ("builtin", "int") in handlers
            return False

        def supported_type(v):
            return v is None or isinstance(v, (bool, int, float, str, list, tuple, dict, W.SetSeq))

        def coincides(x, ignore):
            if isinstance(x, (W.Inst, W.EnumV, W.Dec, W.Opaque, W.SetSeq, list, tuple, dict)):
                return False
            return any(type(e) in (str, int, float, bool, type(None)) and e == x for e in ignore)

        def check(v, out, where):
            tk = type_key(v)
            if tk in handlers and handlers[tk] is not None:
                hid = handlers[tk]
                if hid == 3:
                    return ("C20:handler-not-used", "%s: a raising handler is registered for %r but dump succeeded" % (where, tk))
                want = expected_handler_output(hid, unview(v))
                if not W.dv_same(out, want):
                    return ("C20:handler-not-used-verbatim", "%s: handler %d registered for %r, dumped %r, expected %r" % (where, hid, tk, out, want))
                return None
            if v is None or isinstance(v, (bool, int, float, str)):
                return None if W.dv_same(out, v) else ("C20:primitive-changed", "%s: %r dumped as %r" % (where, v, out))
            if isinstance(v, (list, tuple, W.SetSeq)):
                items = v.items if isinstance(v, W.SetSeq) else list(v)
                if type(out) is not list or len(out) != len(items):
                    return ("C20:container-shape", "%s: %r dumped as %r" % (where, v, out))
                for j, (x, o) in enumerate(zip(items, out)):
                    bad = check(x, o, "%s[%d]" % (where, j))
                    if bad:
                        return bad
                return None
            if isinstance(v, dict):
                if type(out) is not dict or set(out) != set(v):
                    return ("C20:container-shape", "%s: %r dumped as %r" % (where, v, out))
                for k, x in v.items():
                    bad = check(x, out[k], "%s[%r]" % (where, k))
                    if bad:
                        return bad
                return None
            if isinstance(v, (W.Dec, W.EnumV)):
                return None       # C07's subject
            if isinstance(v, W.Opaque):
                return ("C20:unexpected", "%s: opaque value reached" % where)
            # ---- an instance
            d = WG.by(descs, v.cid)
            if type(out) is not dict or "__jsonclass__" not in out:
                return ("C20:bean-shape", "%s: instance dumped as %r" % (where, out))
            fields = dict(v.fields)
            if sm in fields:
                return None       # an attribute shadows the method name: outside the statement
            ser = [a for a in mro(v.cid) if sm and a["ser_name"] == sm]
            if ser:
                params = [fields[p] for p in ser[0]["params"]]
                want_params = dict(zip(ser[0]["params"], params)) if ser[0]["kind"] == "ser_dict" else params
                if not W.dv_same(out["__jsonclass__"], [dump_name(d), unview(want_params)]):
                    return ("C20:configured-method-not-consulted", "%s: class defines %r = configured method, dumped %r" % (where, sm, out["__jsonclass__"]))
                for k, x in v.fields:
                    if k not in ser[0]["params"] and (k not in out or not W.dv_same(out[k], unview(x))):
                        return ("C20:method-attrs-not-verbatim", "%s: attribute %r of the serialisation method's map missing or altered" % (where, k))
                return None
            if not W.dv_same(out["__jsonclass__"], [dump_name(d), []]):
                return ("C20:wrong-method-consulted", "%s: no method named %r on the class, yet dumped %r" % (where, sm, out["__jsonclass__"]))
            if ia in fields:
                own = fields[ia]
            else:
                own = [a["ign"][1] for a in mro(v.cid) if a["ign"] is not None and a["ign"][0] == ia]
                own = own[0] if own else []
            if not isinstance(own, list):
                return None
            ignore = list(own) + ign
            for k, x in v.fields:
                if k in ignore:
                    if k in out:
                        return ("C20:ignored-attribute-dumped", "%s: %r is in the ignore list %r but was dumped (keys %r)" % (where, k, ignore, sorted(out)))
                elif coincides(x, ignore):
                    continue
                elif supported_type(x) or handled_exact(x):
                    if k not in out:
                        return ("C20:field-missing", "%s: field %r (%r) was not dumped; ignore list %r" % (where, k, x, ignore))
                    bad = check(x, out[k], "%s.%s" % (where, k))
                    if bad:
                        return bad
                elif handled_by_ancestor(x):
                    continue
                elif k in out:
                    return ("C20:unsupported-field-not-omitted", "%s: field %r holds %r (neither supported nor handled) but was dumped" % (where, k, x))
            extra = set(out) - set(fields) - {"__jsonclass__"}
            if extra:
                return ("C20:extra-keys", "%s: keys %r are no fields of the object" % (where, sorted(extra)))
            return None
        return check(obs["view"], obs["dump"][1], "$")

    # ------------------------------------------------------------ correspondence
    def g_cfg(self, case):
        hs = []
        for (kind, key), hid in case["handlers"]:
            t = G_TY[key] if kind == "builtin" else ("(TClass %s)" % G.g_str(key) if kind == "class" else "(TOpaque %d%%N)" % key)
            hs.append("(%s, %s)" % (t, "None" if hid is None else "(Some %d%%N)" % hid))
        return "(mkCfg true %s %s %s [])" % (G.g_str(case["cfg_sm"]), G.g_str(case["cfg_ia"]), G.g_list(hs))

    def encode(self, case, obs):
        def opt(s):
            return "None" if s is None else "(Some %s)" % G.g_str(s)
        ign = "None" if case["ign_arg"] is None else "(Some %s)" % G.g_list([W.g_dv(x) for x in case["ign_arg"]])
        return "(%d%%nat, %s, %s, %s, %s, %s, %s)" % (obs["world"], self.g_cfg(case), opt(case["sm_arg"]), opt(case["ia_arg"]), ign,
                                                     W.g_dv(obs["view"]), W.g_outcome(obs["dump"]))

    def nontrivial(self, case, obs):
        return bool(case["handlers"] or case["ign_arg"] or case["sm_arg"] or case["ia_arg"] or case["cfg_sm"] != "_serialize"
                    or any(d["ign"] for d in case["world"]))

    def kind(self, case, obs):
        bits = []
        if case["handlers"]:
            bits.append("handlers:" + "+".join(sorted(set(k[0] for k, _ in case["handlers"]))))
        if case["ign_arg"]:
            bits.append("ignore-arg")
        if case["sm_arg"] or case["ia_arg"]:
            bits.append("explicit-names")
        if case["cfg_sm"] != "_serialize" or case["cfg_ia"] != "_ignore":
            bits.append("custom-config-names")
        return (",".join(bits) or "defaults") + (" / raise" if obs["dump"][0] != "ok" else "")

    def describe(self, case, obs):
        return {"value": W.dv_to_json(case["value"]), "handlers": [[list(k), h] for k, h in case["handlers"]],
                "config": [case["cfg_sm"], case["cfg_ia"]], "args": [case["sm_arg"], case["ia_arg"], case["ign_arg"]],
                "dump": d_outcome(obs["dump"])}

    def to_replay(self, case):
        j = WorldStream.to_replay(self, {"world": [d for d in case["world"]], "value": case["value"]})
        j.update({k: case[k] for k in ("cfg_sm", "cfg_ia", "sm_arg", "ia_arg", "ign_arg")})
        j["copies"], j["late"] = case.get("copies", 0), bool(case.get("late"))
        j["handlers"] = [[list(k), h] for k, h in case["handlers"]]
        return j

    def from_replay(self, j):
        c = WorldStream.from_replay(self, j)
        c.update({k: j[k] for k in ("cfg_sm", "cfg_ia", "sm_arg", "ia_arg", "ign_arg")})
        c["copies"], c["late"] = j.get("copies", 0), bool(j.get("late"))
        c["handlers"] = [((k[0], k[1]), h) for k, h in j["handlers"]]
        return c

    def shrink(self, case):
        for c in WorldStream.shrink(self, case):
            yield dict(case, value=c["value"])
        for i in range(len(case["handlers"])):
            yield dict(case, handlers=case["handlers"][:i] + case["handlers"][i + 1:])
        if case["ign_arg"]:
            for i in range(len(case["ign_arg"])):
                yield dict(case, ign_arg=case["ign_arg"][:i] + case["ign_arg"][i + 1:])


def streams():
    return [Custom()]
