"""C04 -- notifications are executed exactly once and never answered."""
import itertools
import json

from harness.core import pipeline, ser
from harness.dispatch_support import core as K, gen as GN, stream as S

PROP_ID = "C04"
MANIFEST_ENTRY = {
    "text": ("Theorems over all notification entries, registries and batches (Coq, closed under the global context) about a Gallina "
             "model of _marshaled_single_dispatch / _dispatch whose output includes the invocation log: a well-formed request "
             "without usable id yields no response object and its log is exactly one execution of the dispatch target (inline), or "
             "exactly one Enqueue event whose execution is one execution of the target (pooled). Model and real dispatcher "
             "(with the real ThreadPool, drained, invocations counted) are compared on every run."),
    "note": ("partial for the pooled half: that the pool runs every accepted task exactly once under every interleaving is property "
             "C09's theorem (C04_pooled_executed_once_partial composes with it); here the real ThreadPool is only run under the OS "
             "scheduler, drained through its futures + join() + stop(), and the executions are counted. The client half "
             "(_notify returns None, request carries no / a null id) is checked by oracle over a loopback transport, not modelled."),
    "technique": "Coq proof over a hand-written executable model + differential correspondence check (vm_compute) + property oracle",
    "design_ref": "DESIGN.md 4/C04",
}
ANCHOR_RANGES = [("jsonrpclib/SimpleJSONRPCServer.py", 201, 208), ("jsonrpclib/SimpleJSONRPCServer.py", 330, 400),
                 ("jsonrpclib/jsonrpc.py", 634, 652), ("jsonrpclib/jsonrpc.py", 1140, 1157)]
RULE = ("5 notification shapes (2.0 without id, 2.0 id null, 2.0 id '', 1.0 id null, 1.0 id '') x 6 methods (returns, raises, unknown, "
        "too few arguments, keyword mismatch, keyword match) x position (alone, every position of batches <= 3 among answered calls, "
        "invalid entries and other notifications) x 8 dispatch kinds x pool (absent, 1..3 threads, started before / after the "
        "dispatch) x server version; every notification carries a unique tag in its params so that each invocation is attributed "
        "to its entry. Non-trivial: every case (each has >= 1 notification). Distinct by case hash."
        ' Streams added after the seeded rounds: `chatty` (a peer that answers notifications: every envelope x result x id; path PNotify of Client.c06_check), `overlap` (a request held at a gate inside its method, or dispatching the other request itself, while another request is dispatched from start to end on the same dispatcher: 9 slow kinds x 6 fast kinds x 2 forms x 2 server versions; each of the two is one Dispatch.v case); batches also contain entries that are arrays of notifications.')
TRUSTED = ["modelled, not verified: CPython argument binding (model: call_binds), the notification ThreadPool (only sampled under the OS scheduler)",
           "invocation logging wrappers around generated callables and the recording proxy in front of ThreadPool.enqueue"]
ASSUMPTIONS = ["server Config.version in {1.0, 2.0}", "callables terminate"]

SHAPES = ["v2-noid", "v2-null", "v2-empty", "v1-null", "v1-empty"]
# method, params builder(tag), (target cid | None, binds?)
METHODS = [
    ("ok", lambda t: [t], GN.OK, True),
    ("fail", lambda t: [t], GN.FAIL, True),
    ("nope", lambda t: [t], None, False),
    ("two", lambda t: [t], GN.TWO, False),
    ("kw", lambda t: {"a": t}, GN.KW, False),
    ("kw", lambda t: {"a": t, "k": 1}, GN.KW, True),
    ("im", lambda t: [t], GN.IM, True),                # only on the registered instance
    ("sub._p", lambda t: [t], None, False),            # private segment
]


def notification(shape, method, params):
    r = {"method": method, "params": params}
    if shape.startswith("v2"):
        r["jsonrpc"] = "2.0"
    if shape.endswith("null"):
        r["id"] = None
    elif shape.endswith("empty"):
        r["id"] = ""
    return r


def tag_of(params):
    if isinstance(params, list) and params and isinstance(params[0], str):
        return params[0]
    if isinstance(params, dict) and isinstance(params.get("a"), str):
        return params["a"]
    return None


def mentions(args, tag):
    return tag in json.dumps(args)


class Main(S.DispatchStream):
    name = "main"

    def gen(self, tier, rng):
        cases = []
        dkinds = list(GN.DISPATCH_KINDS)
        counter = [0]

        def note(shape=None, mi=None):
            counter[0] += 1
            shape = shape or rng.choice(SHAPES)
            m = METHODS[mi if mi is not None else rng.randrange(len(METHODS))]
            return notification(shape, m[0], m[1]("n%d" % counter[0]))

        def filler():
            counter[0] += 1
            r = rng.random()
            if r < 0.4:
                return GN.req("ok", ["c%d" % counter[0]], rng.choice(GN.REAL_IDS), rng.random() < 0.5)
            if r < 0.6:
                return GN.req("fail", ["c%d" % counter[0]], rng.choice(GN.REAL_IDS), True)
            if r < 0.75:
                return rng.choice([5, {"jsonrpc": "2.0"}, {"jsonrpc": "2.0", "id": 3, "method": 7}])
            if r < 0.85:
                # an entry that is itself an array (of notifications, of calls, empty) is ONE invalid entry: nothing in it runs
                # and the entries after it are handled as usual
                inner = [GN.req("ok", ["nested%d" % counter[0]], GN.ABSENT, True) for _ in range(rng.randint(0, 2))]
                return inner + ([GN.req("ok", ["nested-call"], 9, True)] if rng.random() < 0.3 else [])
            return note()

        pools = [(0, True), (1, True), (2, True), (3, True), (1, False), (3, False)]
        # alone: shapes x methods x dispatch kinds x (no pool | one pool config)
        for shape, mi, dk in itertools.product(SHAPES, range(len(METHODS)), dkinds):
            for pool, started in ([(0, True), pools[1 + (counter[0] % 5)]] if tier == "quick" else pools):
                c = GN.base_case(rng.choice([1.0, 2.0]), dk, pool=pool, pool_started=started)
                c["body"] = json.dumps(note(shape, mi))
                cases.append(c)
        # every position of batches <= 3
        n_b = 600 if tier == "quick" else 8000
        for _ in range(n_b):
            ln = rng.randint(1, 3)
            pos = rng.randrange(ln)
            entries = [note() if i == pos else filler() for i in range(ln)]
            pool, started = rng.choice(pools)
            c = GN.base_case(rng.choice([1.0, 2.0]), rng.choice(dkinds), pool=pool, pool_started=started)
            c["body"] = json.dumps(entries)
            cases.append(c)
        # longer all-notification bursts through the pool
        for _ in range(40 if tier == "quick" else 400):
            pool, started = rng.choice(pools[1:])
            c = GN.base_case(rng.choice([1.0, 2.0]), rng.choice(dkinds), pool=pool, pool_started=started)
            c["body"] = json.dumps([note() for _ in range(rng.randint(4, 12))])
            cases.append(c)
        return cases

    # ---------------------------------------------------------------- oracle (from the statement)
    def expected_target(self, case, method, params):
        """(cid that must be entered exactly once | None, may a second callable be entered?)"""
        if case.get("dm") is not None:
            return case["dm"], True
        if method in case.get("funcs", {}):
            c = case["funcs"][method]
        else:
            inst = case.get("inst")
            if inst is None:
                return None, True
            if inst.get("dispatch") is not None:
                return inst["dispatch"], True
            node = ["obj", inst["attrs"]]
            for seg in method.split("."):
                if seg.startswith("_") or node[0] != "obj" or seg not in node[1]:
                    return None, True
                node = node[1][seg]
            if node[0] != "call":
                return None, True
            c = node[1]
        check = K.build_check(case["table"][c]["sig"])
        try:
            if isinstance(params, list):
                check(*params)
            else:
                check(**params)
        except TypeError:
            return None, True       # arguments do not fit: nothing to execute
        return c, True

    def oracle(self, case, obs):
        ent = self.entries(case)
        if ent is None:
            return None
        is_batch, entries = ent
        if obs["raised"] is not None:
            return ("C04:dispatcher-raised", "dispatcher raised %s" % type(obs["raised"]).__name__)
        if not obs.get("drained_ok", True):
            return ("C04:pooled-notification-lost", "a pooled notification did not complete within 20 s")
        pr = K.parse_reply(obs["text"])
        if pr[0] == "notjson":
            return ("C04:reply-not-json", pr[1])
        notes = [e for e in entries if S.is_notification(e)]
        answered = len(entries) - len(notes)
        got = [] if pr[0] == "empty" else (pr[1] if isinstance(pr[1], list) and is_batch else [pr[1]])
        if len(got) != answered:
            bad = [o for o in got if isinstance(o, dict) and o.get("id") in (None, "")]
            return ("C04:notification-answered",
                    "%d notification(s) among %d entries, %d response object(s): %r" % (len(notes), len(entries), len(got), bad[:2] or got[:2]))
        calls = [e for e in obs["log"] + obs["drained"] if e[0] == "call"]
        for e in notes:
            tag = tag_of(e.get("params", []))
            if tag is None:
                continue
            mine = [c for c in calls if mentions(c[2], tag)]
            target, _ = self.expected_target(case, e["method"], e.get("params", []))
            per = {}
            for c in mine:
                per[c[1]] = per.get(c[1], 0) + 1
            if any(n > 1 for n in per.values()):
                return ("C04:notification-executed-twice", "notification %r entered a callable more than once: %r" % (e, per))
            if target is not None and per.get(target, 0) != 1:
                return ("C04:notification-not-executed", "notification %r: callable %d entered %d times" % (e, target, per.get(target, 0)))
            inst_dispatch = (case.get("inst") or {}).get("dispatch")
            if target is None and case.get("dm") is None and inst_dispatch is None and mine:
                return ("C04:rejected-notification-ran", "notification %r names nothing executable but ran %r" % (e, per))
        return None

    def kind(self, case, obs):
        ent = self.entries(case)
        n = 0 if ent is None else len(ent[1])
        pool = "no pool" if not case.get("pool") else ("pool %d %s" % (case["pool"], "started" if case.get("pool_started", True) else "late start"))
        return "%s / %s / %s" % ("alone" if ent and not ent[0] else "batch of %d" % min(n, 4), case.get("kind"), pool)


class LoopbackDispatch(object):
    """transport= object that hands the request text to a real dispatcher"""

    def __init__(self, rt):
        self.rt = rt
        self.sent = []

    def push_headers(self, headers):
        pass

    def pop_headers(self, headers):
        pass

    def request(self, host, handler, request_body, verbose=0):
        if isinstance(request_body, bytes):
            request_body = request_body.decode("utf-8")
        self.sent.append(request_body)
        return self.rt.disp._marshaled_dispatch(request_body, self.rt.dm)

    def close(self):
        pass


class Client(pipeline.Stream):
    """client side: proxy._notify.<method>(...) returns None and sends a request without usable id (oracle only)"""
    name = "client"

    def setup(self):
        import jsonrpclib
        self.J = jsonrpclib

    def gen(self, tier, rng):
        cases = []
        for cver, sver, dk, (m, pb, _, _) in itertools.product([1.0, 2.0], [1.0, 2.0], ["default", "default+instance", "custom-raises", "custom-returns"], METHODS):
            for pool in (0, 2):
                c = GN.base_case(sver, dk, pool=pool)
                c["client_version"] = cver
                c["method"] = m
                c["params"] = pb("tag-%d" % len(cases))
                cases.append(c)
        return cases

    def run_impl(self, case):
        import jsonrpclib.config as C
        rt = K.Runtime(case)
        try:
            tr = LoopbackDispatch(rt)
            proxy = self.J.ServerProxy("http://localhost/", transport=tr, version=case["client_version"],
                                       config=C.Config(version=case["client_version"]))
            target = proxy._notify
            for seg in case["method"].split("."):
                target = getattr(target, seg)
            p = case["params"]
            try:
                out = ("ok", target(*p) if isinstance(p, list) else target(**p))
            except Exception as ex:   # noqa
                out = ("raise", ex)
            rt.drain()
            calls = [e for (_, e) in rt.events if e[0] == "call"]
            return {"out": out, "sent": list(tr.sent), "calls": calls}
        finally:
            rt.close()

    def oracle(self, case, obs):
        if obs["out"][0] != "ok":
            return ("C04:client-notify-raised", "proxy._notify.%s raised %s" % (case["method"], type(obs["out"][1]).__name__))
        if obs["out"][1] is not None:
            return ("C04:client-notify-returned-value", "proxy._notify.%s returned %r" % (case["method"], obs["out"][1]))
        if len(obs["sent"]) != 1:
            return ("C04:client-notify-requests", "%d requests sent" % len(obs["sent"]))
        req = json.loads(obs["sent"][0])
        if "id" in req and req["id"] not in (None, ""):
            return ("C04:client-notify-has-id", "notification sent with id %r" % (req["id"],))
        return None

    def kind(self, case, obs):
        return "client v%s -> server v%s / %s" % (case["client_version"], case["ver"], case["kind"])

    def describe(self, case, obs):
        return {"client_version": case["client_version"], "server_version": case["ver"], "dispatch": case["kind"],
                "method": case["method"], "params": case["params"], "sent": obs["sent"],
                "outcome": [obs["out"][0], repr(obs["out"][1])], "calls": S.log_json(obs["calls"])}

    def to_replay(self, case):
        return ser.to_json(case)

    def from_replay(self, j):
        return ser.from_json(j)


from harness.props import c06 as C06      # noqa: E402


class ChattyPeer(C06.Main):
    """client side against a peer that ANSWERS notifications (a 1.0 server, a foreign or lenient server, a proxy): whatever
    non-error response object comes back, proxy._notify.<method>(...) returns None; an error in the answer surfaces as for any
    reply (C06).  Same model function as C06 (path PNotify of Client.c06_check)."""
    name = "chatty"

    def gen(self, tier, rng):
        cases = []
        results = ["<absent>", None, 0, False, "", [], {}, 1, "ack:x", {"a": [1, 2.5]}, [None], 1.5, True]
        for env_form, res, rid in itertools.product(C06.ENVELOPES, results, [7, None, "", "n-1", "<absent>"]):
            for err in ("<absent>", None):
                reply = C06.build_reply(env_form, err, res)
                if rid == "<absent>":
                    del reply["id"]
                else:
                    reply["id"] = rid
                cases.append({"path": ("notify",), "reply": reply})
        for e in C06.error_pool()[:12]:
            cases.append({"path": ("notify",), "reply": C06.build_reply("v2s", e, "<absent>")})
        return cases

    def oracle(self, case, obs):
        reply = case["reply"]
        if "error" in reply and reply["error"]:
            return C06.Main.oracle(self, case, obs)
        if "result" not in reply and ("error" not in reply or reply["error"] is None) and "jsonrpc" not in reply:
            return None       # neither result nor error in a 1.0-form object: not a response object at all
        o = obs[0]
        if o[0] != "ok":
            return None if "result" not in reply else ("C04:client-notify-raised", "the peer answered %r and proxy._notify.m raised %s" % (reply, type(o[1]).__name__))
        if o[1] is not None:
            return ("C04:client-notify-returned-value", "the peer answered %r and proxy._notify.m returned %r" % (reply, o[1]))
        return None

    def nontrivial(self, case, obs):
        return "result" in case["reply"]


class Overlap(pipeline.Stream):
    """two handler threads on ONE dispatcher (what a thread-pooled or threading server does): a request whose method is still
    running (held at a gate inside the callable) while another request is dispatched from start to end.  The dispatcher keeps
    no per-request state on itself, so each of the two is one Model/Dispatch.v case on its own; the statement's clauses
    (no response object for a notification, executed once) are checked on both."""
    name = "overlap"
    model_imports = "Dispatch EndToEnd"
    case_type = "list dcase"
    check_fn = "registry_check"
    shard = 200

    # "...reenter": no second thread; the slow request's method itself dispatches the other request on the same dispatcher
    SLOW = ["note-absent", "note-null", "note-empty", "note-in-batch", "call", "note-fail", "call-fail", "call-reenter", "note-reenter"]
    PREFIX = "C04"
    FAST = ["call-ok", "call-echo", "call-fail", "call-nope", "note-ok", "batch"]

    def setup(self):
        import jsonrpclib
        self.J = jsonrpclib

    def gen(self, tier, rng):
        cases = []
        for ver, slow, fast, v2 in itertools.product([1.0, 2.0], self.SLOW, self.FAST, [True, False]):
            cases.append({"ver": ver, "slow": slow, "fast": fast, "v2": v2})
        return cases

    def _bodies(self, case):
        v2 = case["v2"]
        slow, fast = case["slow"], case["fast"]
        gate = "gatefail" if slow.endswith("fail") else "gate"
        if slow.startswith("note"):
            rid = {"note-absent": GN.ABSENT, "note-null": None, "note-empty": "", "note-in-batch": GN.ABSENT, "note-fail": None,
                   "note-reenter": None}[slow]
            if not v2 and rid is GN.ABSENT:
                rid = None           # a 1.0-form request must carry an id member to be well-formed
            e = GN.req(gate, ["slow-arg"], rid, v2)
            sb = [GN.req("ok", [], "b-1", v2), e] if slow == "note-in-batch" else e
        else:
            sb = GN.req(gate, ["slow-arg"], "slow-id", v2)
        fb = {"call-ok": GN.req("ok", [], 41, v2), "call-echo": GN.req("echo", ["fast-arg"], "fast-id", v2),
              "call-fail": GN.req("fail", [], 42, v2), "call-nope": GN.req("nope", [], 43, v2),
              "note-ok": GN.req("ok", [], GN.ABSENT if v2 else None, v2),
              "batch": [GN.req("echo", [1], 44, v2), GN.req("ok", [], None, v2)]}[fast]
        return json.dumps(sb), json.dumps(fb)

    def _dcase(self, case):
        dc = GN.base_case(case["ver"], "default")
        dc["funcs"] = dict(dc["funcs"], gate=GN.ECHO, gatefail=GN.FAIL)
        return dc

    def run_impl(self, case):
        import threading
        dc = self._dcase(case)
        rt = K.Runtime(dc)
        entered, release = threading.Event(), threading.Event()

        inner = []          # index range of the events logged by the request dispatched from inside the slow method

        def gated(cid):
            def fn(*a, **k):
                if case["slow"].endswith("reenter"):
                    n0 = len(rt.events)
                    try:
                        res["fast"] = ("ok", rt.disp._marshaled_dispatch(fb))
                    except Exception as ex:       # noqa
                        res["fast"] = ("raise", ex)
                    inner.append((n0, len(rt.events)))
                else:
                    entered.set()
                    release.wait(20)
                return rt.fns[cid](*a, **k)
            return fn
        rt.disp.register_function(gated(GN.ECHO), "gate")
        rt.disp.register_function(gated(GN.FAIL), "gatefail")
        sb, fb = self._bodies(case)
        res = {}
        reenter = case["slow"].endswith("reenter")

        def slow():
            try:
                res["slow"] = ("ok", rt.disp._marshaled_dispatch(sb))
            except Exception as ex:       # noqa
                res["slow"] = ("raise", ex)
        th = threading.Thread(target=slow, daemon=True)
        try:
            th.start()
            if not reenter:
                if not entered.wait(20):
                    return {"error": "the slow request never reached its method"}

                def fast():
                    try:
                        res["fast"] = ("ok", rt.disp._marshaled_dispatch(fb))
                    except Exception as ex:       # noqa
                        res["fast"] = ("raise", ex)
                tf = threading.Thread(target=fast, daemon=True)
                rt.main_thread = tf                 # the events of the fast request are those logged from this thread
                tf.start()
                tf.join(3)
                # (a dispatcher that serialises requests makes the fast one wait for the slow one: allowed, it then finishes
                # once the gate is open)
                res["serialised"] = tf.is_alive()
                release.set()
                tf.join(20)
                if tf.is_alive():
                    return {"error": "the second request did not finish although the first one was released"}
            th.join(20)
        finally:
            release.set()
            rt.close()
        with rt.lock:
            evs = list(rt.events)
        if reenter:
            lo, hi = inner[0] if inner else (0, 0)
            slow_log = [e for i, (_, e) in enumerate(evs) if not lo <= i < hi]
            fast_log = [e for i, (_, e) in enumerate(evs) if lo <= i < hi]
        else:
            slow_log = [e for (is_main, e) in evs if not is_main]
            fast_log = [e for (is_main, e) in evs if is_main]
        return {"slow": res.get("slow"), "fast": res.get("fast"), "bodies": (sb, fb), "slow_log": slow_log, "fast_log": fast_log}

    def oracle(self, case, obs):
        if "error" in obs:
            return (self.PREFIX + ":overlap-harness", obs["error"])
        for who in ("slow", "fast"):
            r = obs[who]
            body = json.loads(obs["bodies"][0 if who == "slow" else 1])
            if r is None or r[0] != "ok":
                return (self.PREFIX + ":dispatcher-raised", "%s request %r: %r" % (who, body, r))
            entries = body if isinstance(body, list) else [body]
            notes = [e for e in entries if isinstance(e, dict) and ("id" not in e or e["id"] in (None, ""))]
            answered = [e for e in entries if e not in notes]
            text = r[1]
            got = [] if not text else json.loads(text)
            got = got if isinstance(got, list) else [got]
            if len(got) != len(answered):
                return (self.PREFIX + ":" + ("notification-answered" if self.PREFIX == "C04" else "response-count"), "%s request %r (%d notification(s)) while the other request was in progress: reply %r" % (
                    who, body, len(notes), text))
            for g, e in zip(got, answered):
                if not isinstance(g, dict) or g.get("id") != e["id"]:
                    return (self.PREFIX + ":" + ("reply-id-of-another-request" if self.PREFIX == "C04" else "id-not-echoed"), "%s request %r answered %r" % (who, body, text))
            log = obs[who + "_log"]
            ncalls = len([e for e in log if e[0] == "call"])
            want = len([e for e in entries if e.get("method") != "nope"])
            if ncalls != want:
                return (self.PREFIX + ":not-executed-exactly-once", "%s request %r: %d invocation(s)" % (who, body, ncalls))
        return None

    def encode(self, case, obs):
        if "error" in obs:
            return None
        import jsonrpclib.config as C
        dc = self._dcase(case)
        terms = []
        for who, i in (("slow", 0), ("fast", 1)):
            r = obs[who]
            if r is None or r[0] != "ok":
                return None
            o = {"raised": None, "text": r[1], "log": obs[who + "_log"], "drained": []}
            t = K.encode_case(dc, o, K.parse_outcome(self.J, obs["bodies"][i], C.Config(version=case["ver"])))
            if t is None:
                return None
            terms.append(t)
        from harness.core import gallina as G
        return G.g_list(terms)

    def nontrivial(self, case, obs):
        return True

    def kind(self, case, obs):
        return "server v%s / slow %s / fast %s" % (case["ver"], case["slow"], case["fast"])

    def describe(self, case, obs):
        return {"case": case, "bodies": list(obs.get("bodies", [])), "slow_reply": repr(obs.get("slow")), "fast_reply": repr(obs.get("fast"))}


def _rekey(prefix, fn):
    def oracle(case, o):
        bad = fn(case, o)
        return None if bad is None else (prefix + bad[0], bad[1])
    return staticmethod(oracle)


from harness.pool_support import common as PC     # noqa: E402


class PoolDependency(PC.PoolStream):
    """the pooled half of the property is a composition: C04's theorems give "one enqueue per notification,
    no reply", Props/C09.v gives "every accepted task runs exactly once".  The pool model those theorems are
    about is therefore re-validated here as well: the real ThreadPool in lock-step with Model/Pool.v under the
    controlled scheduler, judged by the exactly-once oracle."""
    name = "pool"
    n_quick = 120
    n_thorough = 1500
    oracle_fn = _rekey("C04:pooled-notification:", PC.oracle_c09)


def streams():
    return [Main(), Client(), ChattyPeer(), Overlap(), PoolDependency()]
