"""C19 -- transport faults are contained: no foreign results, and the proxy recovers."""
import itertools
import os
import shutil
import tempfile
import threading
import uuid

from harness.core import pipeline, gallina as G
from harness.peers import scripted_peer as SP

PROP_ID = "C19"
MANIFEST_ENTRY = {
    "text": ("Theorems over ALL fault scripts and call counts (Coq, closed under the global context) about a Gallina state machine of "
             "the client's connection layer (single_request, the inherited one-retry loop, connection cache, _run_request/_request) on "
             "top of an explicit transition table for http.client and the scripted peer: connection invariant, every call returns its "
             "own result or raises, TransportError(host+handler, status) for every non-200 reply that is read, at most one failure "
             "once the remaining script is healthy. The model is checked against the real proxy talking to a scripted raw-socket peer "
             "(TCP and Unix sockets) on all fault sequences of length <= 2 (quick) / <= 3 (thorough) plus seeded random longer ones."),
    "note": ("PARTIAL: http.client's connection state machine, xmlrpc.client.Transport's retry loop and the kernel's socket semantics "
             "(FIN/RST, ECONNREFUSED) are modelled as a transition table, validated only on the generated sequences; the 11-symbol "
             "alphabet bounds the faults; a request can be delivered twice by the retry loop (not constrained by C19)."),
    "technique": "Coq proof over a hand-written executable state-machine model + differential correspondence check (vm_compute) + property oracle",
    "design_ref": "DESIGN.md 4/C19",
}
ANCHOR_RANGES = [("jsonrpclib/jsonrpc.py", 332, 364), ("jsonrpclib/jsonrpc.py", 150, 172), ("jsonrpclib/jsonrpc.py", 426, 452),
                 ("jsonrpclib/jsonrpc.py", 485, 521), ("jsonrpclib/jsonrpc.py", 652, 688)]
RULE = ("every fault sequence of length <= 2 (quick) / <= 3 (thorough) over the 11-symbol alphabet, each followed by enough calls to "
        "consume it plus three, over TCP and over a Unix socket; then seeded random sequences of length <= 6 / <= 8 with varied statuses "
        "(L: 400/404/500/503, N: 500/502/503, B: 204/304). Non-trivial: the script contains a symbol other than healthy keep-alive. "
        "Distinct by canonical hash of (transport, script, number of calls).")
EXHAUSTIVE = "all fault scripts of length <= 2 (quick) / <= 3 (thorough) over the 11 base symbols, both transports (not the unbounded property: that is the theorems' job)"
TRUSTED = ["modelled, not verified: http.client.HTTPConnection/HTTPResponse (auto-reopen, will_close, ResponseNotReady, read), "
           "xmlrpc.client.Transport (retry loop, make_connection, close, parse_response), kernel socket semantics (FIN, RST, ECONNREFUSED), "
           "json.loads on the peer's bodies",
           "the scripted peer (harness/peers/scripted_peer.py) and its synchronisation through the socket.connect audit event",
           "CPython reference counting closes the client's socket of a will_close response when the TransportError is dropped"]
ASSUMPTIONS = ["faults are the 11 symbols of the property's alphabet, one per connection attempt / exchange; generated statuses: L in 400/404/500/503, N in 500/502/503 (a body without length on a 204/304 is outside the alphabet: there the real outcome of the next call depends on whether the kernel reports EPIPE at send time), B in 204/304; 1xx is never generated (http.client would wait for a second response)",
               "reading: a non-200 reply requires TransportError only if the client reads it (a request answered while http.client refuses to read -- ResponseNotReady after a bodiless status -- counts as the one failing recovery call)",
               "reading: 'healthy then close' is a healthy exchange (not a fault) for the recovery bound",
               "one proxy, sequential calls, one host"]

L_STATUS = [503, 400, 404, 500]
N_STATUS = [500, 502, 503]
B_STATUS = [204, 304, 102, 103]
EXH_ALPHABET = SP.BASE + ["B102"]      # the interim status has a peer-side sequel of its own (scripted_peer.py)
EXTRA_CALLS = 3

_FAULT = {"H": "FHealthy", "C": "FHealthyClose", "R": "FRefuse", "X": "FCloseNoReply", "T": "FReset",
          "U": "FTruncated", "Z": "FEmpty200", "J": "FNonJson"}
_STATUS_FAULT = {"L": "FStatusLen", "N": "FStatusNoLenClose", "B": "FBodiless"}


def g_fault(sym):
    k = SP.sym_kind(sym)
    if k in _FAULT:
        return _FAULT[k]
    return "(%s %s)" % (_STATUS_FAULT[k], G.g_Z(SP.sym_status(sym)))


def healthy(sym):
    return SP.sym_kind(sym) in ("H", "C")


class Main(pipeline.Stream):
    name = "main"
    model_imports = "Transport"
    case_type = "str * str * list fault * list val * list (res val)"
    check_fn = "c19_check"
    shard = 150

    def setup(self):
        import jsonrpclib
        import jsonrpclib.jsonrpc as J
        self.J = J
        self.tmp = tempfile.mkdtemp(prefix="c19-")

    def teardown(self):
        shutil.rmtree(self.tmp, ignore_errors=True)

    # ---------------------------------------------------------------- generator
    def _case(self, kind, script):
        return {"kind": kind, "script": list(script), "ncalls": len(script) + EXTRA_CALLS}

    def _rand_script(self, rng, maxlen):
        n = rng.randint(1, maxlen)
        out = []
        for _ in range(n):
            k = rng.choice(SP.BASE) if rng.random() < 0.75 else rng.choice(["H", "C", "B", "R", "L"])
            if k == "L":
                k += str(rng.choice(L_STATUS))
            elif k == "N":
                k += str(rng.choice(N_STATUS))
            elif k == "B":
                k += str(rng.choice(B_STATUS))
            out.append(k)
        return out

    def gen(self, tier, rng):
        cases = []
        exh = 2 if tier == "quick" else 3
        for kind in ("tcp", "unix"):
            for n in range(0, exh + 1):
                for script in itertools.product(EXH_ALPHABET, repeat=n):
                    cases.append(self._case(kind, script))
        n_rand, maxlen = (150, 6) if tier == "quick" else (1500, 8)
        for _ in range(n_rand):
            script = self._rand_script(rng, maxlen)
            for kind in ("tcp", "unix"):
                c = self._case(kind, script)
                c["ncalls"] += rng.randint(0, 2)
                cases.append(c)
        return cases

    def widen(self, rng):
        out = []
        for _ in range(400):
            script = self._rand_script(rng, 8)
            out.append(self._case(rng.choice(["tcp", "unix"]), script))
        return out

    # ---------------------------------------------------------------- implementation run
    def run_impl(self, case):
        J = self.J
        peer = SP.ScriptedPeer(case["kind"], case["script"], self.tmp)
        hung = []

        def on_hang():
            hung.append(True)
            peer.abort_all()
        outs = []
        tokens = []
        try:
            proxy = J.ServerProxy(peer.url)
            for i in range(case["ncalls"]):
                tok = "tok-%d-%s" % (i, uuid.uuid4().hex[:8])
                tokens.append(tok)
                peer.current_call = i
                timer = threading.Timer(SP.HANG * 2, on_hang)
                timer.daemon = True
                timer.start()
                try:
                    r = proxy.echo(tok)
                    if isinstance(r, str) and r in tokens:
                        j = tokens.index(r)
                        o = ("own",) if j == i else ("foreign", j)
                    else:
                        o = ("value", r)
                except J.TransportError as ex:
                    url = ex.url
                    if isinstance(url, str) and url.startswith(peer.host):
                        url = "HOST" + url[len(peer.host):]
                    o = ("terr", url, ex.errcode)
                except ValueError:
                    o = ("exc", "ValueError")
                except TypeError:
                    o = ("exc", "TypeError")
                except Exception as ex:      # noqa
                    o = ("exc", type(ex).__name__)
                finally:
                    timer.cancel()
                if hung:
                    outs.append(("hang",))
                    break
                outs.append(o)
            try:
                proxy("close")()
            except Exception:
                pass
        finally:
            peer.stop()
        return {"outcomes": outs, "log": list(peer.log), "tokens": tokens, "handler": peer.handler, "anomalies": list(peer.anomalies)}

    # ---------------------------------------------------------------- oracle (from the statement)
    def oracle(self, case, obs):
        outs, log, tokens = obs["outcomes"], obs["log"], obs["tokens"]
        script = case["script"]
        if obs["anomalies"]:
            return ("C19:peer-anomaly", "the scripted peer reported: %s" % "; ".join(obs["anomalies"][:3]))
        # which call used which script symbol; which reply answered each call last
        tokidx = {t: i for i, t in enumerate(tokens)}
        used_by = {}          # script index -> call
        last_reply = {}       # call -> symbol of the last exchange that read this call's request
        for e in log:
            call = e["call"] if e["ev"] == "refuse" else tokidx.get(e["tok"])
            if call is None:
                continue
            if e["idx"] is not None:
                used_by[e["idx"]] = call
            if e["ev"] == "exchange":
                last_reply[call] = e["sym"]
            elif e["ev"] == "drop-for-refuse":
                last_reply[call] = "X"
            else:
                last_reply[call] = "R"
        for i, o in enumerate(outs):
            if o[0] == "hang":
                return ("C19:hang", "call %d neither returned nor raised within %.0f s" % (i, SP.HANG * 2))
            if o[0] == "foreign":
                return ("C19:foreign-result", "call %d returned the result of call %d" % (i, o[1]))
            if o[0] == "value":
                return ("C19:returned-without-own-result", "call %d returned %r, which is not the result of its request" % (i, o[1]))
            sym = last_reply.get(i)
            st = SP.sym_status(sym) if sym and SP.sym_kind(sym) in "LNB" else None
            if st is not None and st != 200:
                if o[0] == "terr":
                    if o[1] != "HOST" + obs["handler"] or o[2] != st:
                        return ("C19:transport-error-fields", "call %d: reply status %d, TransportError(url=%r, errcode=%r); expected url host+handler = %r"
                                % (i, st, o[1], o[2], "HOST" + obs["handler"]))
                elif o == ("exc", "ResponseNotReady"):
                    pass          # the reply was never read (see ASSUMPTIONS); bounded by the recovery clause below
                else:
                    return ("C19:non-200-not-transport-error", "call %d: reply status %d but the call %s" % (i, st, "returned its result" if o[0] == "own" else "raised " + o[1]))
            elif o[0] == "terr":
                return ("C19:spurious-transport-error", "call %d raised TransportError(%r, %r) but its request was answered by %r" % (i, o[1], o[2], sym))
        # recovery: after the last fault at most one call fails
        faults = [k for k, s in enumerate(script) if not healthy(s)]
        if faults:
            last = faults[-1]
            if last not in used_by:
                return None                       # the last fault was not reached by this many calls
            start = max(c for k, c in used_by.items() if k <= last) + 1
        else:
            start = 0
        fails = [i for i in range(start, len(outs)) if outs[i][0] != "own"]
        if len(fails) > 1:
            return ("C19:no-recovery", "faults stopped after call %d, yet calls %s failed (%s)" % (start - 1, fails, ", ".join(str(outs[i]) for i in fails[:4])))
        return None

    # ---------------------------------------------------------------- Gallina encoding
    def encode(self, case, obs):
        outs = obs["outcomes"]
        toks = ['(VStr "t%d")' % i for i in range(len(outs))]
        enc = []
        for i, o in enumerate(outs):
            if o[0] == "own":
                enc.append('(Ok (VStr "t%d"))' % i)
            elif o[0] == "foreign":
                enc.append('(Ok (VStr "t%d"))' % o[1])
            elif o[0] == "value":
                try:
                    enc.append("(Ok %s)" % G.g_val(o[1]))
                except Exception:
                    enc.append("(Ok (VOpaque 0%N))")
            elif o[0] == "terr":
                if not isinstance(o[1], str) or not isinstance(o[2], int):
                    enc.append('(Raise (EOther "TransportError-with-odd-fields"))')
                else:
                    enc.append("(Raise (ETransport %s %s))" % (G.g_str(o[1]), G.g_Z(o[2])))
            elif o[0] == "hang":
                enc.append('(Raise (EOther "Hang"))')
            elif o[1] == "ValueError":
                enc.append("(Raise EValue)")
            elif o[1] == "TypeError":
                enc.append("(Raise EType)")
            else:
                enc.append("(Raise (EOther %s))" % G.g_str(o[1]))
        return '("HOST", %s, %s, %s, %s)' % (G.g_str(obs["handler"]), G.g_list([g_fault(s) for s in case["script"]]),
                                            G.g_list(toks), G.g_list(enc))

    # ---------------------------------------------------------------- bookkeeping
    def nontrivial(self, case, obs):
        return any(SP.sym_kind(s) != "H" for s in case["script"])

    def kind(self, case, obs):
        cls = set()
        for o in obs["outcomes"]:
            cls.add({"own": "own", "terr": "TransportError", "exc": "exception"}.get(o[0], o[0]))
        return "%s / len %d / %s" % (case["kind"], len(case["script"]), "+".join(sorted(cls)))

    def describe(self, case, obs):
        return {"transport": case["kind"], "script": case["script"], "ncalls": case["ncalls"],
                "outcomes": [list(o) if o[0] != "value" else ["value", repr(o[1])] for o in obs["outcomes"]],
                "peer_log": [[e["ev"], e["idx"], e["sym"]] for e in obs["log"]]}

    def to_replay(self, case):
        return {"kind": case["kind"], "script": list(case["script"]), "ncalls": case["ncalls"]}

    def from_replay(self, j):
        return {"kind": j["kind"], "script": list(j["script"]), "ncalls": j["ncalls"]}

    def shrink(self, case):
        s = case["script"]
        for i in range(len(s)):
            yield {"kind": case["kind"], "script": s[:i] + s[i + 1:], "ncalls": case["ncalls"] - 1}
        for i in range(len(s)):
            if s[i] != "H":
                yield {"kind": case["kind"], "script": s[:i] + ["H"] + s[i + 1:], "ncalls": case["ncalls"]}
        if case["ncalls"] > 1:
            yield {"kind": case["kind"], "script": s, "ncalls": case["ncalls"] - 1}
        if case["kind"] == "unix":
            yield {"kind": "tcp", "script": s, "ncalls": case["ncalls"]}


def streams():
    return [Main()]
