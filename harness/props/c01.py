"""C01 -- end-to-end call transparency: ServerProxy (plain call, dotted name, MultiCall) -> server -> registered
callable and back, under JSON-RPC 1.0 and 2.0, over the in-process loopback, TCP, Unix sockets and the pooled
server, with an attached History.

A case fixes the two configurations and a short sequence of client operations on ONE proxy / server pair:

    srv        "dispatcher" | "tcp" | "pooled" | "unix"      how the proxy reaches the dispatcher
    sver, sjc  server Config.version / use_jsonclass
    cver       Config.version of the proxy's Config; carg: ServerProxy(version=...) (None: not given)
    cjc        use_jsonclass of the proxy's Config;  mjc: of the MultiCall's Config
    ops        [["call", method, ["pos", [..]] | ["kw", {..}]] | ["notify", method, args] |
                ["batch", [[method, args, notify?], ...]]]

The implementation run records what each operation returned / raised, the invocation log of the registered
callables, the History texts, and the texts the server really saw and sent.  The model is
Model/EndToEnd.v (composition of the Payload, Dispatch and Client models)."""
import itertools
import json
import os
import re
import shutil
import socket
import tempfile
import threading

from harness.core import pipeline, gallina as G, ser
from harness.dispatch_support import core as K, gen as GN

PROP_ID = "C01"
ANCHOR_RANGES = [("jsonrpclib/jsonrpc.py", 590, 700), ("jsonrpclib/jsonrpc.py", 744, 1000), ("jsonrpclib/jsonrpc.py", 1195, 1340),
                 ("jsonrpclib/history.py", 38, 100), ("jsonrpclib/SimpleJSONRPCServer.py", 286, 330)]
TRUSTED = ["modelled, not verified: json.dumps / json.loads as `wire` (a JSON-serialisable value arrives normalised: tuples become "
           "lists; integers up to 2^53, finite floats, strings without lone surrogates), jsonclass.dump / load on descriptor-free "
           "plain data (convert / identity: the C15 theorems), uuid4 (ids are masked), CPython argument binding",
           "the HTTP framing, the three transports and the three server classes do not appear in the model: a byte-faithful "
           "transport is the identity on texts; that they are byte-faithful is what this check's real-socket cases (and C17, C12) test",
           "server-side recording wrapper around _marshaled_dispatch (an instance attribute of the server object, nothing in /repo)"]
ASSUMPTIONS = ["fault-free network", "registered callables as described by the case's table (return a JSON value, echo their arguments, or raise)",
               "payloads are free of '__jsonclass__' members whenever a side has class translation on"]
RULE = ("sequences of 1-4 operations (plain call, dotted / Unicode / spaced method names, notification, MultiCall batch of 1-5 jobs with "
        "notifications interleaved) x arguments drawn from an edge-biased JSON pool (positional, keyword, empty) x client version argument "
        "{absent, 1.0, 2.0} x client Config.version {1.0, 2.0} x server version {1.0, 2.0} x class translation on/off per side x "
        "{in-process loopback to a bare dispatcher, SimpleJSONRPCServer over TCP, PooledJSONRPCServer over TCP, SimpleJSONRPCServer over a "
        "Unix socket}; every single value of the edge pool once as sole positional argument and once as keyword argument under both "
        "versions. Observed: outcome of each operation, invocation log, History texts (parsed, generated ids masked) and their identity "
        "with the texts the server saw. Non-trivial: an argument or result that is a container or a falsy / non-ASCII / boundary leaf. "
        "Distinct by case hash."
        ' Added after the seeded rounds: `registry` stream (functions registered again, the instance replaced or stripped of names, members replaced or deleted, between calls of one name; each call is one Dispatch.v case under the registry of its moment), `builtins` stream (oracle only: 20 callables implemented in C, the reference is the callable itself).')
MANIFEST_ENTRY = {
    "text": ("Theorems (Coq, closed under the global context) about Model/EndToEnd.v, the value-level composition of the Payload, "
             "Dispatch and Client models: for EVERY registered function, method name, JSON argument list or keyword map that binds, "
             "client version in {absent, 1.0, 2.0}, client and server configuration versions in {1.0, 2.0} and class translation on or "
             "off, a proxy call enters the callable exactly once with the normalised arguments, returns exactly the normalised return "
             "value, and appends exactly one request and one response to the History; a notification returns None and is answered by the "
             "empty text; a MultiCall batch enters every job's callable once in job order and yields the results of its calls in job "
             "order. The composition is checked against the real ServerProxy / MultiCall / History and the real servers "
             "(loopback dispatcher, TCP, pooled TCP, Unix socket) on every run."),
    "note": ("The theorems cover single calls, notifications, call sequences and MultiCall batches (calls and notifications "
             "interleaved) through registered functions; dotted INSTANCE paths and failing calls are in the executable model and in the "
             "correspondence / oracle but have no general theorem of their own here (their server half is C03/C05, their client half "
             "C06). PARTIAL in one respect: server classes and transports are covered by correspondence only, the model treats a "
             "byte-faithful transport as the identity on texts."),
    "technique": "Coq proof over a hand-written executable model (composition of three models) + differential correspondence check (vm_compute) over four real transports + property oracle",
    "design_ref": "DESIGN.md 4/C01",
}

RAISED = ("<the dispatcher raised>",)
UUID = re.compile(r"^[0-9a-f]{8}-[0-9a-f]{4}-4[0-9a-f]{3}-[89ab][0-9a-f]{3}-[0-9a-f]{12}$")
MARK = "<generated>"

# ---------------------------------------------------------------------------------- registry

# extra callables after the standard table of the dispatch group
_X0 = len(GN.std_table())
RET_NONE, RET_ZERO, RET_EMPTY_S, RET_EMPTY_L, RET_EMPTY_D, RET_FALSE, RET_NEST, RET_FZERO = range(_X0, _X0 + 8)


def table():
    t = GN.std_table()
    for v in (None, 0, "", [], {}, False, {"a": [1, {"b": None}, "é\U0001F600"], "": 0.5}, 0.0):
        t.append(K.cdesc(["ret", v]))
    return t


FUNCS = dict(GN.FUNCS)
FUNCS.update({"none": RET_NONE, "zero": RET_ZERO, "empty_s": RET_EMPTY_S, "empty_l": RET_EMPTY_L, "empty_d": RET_EMPTY_D,
              "false": RET_FALSE, "nest": RET_NEST, "fzero": RET_FZERO,
              "ünï cödé \U0001F600": GN.ECHO, "with space": GN.ECHO, "dotted.func.name": GN.ECHO})
# methods whose call is expected to succeed with any arguments / with specific ones
ANY_ARGS = {"ok": ("ret", 42), "echo": ("echo",), "ünï cödé \U0001F600": ("echo",), "with space": ("echo",), "dotted.func.name": ("echo",),
            "none": ("ret", None), "zero": ("ret", 0), "empty_s": ("ret", ""), "empty_l": ("ret", []), "empty_d": ("ret", {}),
            "false": ("ret", False), "nest": ("ret", {"a": [1, {"b": None}, "é\U0001F600"], "": 0.5}), "fzero": ("ret", 0.0),
            "im": ("ret", {"im": [1, None]}), "sub.deep": ("ret", 0), "sub.inner.leaf": ("ret", {"im": [1, None]})}
CID_OF = dict(FUNCS)
CID_OF.update({"im": GN.IM, "sub.deep": GN.DEEP, "sub.inner.leaf": GN.IM})
OTHER_METHODS = ["fail", "fail2", "nope", "two", "kw", "opq", "_hidden", "sub._p", "flt"]


def dcase(sver, sjc):
    return {"ver": sver, "jsonclass": sjc, "table": table(), "funcs": dict(FUNCS), "inst": {"dispatch": None, "attrs": GN.TREE},
            "pool": 0, "pool_started": True, "dm": None, "kind": "default+instance", "body": ""}


# ---------------------------------------------------------------------------------- values

LEAVES = [None, True, False, 0, 1, -1, 2 ** 53, -(2 ** 53), 2 ** 53 - 1, 0.0, -0.0, 0.1, 1e308, 5e-324, -32000.5, 1.0,
          "", "a", "code", "\x00", "\"q\\", "é", "日本", "\U0001F600", "x" * 300, [], {}]


def rand_value(rng, depth, allow_jc=False):
    r = rng.random()
    if depth <= 0 or r < 0.45:
        return rng.choice(LEAVES)
    if r < 0.75:
        return [rand_value(rng, depth - 1, allow_jc) for _ in range(rng.randint(0, 3))]
    keys = ["a", "b", "", "code", "é k", "id", "result", "error", "jsonrpc", "method"] + (["__jsonclass__"] if allow_jc else [])
    return {k: rand_value(rng, depth - 1, allow_jc) for k in rng.sample(keys, rng.randint(0, 3))}


def rand_args(rng, depth, allow_jc=False):
    r = rng.random()
    if r < 0.45:
        return ["pos", [rand_value(rng, depth, allow_jc) for _ in range(rng.randint(0, 3))]]
    if r < 0.9:
        keys = ["a", "b", "k", "o", "x y", "é", "", "self_", "method"]
        return ["kw", {k: rand_value(rng, depth, allow_jc) for k in rng.sample(keys, rng.randint(0, 3))}]
    return ["pos", []]


def has_jc(v):
    if isinstance(v, dict):
        return "__jsonclass__" in v or any(has_jc(x) for x in v.values())
    if isinstance(v, (list, tuple)):
        return any(has_jc(x) for x in v)
    return False


def norm(v):
    if isinstance(v, (list, tuple)):
        return [norm(x) for x in v]
    if isinstance(v, dict):
        return {k: norm(x) for k, x in v.items()}
    return v


def same(a, b):
    """equality that tells 1 from 1.0 from True and 0.0 from -0.0"""
    if type(a) is not type(b):
        return False
    if isinstance(a, list):
        return len(a) == len(b) and all(same(x, y) for x, y in zip(a, b))
    if isinstance(a, dict):
        return list(a) == list(b) and all(same(a[k], b[k]) for k in a)
    if isinstance(a, float):
        return a.hex() == b.hex()
    return a == b


def mask(v):
    if isinstance(v, dict):
        return {k: (MARK if k == "id" and isinstance(x, str) and UUID.match(x) else mask(x)) for k, x in v.items()}
    if isinstance(v, list):
        return [mask(x) for x in v]
    return v


# ---------------------------------------------------------------------------------- servers

class _Loopback(object):
    def __init__(self, disp):
        self.disp = disp

    def push_headers(self, headers):
        pass

    def pop_headers(self, headers):
        pass

    def request(self, host, handler, request_body, verbose=0):
        if isinstance(request_body, bytes):
            request_body = request_body.decode("utf-8")
        try:
            return self.disp._marshaled_dispatch(request_body)
        except Exception:      # noqa
            # what do_POST and the HTTP transport make of an exception escaping the dispatcher: 500 -> TransportError
            import jsonrpclib.jsonrpc as JR
            raise JR.TransportError(host + handler, 500, "Internal Server Error", None)

    def close(self):
        pass


class Backend(object):
    """one server (bare dispatcher or real socket server) with the case's registry, kept for all cases of its kind"""

    def __init__(self, kind, sver, sjc, tmp):
        import jsonrpclib.config as C
        import jsonrpclib.SimpleJSONRPCServer as S
        self.kind = kind
        self.seen = []
        self.rt = K.Runtime(dcase(sver, sjc))          # builds the callables (and a dispatcher of its own)
        cfg = C.Config(version=sver, use_jsonclass=sjc)
        self.thread = None
        if kind == "dispatcher":
            self.srv = self.rt.disp
            self.uri = "http://localhost/"
        else:
            if kind == "unix":
                self.path = os.path.join(tmp, "c01-%d-%s.sock" % (int(sver), sjc))
                self.srv = S.SimpleJSONRPCServer(self.path, logRequests=False, config=cfg, address_family=socket.AF_UNIX)
                self.uri = "unix+http://localhost" + self.path
            else:
                cls = S.PooledJSONRPCServer if kind == "pooled" else S.SimpleJSONRPCServer
                self.srv = cls(("127.0.0.1", 0), logRequests=False, config=cfg)
                self.uri = "http://127.0.0.1:%d/" % self.srv.socket.getsockname()[1]
            for name, c in FUNCS.items():
                self.srv.register_function(self.rt.fns[c], name)
            self.srv.register_instance(self.rt._make_obj(GN.TREE, None))
            self.thread = threading.Thread(target=self.srv.serve_forever, kwargs={"poll_interval": 0.02}, daemon=True)
            self.thread.start()
        orig = self.srv._marshaled_dispatch
        seen = self.seen

        def recording(data, *a, **k):
            try:
                r = orig(data, *a, **k)
            except BaseException:
                seen.append((data, RAISED))
                raise
            seen.append((data, r))
            return r
        self.srv._marshaled_dispatch = recording
        # the callables log from whatever thread serves them
        self.rt.main_thread = None

    def transport(self):
        return _Loopback(self.srv) if self.kind == "dispatcher" else None

    def reset(self):
        del self.seen[:]
        with self.rt.lock:
            del self.rt.events[:]

    def log(self):
        with self.rt.lock:
            return [e for (_, e) in self.rt.events]

    def close(self):
        if self.thread is not None:
            self.srv.shutdown()
            self.srv.server_close()
            self.thread.join(10)


# ---------------------------------------------------------------------------------- the stream

def outcome(fn):
    try:
        return ("val", fn())
    except Exception as ex:    # noqa
        return ("exn", type(ex).__name__)


class Main(pipeline.Stream):
    name = "main"
    model_imports = "Payload Client Dispatch EndToEnd"
    case_type = "e2e_case"
    check_fn = "c01_check"
    shard = 120

    def setup(self):
        import jsonrpclib
        import jsonrpclib.config as C
        import jsonrpclib.history as H
        self.J, self.C, self.H = jsonrpclib, C, H
        self.tmp = tempfile.mkdtemp(prefix="c01-")
        self.backends = {}

    def teardown(self):
        for b in self.backends.values():
            try:
                b.close()
            except Exception:      # noqa
                pass
        self.backends = {}
        shutil.rmtree(self.tmp, ignore_errors=True)

    def backend(self, kind, sver, sjc):
        key = (kind, sver, sjc)
        if key not in self.backends:
            self.backends[key] = Backend(kind, sver, sjc, self.tmp)
        return self.backends[key]

    # ---- generation
    def _case(self, srv, sver, sjc, cver, carg, cjc, mjc, ops):
        return {"srv": srv, "sver": sver, "sjc": sjc, "cver": cver, "carg": carg, "cjc": cjc, "mjc": mjc, "ops": ops}

    def _rand_op(self, rng, allow_jc):
        r = rng.random()
        m = rng.choice(list(ANY_ARGS)) if rng.random() < 0.8 else rng.choice(OTHER_METHODS)
        args = rand_args(rng, rng.randint(0, 3), allow_jc)
        if m in ("im", "sub.deep", "sub.inner.leaf") or ANY_ARGS.get(m, ("x",))[0] == "ret" and rng.random() < 0.3:
            args = ["pos", []] if rng.random() < 0.5 else args
        if r < 0.55:
            return ["call", m, args]
        if r < 0.7:
            return ["notify", m, args]
        jobs = []
        for _ in range(rng.randint(1, 5)):
            jm = rng.choice(list(ANY_ARGS)) if rng.random() < 0.85 else rng.choice(OTHER_METHODS)
            jobs.append([jm, rand_args(rng, rng.randint(0, 2), allow_jc), rng.random() < 0.3])
        return ["batch", jobs]

    def gen(self, tier, rng):
        cases = []
        vers = [1.0, 2.0]
        # every leaf once as the sole positional and once as a keyword argument, both versions, loopback
        for leaf in LEAVES:
            for v in vers:
                cases.append(self._case("dispatcher", v, True, v, None, True, True,
                                        [["call", "echo", ["pos", [leaf]]], ["call", "echo", ["kw", {"k": leaf}]]]))
        # class translation off on every side: "__jsonclass__" members are plain data and travel unchanged
        for payload in ({"__jsonclass__": ["decimal.Decimal", ["1.5"]]}, {"__jsonclass__": 5, "x": [{"__jsonclass__": []}]},
                        [{"__jsonclass__": ["collections.OrderedDict", {}]}, 1]):
            for v in vers:
                cases.append(self._case("dispatcher", v, False, v, None, False, False,
                                        [["call", "echo", ["pos", [payload]]], ["call", "echo", ["kw", {"k": payload}]],
                                         ["batch", [["echo", ["pos", [payload]], False], ["echo", ["kw", {"a": payload}], True]]]]))
            for kind in ("tcp", "pooled", "unix"):
                cases.append(self._case(kind, 2.0, False, 2.0, None, False, False,
                                        [["call", "echo", ["pos", [payload]]], ["batch", [["echo", ["kw", {"a": payload}], False]]]]))
        # the same MultiCall object used again after a batch that got no response (notifications only), and after one that did
        for v in vers:
            for kind in ("dispatcher", "tcp"):
                cases.append(self._case(kind, v, True, v, None, True, True,
                                        [["batch", [["echo", ["pos", [1]], True], ["ok", ["pos", []], True]]],
                                         ["batch", [["echo", ["pos", [2]], False]]],
                                         ["batch", [["echo", ["kw", {"k": 3}], False], ["none", ["pos", []], True]]],
                                         ["batch", [["zero", ["pos", []], False]]]]))
        # every configuration combination of the real transports a few times
        n_real = {"tcp": 3, "pooled": 2, "unix": 2} if tier == "quick" else {"tcp": 12, "pooled": 8, "unix": 8}
        for kind, reps in n_real.items():
            for sver in vers:
                for carg in (None, 1.0, 2.0):
                    for _ in range(reps):
                        cjc = rng.random() < 0.7
                        ops = [self._rand_op(rng, False) for _ in range(rng.randint(1, 4))]
                        cases.append(self._case(kind, sver, True, rng.choice(vers), carg, cjc, cjc, ops))
        # the loopback: everything at random
        for _ in range(350 if tier == "quick" else 5000):
            sjc, cjc = rng.random() < 0.7, rng.random() < 0.7
            mjc = cjc if rng.random() < 0.8 else (not cjc)
            allow_jc = not (sjc or cjc or mjc) and rng.random() < 0.5
            ops = [self._rand_op(rng, allow_jc) for _ in range(rng.randint(1, 4))]
            cases.append(self._case("dispatcher", rng.choice(vers), sjc, rng.choice(vers), rng.choice([None, None, 1.0, 2.0]),
                                    cjc, mjc, ops))
        return cases

    # ---- implementation
    def run_impl(self, case):
        b = self.backend(case["srv"], case["sver"], case["sjc"])
        b.reset()
        ccfg = self.C.Config(version=case["cver"], use_jsonclass=case["cjc"])
        mcfg = self.C.Config(version=case["cver"], use_jsonclass=case["mjc"])
        hist = self.H.History()
        kw = {"config": ccfg, "history": hist}
        if case["carg"] is not None:
            kw["version"] = case["carg"]
        tr = b.transport()
        if tr is not None:
            kw["transport"] = tr
        proxy = self.J.ServerProxy(b.uri, **kw)
        outs, marks = [], []
        mc_obj = None
        try:
            for op in case["ops"]:
                n0 = len(b.log())
                if op[0] in ("call", "notify"):
                    target = proxy._notify if op[0] == "notify" else proxy
                    meth = getattr(target, op[1]) if op[1].isidentifier() else getattr(target, op[1])
                    a = op[2]
                    if a[0] == "pos":
                        outs.append(outcome(lambda: meth(*a[1])))
                    else:
                        outs.append(outcome(lambda: meth(**a[1])))
                else:
                    if mc_obj is None:
                        mc_obj = self.J.MultiCall(proxy, config=mcfg)      # ONE MultiCall object per case, re-used by every batch
                    mc = mc_obj
                    for (jm, ja, jn) in op[1]:
                        t = mc._notify if jn else mc
                        job = getattr(t, jm)
                        if ja[0] == "pos":
                            job(*ja[1])
                        else:
                            job(**ja[1])

                    def run_batch():
                        res = mc()
                        if res is None:
                            return None
                        items = []
                        it = iter(res)
                        while True:
                            try:
                                items.append(("val", next(it)))
                            except StopIteration:
                                break
                            except Exception as ex:    # noqa
                                items.append(("exn", type(ex).__name__))
                                break
                        return items
                    outs.append(outcome(run_batch))
                    if outs[-1][0] == "exn":
                        # a MultiCall whose call raised keeps its jobs (they would be sent again by a retry); the statement
                        # (fault-free exchanges, JSON-representable results) says nothing about re-using it for other jobs
                        mc_obj = None
                marks.append((n0, len(b.log())))
        finally:
            try:
                proxy("close")()
            except Exception:      # noqa
                pass
        return {"outs": outs, "log": b.log(), "marks": marks, "hreq": list(hist.requests), "hresp": list(hist.responses),
                "seen": list(b.seen)}

    # ---- the statement
    def _expect_call(self, m, a):
        """(cid, entered-with, result) when the statement promises success for this call, else None"""
        if m not in ANY_ARGS:
            return None
        beh = ANY_ARGS[m]
        pos = norm(a[1]) if a[0] == "pos" else []
        kws = norm(a[1]) if a[0] == "kw" else {}
        entered = [pos, kws]
        return (CID_OF[m], entered, entered if beh[0] == "echo" else beh[1])

    def oracle(self, case, obs):
        side_jc = case["sjc"] or case["cjc"]
        for i, (op, out, (n0, n1)) in enumerate(zip(case["ops"], obs["outs"], obs["marks"])):
            calls = obs["log"][n0:n1]
            where = "operation %d %r" % (i, op[:2])
            if op[0] in ("call", "notify"):
                exp = self._expect_call(op[1], op[2])
                if op[0] == "notify" and out != ("val", None):
                    if exp is not None:
                        return ("C01:notification-not-none", "%s: a notification call gave %r" % (where, out))
                if exp is None:
                    continue
                cid, entered, result = exp
                mine = [c for c in calls if c[0] == "call"]
                if len(mine) != 1 or mine[0][1] != cid or not same(mine[0][2], entered):
                    return ("C01:not-invoked-exactly-once-with-arguments", "%s: invocation log %r, expected one call of callable %d with %r" % (
                        where, mine[:3], cid, entered))
                if op[0] == "call":
                    if out[0] != "val" or not same(out[1], norm(result)):
                        return ("C01:result-not-returned", "%s: returned %r, the callable returned %r" % (where, out, result))
            else:
                jobs = op[1]
                exps = [self._expect_call(jm, ja) for (jm, ja, jn) in jobs]
                if any(e is None for e in exps):
                    continue
                mine = [c for c in calls if c[0] == "call"]
                if len(mine) != len(jobs) or any(c[1] != e[0] or not same(c[2], e[1]) for c, e in zip(mine, exps)):
                    return ("C01:batch-not-invoked-once-each-in-order", "%s: invocation log %r" % (where, mine[:5]))
                want = [("val", norm(e[2])) for e, (jm, ja, jn) in zip(exps, jobs) if not jn]
                got = out[1] if out[0] == "val" else out
                if out[0] != "val" or got is None or len(got) != len(want) or any(
                        g[0] != "val" or not same(g[1], w[1]) for g, w in zip(got, want)):
                    return ("C01:batch-results", "%s: results %r, expected %r" % (where, got, want))
        # History = exactly the texts exchanged, in order
        sent = [d for (d, r) in obs["seen"]]
        recv = [r for (d, r) in obs["seen"] if r is not RAISED]
        if [t if isinstance(t, str) else t.decode("utf-8") for t in obs["hreq"]] != sent:
            return ("C01:history-requests", "History.requests %r, the server received %r" % (obs["hreq"][:3], sent[:3]))
        if list(obs["hresp"]) != recv:
            return ("C01:history-responses", "History.responses %r, the server sent %r" % (obs["hresp"][:3], recv[:3]))
        return None

    # ---- Gallina
    def _g_args(self, a):
        if a[0] == "pos":
            return "(Positional %s)" % G.g_list([G.g_val(x) for x in a[1]])
        return "(Keyword %s)" % G.g_list(["(%s, %s)" % (G.g_val(k), G.g_val(x)) for k, x in a[1].items()])

    def _g_out(self, o):
        if o[0] == "exn":
            return "(OutExn %s)" % G.g_str(o[1])
        return "(OutVal %s)" % G.g_val(K.to_model_val(o[1]))

    def encode(self, case, obs):
        try:
            dc = dcase(case["sver"], case["sjc"])
            ops, outs = [], []
            for op, out in zip(case["ops"], obs["outs"]):
                if op[0] == "call":
                    ops.append("(OpCall %s %s)" % (G.g_str(op[1]), self._g_args(op[2])))
                    outs.append(self._g_out(out))
                elif op[0] == "notify":
                    ops.append("(OpNotify %s %s)" % (G.g_str(op[1]), self._g_args(op[2])))
                    outs.append("OutNone" if out[0] == "val" else self._g_out(out))
                else:
                    ops.append("(OpBatch %s)" % G.g_list(["(mkJob %s %s %s)" % (G.g_str(jm), self._g_args(ja), G.g_bool(jn)) for (jm, ja, jn) in op[1]]))
                    if out[0] == "exn":
                        outs.append(self._g_out(out))
                    elif out[1] is None:
                        outs.append("OutNone")
                    else:
                        outs.append("(OutBatch %s)" % G.g_list([self._g_out(x) for x in out[1]]))
            rs = K.raisers(dc)

            def resp(t):
                if not t:
                    return "None"
                v = json.loads(t)
                v = [K.obs_obj(rs, o) for o in v] if isinstance(v, list) else K.obs_obj(rs, v)
                return "(Some %s)" % G.g_val(mask(v))
            pc = lambda ver, jc: "(mkPcfg %s %s)" % (G.g_val(ver), G.g_bool(jc))      # noqa
            return "(mkE2E %s %s %s %s (mkClient %s %s) %s %s %s %s %s %s)" % (
                G.g_list([K.g_cdesc(d) for d in dc["table"]]), K.g_reg(dc), K.g_form(case["sver"]), G.g_bool(case["sjc"]),
                pc(case["cver"], case["cjc"]), G.g_val(case["carg"]), pc(case["cver"], case["mjc"]),
                G.g_list(ops), G.g_list(outs), G.g_list([K.g_event(e) for e in obs["log"]]),
                G.g_list([G.g_val(mask(json.loads(t))) for t in obs["hreq"]]), G.g_list([resp(t) for t in obs["hresp"]]))
        except (ValueError, TypeError):
            return None

    # ---- bookkeeping
    def nontrivial(self, case, obs):
        def interesting(v):
            if isinstance(v, (list, dict)):
                return True
            return v in (None, False, 0, "", 0.0) or (isinstance(v, str) and not v.isascii()) or (isinstance(v, (int, float)) and abs(v) >= 2 ** 52)
        for op in case["ops"]:
            argsets = [op[2]] if op[0] != "batch" else [j[1] for j in op[1]]
            for a in argsets:
                vals = a[1] if a[0] == "pos" else list(a[1].values())
                if any(interesting(v) for v in vals):
                    return True
        return any(o[0] == "val" and interesting(o[1]) for o in obs["outs"])

    def kind(self, case, obs):
        return "%s / server v%s / client v%s arg %s / jc %s-%s / %s" % (
            case["srv"], case["sver"], case["cver"], case["carg"], "on" if case["cjc"] else "off", "on" if case["sjc"] else "off",
            "+".join(sorted(set(op[0] for op in case["ops"]))))

    def describe(self, case, obs):
        return {"case": ser.to_json(case), "outcomes": ser.to_json(obs["outs"]), "invocations": ser.to_json(obs["log"][:12]),
                "history_requests": obs["hreq"][:6], "history_responses": obs["hresp"][:6]}

    def shrink(self, case):
        ops = case["ops"]
        if len(ops) > 1:
            for i in range(len(ops)):
                yield dict(case, ops=ops[:i] + ops[i + 1:])
        for i, op in enumerate(ops):
            if op[0] == "batch" and len(op[1]) > 1:
                for j in range(len(op[1])):
                    yield dict(case, ops=ops[:i] + [["batch", op[1][:j] + op[1][j + 1:]]] + ops[i + 1:])
            if op[0] != "batch":
                a = op[2]
                items = list(a[1]) if a[0] == "pos" else list(a[1].items())
                for j in range(len(items)):
                    rest = items[:j] + items[j + 1:]
                    yield dict(case, ops=ops[:i] + [[op[0], op[1], [a[0], rest if a[0] == "pos" else dict(rest)]]] + ops[i + 1:])
        if case["srv"] != "dispatcher":
            yield dict(case, srv="dispatcher")


# ---------------------------------------------------------------------------------- registrations that change

TREE_B = {"im": ["call", GN.DEEP], "data": ["data"],
          "sub": ["obj", {"deep": ["call", GN.IM], "inner": ["obj", {"leaf": ["call", GN.OK]}]}]}
TREE_C = {"im": ["call", GN.OK], "sub": ["obj", {"deep": ["call", GN.ECHO], "inner": ["obj", {"leaf": ["call", GN.DEEP]}]}],
          "echo": ["call", GN.IM]}
TREE_D = {"only": ["call", GN.OK]}          # none of the usual names: what was served before is now unknown
TREES = {"A": GN.TREE, "B": TREE_B, "C": TREE_C, "D": TREE_D}
SUBS = {"s1": {"deep": ["call", GN.OK], "inner": ["obj", {"leaf": ["call", GN.ECHO]}]},
        "s2": {"deep": ["call", GN.ECHO], "inner": ["obj", {"leaf": ["call", GN.DEEP]}]}}
REG_NAMES = ["im", "sub.deep", "sub.inner.leaf", "echo", "ok", "svc"]
REG_CIDS = [GN.OK, GN.ECHO, GN.IM, GN.DEEP]
RESULT_OF = {GN.OK: 42, GN.IM: {"im": [1, None]}, GN.DEEP: 0}


def resolve(funcs, tree, name):
    """the callable the registrations in force designate for `name` (None: no such method)"""
    if name in funcs:
        return funcs[name]
    node = ["obj", tree] if tree is not None else None
    for seg in name.split("."):
        if node is None or node[0] != "obj" or seg.startswith("_") or seg not in node[1]:
            return None
        node = node[1][seg]
    return node[1] if node is not None and node[0] == "call" else None


class Registry(pipeline.Stream):
    """'every callable registered on a server' over the life of one server: functions are registered and re-registered,
    the instance is replaced, a member reached by a dotted name is replaced, between calls of the same names; every call must
    reach the callable the registrations in force at that moment designate.  Each call is one Model/Dispatch.v case under
    the registry of its moment."""
    name = "registry"
    model_imports = "Dispatch EndToEnd"
    case_type = "list dcase"
    check_fn = "registry_check"
    shard = 150

    def setup(self):
        import jsonrpclib
        import jsonrpclib.config as C
        self.J, self.C = jsonrpclib, C

    def _rand_steps(self, rng, n):
        steps = []
        for _ in range(n):
            r = rng.random()
            if r < 0.5:
                name = rng.choice(REG_NAMES)
                args = rand_args(rng, rng.randint(0, 2)) if rng.random() < 0.5 else ["pos", []]
                steps.append(["call", name, args])
            elif r < 0.65:
                steps.append(["regf", rng.choice(["echo", "ok", "svc", "im", "sub.deep"]), rng.choice(REG_CIDS)])
            elif r < 0.82:
                steps.append(["reginst", rng.choice(sorted(TREES))])
            elif r < 0.92:
                steps.append(["setsub", rng.choice(sorted(SUBS))])
            else:
                steps.append(["delattr", rng.choice(["im", "sub", "echo"])])
        return steps

    def gen(self, tier, rng):
        cases = []
        for v in (1.0, 2.0):
            # the documented histories: replace the instance / a member / a function between two calls of one name
            for name in ("im", "sub.deep", "sub.inner.leaf"):
                cases.append({"sver": v, "steps": [["reginst", "A"], ["call", name, ["pos", []]], ["reginst", "B"], ["call", name, ["pos", []]],
                                                   ["reginst", "C"], ["call", name, ["pos", [1]] if name == "sub.deep" else ["pos", []]]]})
                cases.append({"sver": v, "steps": [["reginst", "A"], ["call", name, ["pos", []]], ["setsub", "s1"], ["call", name, ["pos", []]],
                                                   ["setsub", "s2"], ["call", name, ["pos", []]]]})
            cases.append({"sver": v, "steps": [["regf", "svc", GN.OK], ["call", "svc", ["pos", []]], ["regf", "svc", GN.IM], ["call", "svc", ["pos", []]],
                                               ["regf", "svc", GN.ECHO], ["call", "svc", ["kw", {"k": [1]}]]]})
            cases.append({"sver": v, "steps": [["reginst", "A"], ["call", "im", ["pos", []]], ["regf", "im", GN.OK], ["call", "im", ["pos", []]],
                                               ["reginst", "B"], ["call", "im", ["pos", []]]]})
            # a name that was served stops existing: the instance is replaced by one without it, the attribute is deleted
            for name in ("im", "sub.deep", "sub.inner.leaf"):
                cases.append({"sver": v, "steps": [["reginst", "A"], ["call", name, ["pos", []]], ["reginst", "D"], ["call", name, ["pos", []]],
                                                   ["call", "only", ["pos", []]]]})
                cases.append({"sver": v, "steps": [["reginst", "A"], ["call", name, ["pos", []]], ["delattr", name.split(".")[0]],
                                                   ["call", name, ["pos", []]], ["call", name, ["pos", []]]]})
        for _ in range(120 if tier == "quick" else 2500):
            cases.append({"sver": rng.choice([1.0, 2.0]), "steps": self._rand_steps(rng, rng.randint(3, 10))})
        return cases

    def run_impl(self, case):
        dc = dcase(case["sver"], True)
        dc["funcs"], dc["inst"] = {}, None
        rt = K.Runtime(dc)
        funcs, tree, inst = {}, None, [None]
        calls = []
        seen = []
        orig = rt.disp._marshaled_dispatch

        def recording(data, *a, **k):
            r = orig(data, *a, **k)
            seen.append((data, r))
            return r
        rt.disp._marshaled_dispatch = recording
        proxy = self.J.ServerProxy("http://localhost/", transport=_Loopback(rt.disp), config=self.C.Config(version=case["sver"]))
        try:
            for st in case["steps"]:
                if st[0] == "regf":
                    rt.disp.register_function(rt.fns[st[2]], st[1])
                    funcs[st[1]] = st[2]
                elif st[0] == "reginst":
                    tree = json.loads(json.dumps(TREES[st[1]]))
                    inst[0] = rt._make_obj(tree, None)
                    rt.disp.register_instance(inst[0])
                elif st[0] == "setsub":
                    if inst[0] is None:
                        continue
                    tree = dict(tree, sub=["obj", json.loads(json.dumps(SUBS[st[1]]))])
                    inst[0].sub = rt._make_obj(tree["sub"][1], None)
                elif st[0] == "delattr":
                    if inst[0] is None or st[1] not in tree:
                        continue
                    tree = {k: v for k, v in tree.items() if k != st[1]}
                    delattr(inst[0], st[1])
                else:
                    n0, s0 = len(rt.events), len(seen)
                    a = st[2]
                    meth = getattr(proxy, st[1])
                    detail = [None]

                    def call():
                        try:
                            return meth(*a[1]) if a[0] == "pos" else meth(**a[1])
                        except self.J.ProtocolError as ex:
                            detail[0] = ex.args[0] if ex.args else None
                            raise
                    out = outcome(call)
                    with rt.lock:
                        log = [e for (_, e) in rt.events[n0:]]
                    calls.append({"name": st[1], "args": a, "out": out, "detail": detail[0], "log": log, "exchange": seen[s0:],
                                  "funcs": dict(funcs), "tree": None if tree is None else json.loads(json.dumps(tree))})
        finally:
            rt.close()
        return {"calls": calls}

    def oracle(self, case, obs):
        for i, c in enumerate(obs["calls"]):
            cid = resolve(c["funcs"], c["tree"], c["name"])
            if cid is None or (cid != GN.ECHO and (c["args"][1] != [] and c["args"][1] != {})):
                continue
            pos = norm(c["args"][1]) if c["args"][0] == "pos" else []
            kws = norm(c["args"][1]) if c["args"][0] == "kw" else {}
            entered = [pos, kws]
            where = "call %d of %r (functions %r, instance %s)" % (i, c["name"], sorted(c["funcs"]), "registered" if c["tree"] is not None else "none")
            mine = [e for e in c["log"] if e[0] == "call"]
            if len(mine) != 1 or mine[0][1] != cid or not same(mine[0][2], entered):
                return ("C01:registered-callable-not-invoked", "%s: invocation log %r, the registrations in force designate callable %d" % (
                    where, mine[:3], cid))
            want = entered if cid == GN.ECHO else RESULT_OF[cid]
            if c["out"][0] != "val" or not same(c["out"][1], norm(want)):
                return ("C01:result-not-returned", "%s: returned %r, the callable returned %r" % (where, c["out"], want))
        return None

    def encode(self, case, obs):
        terms = []
        for c in obs["calls"]:
            if len(c["exchange"]) != 1:
                return None
            body, text = c["exchange"][0]
            dc = dcase(case["sver"], True)
            dc["funcs"] = c["funcs"]
            dc["inst"] = None if c["tree"] is None else {"dispatch": None, "attrs": c["tree"]}
            o = {"raised": None, "text": text, "log": c["log"], "drained": []}
            t = K.encode_case(dc, o, K.parse_outcome(self.J, body, self.C.Config(version=case["sver"])))
            if t is None:
                return None
            # generated request ids are UUIDs: the model echoes whatever id the request carries
            terms.append(t)
        return G.g_list(terms)

    def nontrivial(self, case, obs):
        names = [c["name"] for c in obs["calls"]]
        return len(obs["calls"]) >= 2 and len(set(names)) < len(names)

    def kind(self, case, obs):
        ks = sorted(set(st[0] for st in case["steps"]))
        return "server v%s / %s" % (case["sver"], "+".join(ks))

    def describe(self, case, obs):
        return {"server_version": case["sver"], "steps": ser.to_json(case["steps"]),
                "calls": [{"name": c["name"], "args": ser.to_json(c["args"]), "outcome": ser.to_json(c["out"]),
                           "invocations": ser.to_json(c["log"][:4])} for c in obs["calls"]]}

    def shrink(self, case):
        st = case["steps"]
        for i in range(len(st)):
            yield dict(case, steps=st[:i] + st[i + 1:])


class Builtins(pipeline.Stream):
    """oracle only: 'every callable registered on a server' includes callables implemented in C, which have no introspectable
    signature, no __code__, sometimes no __name__ (functools.partial).  The reference is the callable itself applied to the same
    arguments.  (Model/Dispatch.v treats a callable as a function of its arguments, so these are inside the theorems' universe;
    they are outside the correspondence only because their result functions are not in the model's behaviour vocabulary.)"""
    name = "builtins"
    model_imports = "Dispatch"
    case_type = "unit"
    check_fn = "(fun _ => true)"

    def setup(self):
        import jsonrpclib
        import jsonrpclib.config as C
        self.J, self.C = jsonrpclib, C

    @staticmethod
    def registry():
        import functools
        import math
        import operator
        return {"bmax": max, "bmin": min, "babs": abs, "blen": len, "bint": int, "bstr": str, "bsum": sum, "bsorted": sorted,
                "bpartial": functools.partial(max, 0), "bhypot": math.hypot, "bdivmod": divmod, "bfloor": math.floor,
                "badd": operator.add, "bconcat": operator.concat, "bjoin": "-".join, "bupper": "abc".upper,
                "bdictget": {"a": 1, "b": [2]}.get, "bbool": bool, "blist": list, "brepr": repr}

    CALLS = [("bmax", [1, 5, 3]), ("bmax", [[4, 9, 2]]), ("bmin", [2.5, -1]), ("babs", [-7]), ("blen", [[1, 2, 3]]), ("blen", ["héllo"]),
             ("bint", ["42"]), ("bint", [7.9]), ("bint", []), ("bstr", [12]), ("bstr", []), ("bsum", [[1, 2, 3.5]]), ("bsorted", [[3, 1, 2]]),
             ("bpartial", [-5]), ("bpartial", [8, 3]), ("bhypot", [3, 4]), ("bdivmod", [17, 5]), ("bfloor", [2.7]), ("badd", [1, 2]),
             ("bconcat", [[1], [2]]), ("bjoin", [["a", "b"]]), ("bupper", []), ("bdictget", ["b"]), ("bdictget", ["zz", "dflt"]),
             ("bbool", [[]]), ("bbool", [0.1]), ("blist", ["ab"]), ("brepr", [[1, "x"]])]

    def gen(self, tier, rng):
        cases = []
        for sver, cver in itertools.product([1.0, 2.0], [1.0, 2.0]):
            for how in ("call", "batch"):
                cases.append({"sver": sver, "cver": cver, "how": how, "calls": [list(c) for c in self.CALLS]})
        return cases

    def run_impl(self, case):
        from jsonrpclib.SimpleJSONRPCServer import SimpleJSONRPCDispatcher
        disp = SimpleJSONRPCDispatcher(config=self.C.Config(version=case["sver"]))
        reg = self.registry()
        for n, f in reg.items():
            disp.register_function(f, n)
        proxy = self.J.ServerProxy("http://localhost/", transport=_Loopback(disp), config=self.C.Config(version=case["cver"]))
        outs = []
        if case["how"] == "call":
            for (n, a) in case["calls"]:
                outs.append(outcome(lambda: getattr(proxy, n)(*a)))
        else:
            mc = self.J.MultiCall(proxy)
            for (n, a) in case["calls"]:
                getattr(mc, n)(*a)
            try:
                res = mc()
                it = iter(res)
                for _ in case["calls"]:
                    try:
                        outs.append(("val", next(it)))
                    except StopIteration:
                        outs.append(("exn", "StopIteration"))
                    except Exception as ex:    # noqa
                        outs.append(("exn", type(ex).__name__))
            except Exception as ex:    # noqa
                outs = [("exn", type(ex).__name__)] * len(case["calls"])
        return {"outs": outs}

    def oracle(self, case, obs):
        reg = self.registry()
        for (n, a), out in zip(case["calls"], obs["outs"]):
            want = norm(reg[n](*a))
            if isinstance(want, tuple):
                want = list(want)
            want = json.loads(json.dumps(want))
            if out[0] != "val" or not same(out[1], want):
                return ("C01:result-not-returned", "%s%r (a callable implemented in C, %s): got %r, the callable returns %r" % (
                    n, tuple(a), case["how"], out, want))
        return None

    def encode(self, case, obs):
        return None

    def nontrivial(self, case, obs):
        return True

    def kind(self, case, obs):
        return "builtins / server v%s / client v%s / %s" % (case["sver"], case["cver"], case["how"])

    def describe(self, case, obs):
        return {"server_version": case["sver"], "client_version": case["cver"], "how": case["how"],
                "outcomes": ser.to_json([[n, a, o] for (n, a), o in zip(case["calls"], obs["outs"])][:30])}

    def to_replay(self, case):
        return ser.to_json(case)

    def from_replay(self, j):
        return ser.from_json(j)

    def shrink(self, case):
        cs = case["calls"]
        for i in range(len(cs)):
            yield dict(case, calls=cs[:i] + cs[i + 1:])


def streams():
    return [Main(), Registry(), Builtins()]
