"""C18 -- custom headers compose by recency and are restored after a block."""
import base64
import copy
import itertools

from harness.core import pipeline, gallina as G, values as V, ser
from harness.payload_support import fakehttp

PROP_ID = "C18"
MANIFEST_ENTRY = {
    "text": ("Theorems for ALL stacks (any depth, any letter case) and ALL enter/leave sequences (normal and exceptional exits) "
             "about a Gallina model of push/pop_headers, emit_additional_headers, send_content and the _additional_headers "
             "context manager: each defined name is carried exactly once with the str() of the most recent definition, nothing "
             "else is emitted, Content-Type/Content-Length cannot be overridden, User-Agent falls back to the configured one, "
             "the stack after any event sequence is the initial one plus the open blocks. The model is checked against the real "
             "code on every stack of <= 2 dictionaries x <= 2 entries over a 13-name case-variant pool, random 3-4 level "
             "stacks, and every nesting of <= 3 blocks x exit kinds."),
    "note": ("Modelled, not verified: str() of header values (ints, bools, None, strings concrete; other objects an arbitrary "
             "function), ASCII names only, contextlib.contextmanager (generator closed at the yield on an exceptional exit), "
             "xmlrpc's get_host_info (Authorization from user-info is the base layer), http.client line formatting (an "
             "in-process recording connection stands for it; a loopback HTTP peer is used for a subset, oracle only)."),
    "technique": "Coq proof over a hand-written executable model + differential correspondence check (vm_compute) + property oracle",
    "design_ref": "DESIGN.md 4/C18",
}
# line ranges in the repaired tree: stack + push/pop, emit_additional_headers, send_content, ServerProxy ctor push, _additional_headers
ANCHOR_RANGES = [("jsonrpclib/jsonrpc.py", 263, 288), ("jsonrpclib/jsonrpc.py", 290, 327), ("jsonrpclib/jsonrpc.py", 385, 409),
                 ("jsonrpclib/jsonrpc.py", 607, 608), ("jsonrpclib/jsonrpc.py", 724, 744)]
RULE = ("programs = (URL user-info or not, content type / user agent default or custom, constructor headers, a well-nested "
        "sequence of enter(dict) / leave(normal|exception) / request(call|notification|batch) events): every stack of <= 2 "
        "dictionaries with <= 2 entries over 13 names (three spellings of a custom name and of User-Agent, Content-Type x2, "
        "Content-Length x2, Authorization x2, one other) with pairwise distinct values of 5 kinds (quick: a seeded sample; "
        "thorough: all), every value of the value pool, random stacks of 3-4 dictionaries, every nesting of <= 3 blocks x "
        "every combination of normal/exceptional exits with a request after every event; a few programs against a loopback "
        "HTTP peer. Non-trivial: at least one custom header in force at some request. Distinct by canonical hash."
        ' Added after the seeded rounds: every 5th program is run again with the requests sent from a helper thread.')
EXHAUSTIVE = "stacks of <= 2 dictionaries x <= 2 entries over the 13-name pool; nestings of <= 3 blocks x exit kinds (thorough tier)"
TRUSTED = ["modelled, not verified: str() of values, ASCII lower-casing = str.lower() on ASCII names, dict.update / insertion order",
           "contextlib.contextmanager semantics (exception thrown into the generator at the yield)",
           "xmlrpc.client.Transport.get_host_info (Authorization line from the URL's user-info) is run for real; "
           "http.client is replaced by an in-process recording connection (harness/payload_support/fakehttp.py), "
           "and exercised for real only for the loopback-peer subset (oracle only)"]
ASSUMPTIONS = ["header names are ASCII strings; values are str, int, bool, None or one of six floats",
               "if one pushed dictionary itself contains two case variants of a name, either of its values is accepted",
               "blocks are left in LIFO order (they are `with` statements)"]

NAMES = ["X-Custom", "x-custom", "X-CUSTOM", "User-Agent", "user-agent", "USER-AGENT", "Content-Type", "content-type",
         "CONTENT-LENGTH", "Content-Length", "Authorization", "authorization", "X-Other"]
FLOATS = [1.5, 2.0, 0.25, -2.5, 0.0, -0.0]
VALS = ["v1", 7, 1.5, True, None, "v2", 0, -2.5, False, 2.0, "v3", -1, 0.25, "", 10 ** 20]
VALUE_POOL = ["", "a", "text/plain; q=1", "é", "x" * 200, 0, 1, -1, 2 ** 70, True, False, None] + FLOATS
KINDS = ["call", "notify", "batch"]


class BlockExit(Exception):
    pass


def dict_shapes():
    out = [()]
    out += [(a,) for a in NAMES]
    out += [(a, b) for a in NAMES for b in NAMES if a != b]
    return out


def fill(shapes, offset=0):
    """give every entry of the stack a distinct value"""
    k = offset
    dicts = []
    for names in shapes:
        d = {}
        for n in names:
            d[n] = VALS[k % len(VALS)]
            k += 1
        dicts.append(d)
    return dicts


def program(ctor=None, ops=(), userinfo=None, ct=None, ua=None, peer="fake"):
    return {"userinfo": userinfo, "ct": ct, "ua": ua, "ctor": ctor, "ops": [list(o) for o in ops], "peer": peer}


def dyck(n):
    """all well-nested words with n pairs as lists of '(' / ')'"""
    if n == 0:
        return [[]]
    out = []
    for k in range(n):
        for a in dyck(k):
            for b in dyck(n - 1 - k):
                out.append(["("] + a + [")"] + b)
    return out


class Main(pipeline.Stream):
    name = "main"
    model_imports = "HeadersObs"
    case_type = "lines * str * str * option hdict * list op * list event"
    check_fn = "c18_check"
    shard = 400

    def setup(self):
        import jsonrpclib
        import jsonrpclib.jsonrpc as J
        import jsonrpclib.config as C
        self.J, self.C = J, C
        self.peer = None
        # frequent strings are defined once per case file (parsing string literals dominates coqc's time)
        common = set(NAMES) | set(n.lower() for n in NAMES) | set(str(v) for v in VALS) | {
            "Accept-Encoding", "gzip", "Content-Type", "Content-Length", "User-Agent", "application/json", "agent/1.0 (x)",
            "agent/2.0", C.DEFAULT.content_type, C.DEFAULT.user_agent, "Basic dXNlcjpwdw==", "Basic Ym9iOnNAY3JldA==", "Basic dTpw"}
        self.table = {}
        defs = ["Fixpoint filler (n : nat) : string := match n with O => EmptyString | S k => String \"x\"%char (filler k) end."]
        for k, t in enumerate(sorted(common)):
            self.table[t] = "S%d" % k
            defs.append("Definition S%d : string := %s." % (k, G.g_str(t)))
        self.extra_defs = "\n".join(defs) + "\n"

    def _s(self, t):
        return self.table.get(t) or G.g_str(t)

    def teardown(self):
        if self.peer is not None:
            self.peer.stop()
            self.peer = None

    # ------------------------------------------------------------------ generator
    def gen(self, tier, rng):
        cases = []
        shapes = dict_shapes()
        # (a) every stack of <= 2 dictionaries with <= 2 entries
        pairs = [(a, b) for a in shapes for b in [None] + shapes]
        if tier == "quick":
            pairs = rng.sample(pairs, 2500)
        for k, (a, b) in enumerate(pairs):
            ds = fill([a] + ([b] if b is not None else []), offset=k)
            ops = [("request", KINDS[k % 3])]
            if b is not None:
                ops = [("enter", ds[1]), ("request", KINDS[k % 3]), ("leave", "normal" if k % 2 else "exception"),
                       ("request", "call")]
            cases.append(program(ctor=ds[0] if (a or k % 5) else None, ops=ops, userinfo="user:pw" if k % 3 == 0 else None,
                                 ct="application/json" if k % 7 == 0 else None, ua="agent/1.0 (x)" if k % 4 == 0 else None))
        # (b) every value of the pool, under every spelling kind
        for v, n in itertools.product(VALUE_POOL, ["X-Custom", "user-agent", "Content-Type", "AUTHORIZATION"]):
            cases.append(program(ctor={n: v}, ops=[("request", "call")], userinfo="u:p" if n == "AUTHORIZATION" else None))
            cases.append(program(ctor={"x-custom": "base"}, ops=[("enter", {n: v}), ("request", "notify"), ("leave", "normal")]))
        # (c) every nesting of <= 3 blocks x exit kinds, a request after every event
        block_dicts = [{"X-Custom": "one", "User-Agent": "ua-one"}, {"x-custom": 2, "content-type": "text/two"},
                       {"X-CUSTOM": 3.0 if False else 2.0, "user-agent": None}]
        for n in (1, 2, 3):
            for word in dyck(n):
                for exits in itertools.product(["normal", "exception"], repeat=n):
                    ops, opened, closed = [("request", "call")], 0, 0
                    stack = []
                    for ch in word:
                        if ch == "(":
                            ops.append(("enter", block_dicts[opened % 3]))
                            stack.append(opened)
                            opened += 1
                        else:
                            ops.append(("leave", exits[stack.pop()]))
                        ops.append(("request", KINDS[len(ops) % 3]))
                    for ctor, ui in ((None, None), ({"X-CUSTOM": "ctor", "X-Other": 0}, "user:pw")):
                        cases.append(program(ctor=ctor, ops=ops, userinfo=ui))
        # (d) random deeper stacks
        n_rand = 500 if tier == "quick" else 6000
        for _ in range(n_rand):
            cases.append(self._random_program(rng))
        # (e) a few programs against a real loopback HTTP peer (oracle only)
        n_sock = 6 if tier == "quick" else 40
        for _ in range(n_sock):
            p = self._random_program(rng, depth=3)
            p["peer"] = "socket"
            cases.append(p)
        # (f) the same programs with the requests sent from a helper thread (every 5th case is run again that way)
        for c in [c for i, c in enumerate(cases) if i % 5 == 0 and c["peer"] != "socket"]:
            cases.append(dict(c, thread=True))
        return cases

    def _random_dict(self, rng, used):
        d = {}
        for n in rng.sample(NAMES, rng.choice([0, 1, 1, 2, 2, 3])):
            v = rng.choice(VALS)
            if any(V.same(v, u) for u in used) and rng.random() < 0.8:
                v = "u%d" % len(used)
            used.append(v)
            d[n] = v
        return d

    def _random_program(self, rng, depth=None):
        used = []
        depth = depth or rng.choice([2, 3, 3, 4])
        ops = []
        open_n = 0
        for _ in range(rng.randint(depth, 2 * depth + 2)):
            r = rng.random()
            if r < 0.45 and open_n < depth - 1:
                ops.append(("enter", self._random_dict(rng, used)))
                open_n += 1
            elif r < 0.65 and open_n > 0:
                ops.append(("leave", rng.choice(["normal", "exception"])))
                open_n -= 1
            else:
                ops.append(("request", rng.choice(KINDS)))
        if not any(o[0] == "request" for o in ops[-2:]):
            ops.append(("request", "call"))
        while open_n:
            ops.append(("leave", rng.choice(["normal", "exception"])))
            open_n -= 1
            if rng.random() < 0.7:
                ops.append(("request", rng.choice(KINDS)))
        return program(ctor=rng.choice([None, self._random_dict(rng, used), self._random_dict(rng, used)]), ops=ops,
                       userinfo=rng.choice([None, None, "user:pw", "bob:s%40cret"]),
                       ct=rng.choice([None, None, "application/json"]), ua=rng.choice([None, None, "agent/2.0"]))

    # ------------------------------------------------------------------ implementation
    def _config(self, case):
        kw = {}
        if case["ct"] is not None:
            kw["content_type"] = case["ct"]
        if case["ua"] is not None:
            kw["user_agent"] = case["ua"]
        return self.C.Config(**kw)

    def run_impl(self, case):
        J = self.J
        cfg = self._config(case)
        sink = []
        ui = (case["userinfo"] + "@") if case["userinfo"] else ""
        if case["peer"] == "socket":
            if self.peer is None:
                self.peer = fakehttp.RecordingPeer()
            sink = self.peer.requests
            del sink[:]
            url = "http://%s127.0.0.1:%d/rpc" % (ui, self.peer.port)
        else:
            url = "http://%sexample.invalid:8080/rpc" % ui
        # a fresh copy of every dictionary: the program text must not be changed by the run
        proxy = J.ServerProxy(url, headers=copy.deepcopy(case["ctor"]), config=cfg)
        transport = proxy("transport")
        if case["peer"] != "socket":
            fakehttp.install_fake(transport, sink)
        events = []
        ops = case["ops"]

        def do_request(kind):
            if not case.get("thread"):
                return do_request_here(kind)
            # the request is sent from another thread than the one that built the client and opened the blocks (a client
            # object handed to a worker thread): the headers in force are those of the CLIENT, not of a thread
            import threading
            box = []
            th = threading.Thread(target=lambda: box.append(do_request_here(kind)), daemon=True)
            th.start()
            th.join(30)
            return bool(box and box[0])

        def do_request_here(kind):
            n0 = len(sink)
            try:
                if kind == "call":
                    proxy.ping(1, "é")
                elif kind == "notify":
                    proxy._notify.ping(2)
                else:
                    mc = J.MultiCall(proxy)
                    mc.a(1)
                    mc._notify.b()
                    mc.c([])
                    list(mc())
            except Exception as ex:     # noqa
                events.append(("raise", ex))
                return False
            for rec in sink[n0:]:
                events.append(("lines", [(k, v) for k, v in rec["lines"]], rec["body"]))
            return True

        class Abort(Exception):
            pass

        def run_block(i):
            """executes ops[i:] up to the leave that closes the current block; returns (next index, exit kind)"""
            while i < len(ops):
                o = ops[i]
                if o[0] == "request":
                    if not do_request(o[1]):
                        raise Abort()
                    i += 1
                elif o[0] == "leave":
                    return i + 1, o[1]
                else:
                    nxt = [None]
                    try:
                        with proxy._additional_headers(copy.deepcopy(o[1])):
                            j, how = run_block(i + 1)
                            nxt[0] = j
                            if how == "exception":
                                raise BlockExit()
                    except BlockExit:
                        pass
                    except Abort:
                        raise
                    except Exception as ex:    # noqa  (e.g. the AssertionError of pop_headers)
                        events.append(("raise", ex))
                        raise Abort()
                    events.append(("stack", copy.deepcopy(transport.additional_headers)))
                    i = nxt[0]
            return i, None

        try:
            run_block(0)
            events.append(("stack", copy.deepcopy(transport.additional_headers)))
        except Abort:
            pass
        finally:
            try:
                proxy("close")()
            except Exception:   # noqa
                pass
        return events

    # ------------------------------------------------------------------ oracle (from the statement)
    def oracle(self, case, obs):
        cfg = self._config(case)
        base = []
        if case["userinfo"]:
            from urllib.parse import unquote_to_bytes
            base = [{"Authorization": "Basic " + base64.b64encode(unquote_to_bytes(case["userinfo"])).decode("ascii")}]
        stack = [case["ctor"] or {}]
        ev = iter(obs)

        def nxt():
            return next(ev, None)

        for o in case["ops"]:
            if o[0] == "enter":
                stack.append(o[1])
                continue
            e = nxt()
            if e is None:
                return ("C18:run-stopped-early", "no observation for %r" % (o,))
            if e[0] == "raise":
                return ("C18:unexpected-exception", "%s at %r: %r" % (type(e[1]).__name__, o, e[1]))
            if o[0] == "leave":
                stack.pop()
                if e[0] != "stack" or not self._same_stack(e[1], stack):
                    how = "an exception" if o[1] == "exception" else "a normal exit"
                    return ("C18:stack-not-restored-after-%s" % o[1],
                            "after leaving a block through %s the stack is %r, required %r" % (how, e[1], stack))
            else:
                bad = self._check_lines(case, cfg, base + stack, e)
                if bad:
                    return bad
        e = nxt()
        if e is None or e[0] != "stack" or not self._same_stack(e[1], stack):
            return ("C18:stack-not-restored-at-end", "final stack %r, required %r" % (e and e[1], stack))
        return None

    @staticmethod
    def _same_stack(got, want):
        return len(got) == len(want) and all(V.same(a, b) for a, b in zip(got, want))

    def _check_lines(self, case, cfg, layers, e):
        if e[0] != "lines":
            return ("C18:unexpected-exception", "request produced %r" % (e,))
        lines, body = e[1], e[2]
        got = {}
        for k, v in lines:
            got.setdefault(k.lower(), []).append(v)
        ignore = {"accept-encoding"} | ({"host", "connection"} if case["peer"] == "socket" else set())
        defined = {}
        for depth, layer in enumerate(layers):
            for k, v in layer.items():
                defined.setdefault(k.lower(), []).append((depth, str(v)))
        fixed = {"content-type": cfg.content_type, "content-length": str(len(body))}
        for n, want in fixed.items():
            if got.get(n) != [want]:
                return ("C18:fixed-header-overridden", "%s lines %r, required exactly [%r]" % (n, got.get(n), want))
        for n, defs in defined.items():
            if n in fixed:
                continue
            top = max(d for d, _ in defs)
            allowed = [s for d, s in defs if d == top]
            older = [s for d, s in defs if d != top and s not in allowed]
            g = got.get(n, [])
            if n in ignore:
                g = [x for x in g if x != "gzip"] if n == "accept-encoding" else g
            if len(g) == 0:
                return ("C18:header-missing", "no %s line; most recent definition %r" % (n, allowed))
            if len(g) > 1:
                return ("C18:duplicate-header", "%s lines %r" % (n, g))
            if g[0] not in allowed:
                key = "C18:superseded-value" if g[0] in older else "C18:wrong-value"
                return (key, "%s: %r, but the most recently pushed dictionary defining it says %r (older: %r)" % (n, g[0], allowed, older))
        if "user-agent" not in defined and got.get("user-agent") != [cfg.user_agent]:
            return ("C18:user-agent", "User-Agent lines %r, configured %r" % (got.get("user-agent"), cfg.user_agent))
        for n in got:
            if n not in defined and n not in fixed and n not in ignore and n != "user-agent":
                return ("C18:unexpected-header", "line %s: %r is defined by no dictionary in force" % (n, got[n]))
        return None

    # ------------------------------------------------------------------ encoding for Coq
    def _g_hdict(self, d):
        tbl = self._s
        items = []
        for k, v in d.items():
            if not isinstance(k, str) or not k.isascii():
                raise ValueError("name outside the model")
            if isinstance(v, float) and not any(V.same(v, f) for f in FLOATS):
                raise ValueError("float outside the table")
            if not (v is None or isinstance(v, (str, bool, int, float))):
                raise ValueError("value outside the model")
            items.append("(%s, %s)" % (tbl(k), "(VStr %s)" % tbl(v) if isinstance(v, str) else G.g_val(v)))
        return G.g_list(items)

    def encode(self, case, obs):
        if case["peer"] == "socket":
            return None
        cfg = self._config(case)
        try:
            extra = "[]"
            if case["userinfo"]:
                from urllib.parse import unquote_to_bytes
                extra = '[("Authorization", %s)]' % self._s("Basic " + base64.b64encode(unquote_to_bytes(case["userinfo"])).decode("ascii"))
            ctor = "None" if case["ctor"] is None else "(Some %s)" % self._g_hdict(case["ctor"])
            bodies = [e[2] for e in obs if e[0] == "lines"]
            bi = 0
            ops = []
            for o in case["ops"]:
                if o[0] == "enter":
                    ops.append("(OEnter %s)" % self._g_hdict(o[1]))
                elif o[0] == "leave":
                    ops.append("(OLeave %s)" % ("Normal" if o[1] == "normal" else "Exceptional"))
                else:
                    # the body is an input of the model, which only uses its byte length (Content-Length):
                    # a filler of the same number of bytes as the body actually sent keeps the case files small
                    body = bodies[bi] if bi < len(bodies) else b""
                    bi += 1
                    ops.append("(ORequest (filler %d%%nat))" % len(body))
            evs = []
            for e in obs:
                if e[0] == "lines":
                    if not all(isinstance(v, str) for _, v in e[1]):
                        return None
                    evs.append("(EvLines (Ok %s))" % G.g_list(["(%s, %s)" % (self._s(k), self._s(v)) for k, v in e[1]]))
                elif e[0] == "stack":
                    evs.append("(EvStack %s)" % G.g_list([self._g_hdict(d) for d in e[1]]))
                else:
                    evs.append("(EvLines (Raise %s))" % G.g_exn(e[1]))
        except ValueError:
            return None
        return "(%s, %s, %s, %s, %s, %s)" % (extra, self._s(cfg.content_type), self._s(cfg.user_agent), ctor,
                                             G.g_list(ops), G.g_list(evs))

    # ------------------------------------------------------------------ bookkeeping
    def nontrivial(self, case, obs):
        return bool(case["ctor"]) or any(o[0] == "enter" and o[1] for o in case["ops"])

    def kind(self, case, obs):
        depth, d = 0, 0
        for o in case["ops"]:
            if o[0] == "enter":
                d += 1
                depth = max(depth, d)
            elif o[0] == "leave":
                d -= 1
        names = [k.lower() for dd in [case["ctor"] or {}] + [o[1] for o in case["ops"] if o[0] == "enter"] for k in dd]
        variants = "case-variant collision" if len(names) != len(set(names)) else "no collision"
        exc = "exceptional exit" if any(o[0] == "leave" and o[1] == "exception" for o in case["ops"]) else "normal exits only"
        return "%s / depth %d / %s / %s / %s" % (case["peer"], depth + 1, variants, exc,
                                                 "user-info" if case["userinfo"] else "no user-info")

    def describe(self, case, obs):
        out = []
        for e in obs:
            if e[0] == "lines":
                out.append({"lines": [[k, v] for k, v in e[1]], "body_bytes": len(e[2])})
            elif e[0] == "stack":
                out.append({"stack": ser.to_json(e[1])})
            else:
                out.append({"raised": "%s%r" % (type(e[1]).__name__, e[1].args)})
        return {"program": self.to_replay(case), "events": out}

    def to_replay(self, case):
        return ser.to_json(case)

    def from_replay(self, j):
        c = ser.from_json(j)
        c["ops"] = [list(o) for o in c["ops"]]
        return c

    def shrink(self, case):
        ops = case["ops"]
        # drop a request
        for i, o in enumerate(ops):
            if o[0] == "request":
                yield dict(case, ops=ops[:i] + ops[i + 1:])
        # drop a block (its enter and its matching leave)
        for i, o in enumerate(ops):
            if o[0] == "enter":
                d = 0
                for j in range(i + 1, len(ops)):
                    if ops[j][0] == "enter":
                        d += 1
                    elif ops[j][0] == "leave":
                        if d == 0:
                            yield dict(case, ops=ops[:i] + ops[i + 1:j] + ops[j + 1:])
                            break
                        d -= 1
        # simplify the environment
        for k in ("userinfo", "ct", "ua", "ctor"):
            if case[k] is not None:
                yield dict(case, **{k: None})
        if case["peer"] == "socket":
            yield dict(case, peer="fake")
        # drop an entry of a dictionary
        if case["ctor"]:
            for k in case["ctor"]:
                yield dict(case, ctor={a: b for a, b in case["ctor"].items() if a != k})
        for i, o in enumerate(ops):
            if o[0] == "enter":
                for k in o[1]:
                    yield dict(case, ops=ops[:i] + [["enter", {a: b for a, b in o[1].items() if a != k}]] + ops[i + 1:])
            if o[0] == "leave" and o[1] == "exception":
                yield dict(case, ops=ops[:i] + [["leave", "normal"]] + ops[i + 1:])
            if o[0] == "request" and o[1] != "call":
                yield dict(case, ops=ops[:i] + [["request", "call"]] + ops[i + 1:])


def streams():
    return [Main()]
