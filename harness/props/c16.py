"""C16 -- Future completion protocol: done/result/callback exactly once (threadpool.py:51-223).

A case is a small concurrent program over ONE FutureResult plus a schedule:

    body   how the task ends: "ret" (returns an object), "retnone" (returns None), "raise"
    regs   one registrar thread R<i> per entry, each calling set_callback(cb_i, extra_i) once;
           the entry is the callback's behaviour: "ret" | "raise" | "arity" (takes no argument)
           (re-registration before / after completion = several registrars: all their sequential
           orders are among the schedules)
    obs    one observer thread O<j> per entry: "done" | "result_t" (result(5.0)) | "result" (no timeout)
    schedule  list of thread names ('O0!' = the timed wait of O0 expires now); entries that are not
           enabled are skipped (Base/Sched.v `run`); after the list the lowest enabled thread runs

The implementation runs under harness/sched at line granularity: yield points are the shim
operations (Event.set/is_set/wait, Lock.acquire/release) and the source lines of the anchored
functions that read or write a shared field (statement-text table LINE_TABLE below, DESIGN 2.2).
An anchored line whose text is not in the table is still a yield point, but marks the run
`structure_changed`: the correspondence then fails closed, the oracle still decides.
"""
import itertools
import os
import random

from harness.core import pipeline, env

PROP_ID = "C16"
ANCHOR_RANGES = [("jsonrpclib/threadpool.py", 51, 124), ("jsonrpclib/threadpool.py", 127, 240)]
TRUSTED = [
    "controlled scheduler harness/sched (cooperative threading shims, conformance-tested against the real classes by harness.sched.selftest); "
    "threading.Event / threading.Lock are atomic operations with their documented blocking/timeout behaviour",
    "granularity: one step = one source line of EventData / FutureResult that reads or writes a shared field, or one Event/Lock operation "
    "(statement-text table LINE_TABLE in harness/props/c16.py, fail-closed); pre-emption inside a source line is not explored",
    "ghost linearisation: 'owed a call' is defined by the order in which set_callback() calls and execute() acquire the future's lock (hpre/hpost/hdone)",
]
ASSUMPTIONS = ["the task body and the callbacks terminate", "callbacks raise only Exception subclasses (BaseException is not caught by the code, as written)",
               "one execute() per FutureResult (as ThreadPool uses it)"]
RULE = ("programs: one executor (task returns an object / returns None / raises), 0-4 registrar threads each calling set_callback once with a "
        "callback that returns / raises / has the wrong arity, 0-3 observer threads calling done() / result(timeout) / result(); "
        "ALL interleavings of the listed small programs are enumerated on the real code (every schedule, or every distinct shared state "
        "with partial-order pruning), plus seeded random schedules of larger programs; model and implementation compared after EVERY step "
        "(label executed, event/data/exception/lock owner/completed/callback/extra) and on the notification log, the logged errors, how "
        "execute() ended and what each observer got. Non-trivial: at least one registrar or observer; distinct by (program, schedule)."
        ' Added after the seeded rounds: `chain` stream (oracle only): callbacks that register a follow-up callback on their own future, before / after completion, on a bare future and through a one-worker pool; returned values that are exception instances in half of the programs.')
EXHAUSTIVE = ("every interleaving, at model granularity, of: executor x one registrar (3 bodies x 3 callback kinds); executor x one observer "
              "(3 x 3); and every reachable shared state of executor + two registrars / registrar + observer for the listed programs")
MANIFEST_ENTRY = {
    "text": "Theorems (Coq, closed under the global context) for EVERY program (task outcome, any number of registrar and observer threads, returning / raising / ill-typed callbacks) and EVERY schedule of a line-granularity model of EventData + FutureResult: before the task finishes done() is False and result(timeout) raises OSError; once done() can be True the outcome is stored (data before event) and every later result()/done() gives the final outcome, the same exception object for a raising task; when all calls have returned each registration was invoked exactly once iff owed (in force at completion, or made after it), with (result, exception, its own extra), never twice and never before completion in any intermediate state; a raising or ill-typed callback is logged and changes neither the stored outcome nor how execute() ends. The model is driven in lock-step with the real code under a controlled scheduler over ALL interleavings of the small programs on every run.",
    "note": "Proved for ALL schedules about Model/Future.v (11 executor labels, 7 registrar labels, 5 observer labels, the future's lock). Modelled, not verified: threading.Event / Lock as atomic operations, CPython's atomicity of one source line, one execute() per future. 'Owed' follows the order of lock acquisitions (set semantics of set_callback, DESIGN.md 4/C16). The pre-fix code (finding F10, fixed in /repo) is modelled in Examples/C16_examples.v with its refutation witnesses (callback called twice / stale extra).",
    "technique": "Coq proof of invariants over all schedules of a line-granularity interleaving model + exhaustive lock-step correspondence under a controlled scheduler + property oracle",
    "design_ref": "DESIGN.md 4/C16",
}

TIMEOUT = 5.0

# ------------------------------------------------------------------------------ statement-text table
# (function, normalised statement text) -> model label (a yield point) | None (local line: merged into
# the following step; it touches no shared field, or only calls into a function whose own lines /
# shim operations are the yield points).  Labels are the constructor names of Model/Future.v.
L = None
LINE_TABLE = {
    # EventData (51-124)
    ("EventData.data", "return self.__data"): L,                       # read inside the step that asked for it
    ("EventData.exception", "return self.__exception"): L,
    ("EventData.is_set", "return self.__event.is_set()"): L,           # -> Event.is_set
    ("EventData.set", "self.__data = data"): "store_data",
    ("EventData.set", "self.__exception = None"): "store_exc",
    ("EventData.set", "self.__event.set()"): L,                        # -> Event.set
    ("EventData.raise_exception", "self.__data = None"): "store_data",
    ("EventData.raise_exception", "self.__exception = exception"): "store_exc",
    ("EventData.raise_exception", "self.__event.set()"): L,
    ("EventData.wait", "result = self.__event.wait(timeout)"): L,      # -> Event.wait
    ("EventData.wait", "if self.__exception is None:"): "read_exc",
    ("EventData.wait", "return result"): L,
    ("EventData.wait", "raise self.__exception"): "reraise",
    # FutureResult.__notify(callback, extra): everything after the test works on locals and on the
    # outcome fields, which are frozen once the event is set; the block is ONE step: the call
    ("FutureResult.__notify", "if callback is not None:"): "notify",
    ("FutureResult.__notify", "try:"): L,
    ("FutureResult.__notify", "callback("): L,
    ("FutureResult.__notify", "self._done_event.data,"): L,
    ("FutureResult.__notify", "self._done_event.exception,"): L,
    ("FutureResult.__notify", "extra,"): L,
    ("FutureResult.__notify", ")"): L,
    ("FutureResult.__notify", "except Exception as ex:"): L,
    ("FutureResult.__notify", 'self._logger.exception("Error calling back method: %s", ex)'): L,
    # FutureResult.set_callback
    ("FutureResult.set_callback", "with self.__lock:"): L,             # -> Lock.acquire / Lock.release
    ("FutureResult.set_callback", "self.__callback = method"): "store_cb",
    ("FutureResult.set_callback", "self.__extra = extra"): "store_extra",
    ("FutureResult.set_callback", "completed = self.__completed"): "read_completed",
    ("FutureResult.set_callback", "if completed:"): L,
    ("FutureResult.set_callback", "self.__notify(method, extra)"): L,
    # FutureResult.execute
    ("FutureResult.execute", "if args is None:"): L,
    ("FutureResult.execute", "args = []"): L,
    ("FutureResult.execute", "if kwargs is None:"): L,
    ("FutureResult.execute", "kwargs = {}"): L,
    ("FutureResult.execute", "try:"): L,
    ("FutureResult.execute", "result = method(*args, **kwargs)"): "body",
    ("FutureResult.execute", "except Exception as ex:"): L,
    ("FutureResult.execute", "self._done_event.raise_exception(ex)"): L,
    ("FutureResult.execute", "raise"): L,
    ("FutureResult.execute", "self._done_event.set(result)"): L,
    ("FutureResult.execute", "with self.__lock:"): L,
    ("FutureResult.execute", "self.__completed = True"): "set_completed",
    ("FutureResult.execute", "callback = self.__callback"): "read_cb",
    ("FutureResult.execute", "extra = self.__extra"): "read_extra",
    ("FutureResult.execute", "self.__notify(callback, extra)"): L,
    # FutureResult.done / result
    ("FutureResult.done", "return self._done_event.is_set()"): L,
    ("FutureResult.result", "if self._done_event.wait(timeout):"): L,
    ("FutureResult.result", "return self._done_event.data"): "read_data",
    ("FutureResult.result", "else:"): L,
    ("FutureResult.result", 'raise OSError("Timeout raised")'): L,
}
OP_TABLE = {"Event.set:ev": "event_set", "Event.is_set:ev": "is_set", "Event.wait:ev": "wait",
            "Lock.acquire:lock": "lock", "Lock.release:lock": "unlock"}
ANCHORED_PREFIXES = ("EventData.", "FutureResult.")


class RecordingLogger(object):
    """stands for the `logger` argument of FutureResult: records exception() calls"""
    name = "c16"

    def __init__(self, ctl):
        self.ctl = ctl

    def exception(self, msg, *args):
        ex = args[0] if args else None
        self.ctl.record(("log", type(ex).__name__, str(ex)))

    def __getattr__(self, name):          # debug/info/warning...: ignore
        return lambda *a, **k: None


class Handles(object):
    pass


def build(case, policy, sched_mod=None):
    """Build the controlled program of `case`.  Returns (ctl, handles)."""
    from harness import sched as S
    h = Handles()
    h.unknown = []

    def hook(frame):
        q, ln, text = S.line_info(frame)
        if not q.startswith(ANCHORED_PREFIXES) or q.endswith(".__init__"):
            return None
        key = (q, text)
        if key in LINE_TABLE:
            return LINE_TABLE[key]
        if not text or text.startswith(('"""', "'''")):
            return None
        h.unknown.append((q, ln, text))
        return "?%s|%s" % (q, text)

    ctl = S.Controller(policy=policy, fire="anytime", line_hook=hook, max_steps=2000)
    mod = ctl.load("jsonrpclib/threadpool.py")
    h.ctl, h.mod = ctl, mod
    fut = mod.FutureResult(RecordingLogger(ctl))
    h.fut = fut
    # name the shim objects the protocol uses (labels of the operation yield points)
    ed = fut._done_event
    ev = getattr(ed, "_EventData__event", None)
    if ev is not None and hasattr(ev, "_sname"):
        ctl.name(ev, "ev")
    else:
        # the event is not where the model expects it: the run goes on (the oracle only needs what observers see), the
        # step-by-step comparison will report that the correspondence no longer holds
        h.unknown.append(("EventData", 0, "no __event attribute"))
    lk = getattr(fut, "_FutureResult__lock", None)
    if lk is not None and hasattr(lk, "_sname"):
        ctl.name(lk, "lock")
    # the value a task returns may itself be an exception instance (a task that RETURNS an error object): it is a result like any
    # other.  Which programs get such a value is a function of the program, so that replays are exact.
    h.result_obj = (KeyError("a returned value that happens to be an exception instance")
                    if (len(case["regs"]) + len(case["obs"])) % 2 else object())
    h.exc_obj = ValueError("task failed")
    body_kind = case["body"]

    def body():
        ctl.record(("body_end",))
        if body_kind == "raise":
            raise h.exc_obj
        return h.result_obj if body_kind == "ret" else None

    def run_x():
        try:
            r = fut.execute(body, None, None)
            ctl.record(("exec_end", ("ok", r)))
        except Exception as ex:     # noqa
            ctl.record(("exec_end", ("raise", ex)))
    ctl.spawn("X", run_x)

    h.extras = []
    h.cbs = []
    for i, kind in enumerate(case["regs"]):
        extra = ("extra", i)
        h.extras.append(extra)
        if kind == "arity":
            def cb(i=i):
                ctl.record(("call", i, "no-args"))      # unreachable: the call itself raises TypeError
        elif kind == "raise":
            def cb(result, exception, extra, i=i):
                ctl.record(("call", i, result, exception, extra))
                raise KeyError("callback %d fails" % i)
        else:
            def cb(result, exception, extra, i=i):
                ctl.record(("call", i, result, exception, extra))
                return "ignored"
        cb.__name__ = cb.__qualname__ = "cb_%d" % i
        h.cbs.append(cb)

        def run_r(i=i, cb=cb, extra=extra):
            ctl.record(("reg_start", i))
            try:
                r = fut.set_callback(cb, extra)
                ctl.record(("reg_end", i, ("ok", r)))
            except Exception as ex:     # noqa
                ctl.record(("reg_end", i, ("raise", ex)))
        ctl.spawn("R%d" % i, run_r)

    for j, kind in enumerate(case["obs"]):
        def run_o(j=j, kind=kind):
            ctl.record(("obs_start", j))
            try:
                if kind == "done":
                    r = fut.done()
                elif kind == "result_t":
                    r = fut.result(TIMEOUT)
                else:
                    r = fut.result()
                ctl.record(("obs_end", j, ("ok", r)))
            except Exception as ex:     # noqa
                ctl.record(("obs_end", j, ("raise", ex)))
        ctl.spawn("O%d" % j, run_o)
    return ctl, h


# ------------------------------------------------------------------------------ observation

def _role(name):
    return name[0]


def step_label(name, label):
    """(thread name, implementation label) -> model label name, or '?...' when unknown"""
    fired = label.endswith("!")
    if fired:
        label = label[:-1]
    m = OP_TABLE.get(label, label if not label[:1].isupper() else "?" + label)
    return m + ("!" if fired else "")


def sym(h, v):
    """symbolic name of an object that can flow through the future"""
    if v is None:
        return None
    if v is h.result_obj:
        return "RESULT"
    if v is h.exc_obj:
        return "EXC"
    for i, e in enumerate(h.extras):
        if v is e:
            return "extra%d" % i
    for i, c in enumerate(h.cbs):
        if v is c:
            return "cb%d" % i
    if isinstance(v, OSError):
        return "OSError"
    if isinstance(v, BaseException):
        return "exc:" + type(v).__name__
    if isinstance(v, bool):
        return v
    return "other:" + type(v).__name__


def snapshot(h):
    """the shared state of the protocol (read by the controller between steps)"""
    fut = h.fut
    ed = fut._done_event
    lk = getattr(fut, "_FutureResult__lock", None)
    owner = None
    if lk is not None and getattr(lk, "_owner", None) is not None:
        owner = getattr(lk._owner, "name", "?")
    ev = getattr(ed, "_EventData__event", None)
    return (ev._flag if ev is not None and hasattr(ev, "_flag") else "?",
            sym(h, getattr(ed, "_EventData__data", None)),
            sym(h, getattr(ed, "_EventData__exception", None)),
            owner,
            getattr(fut, "_FutureResult__completed", None),
            sym(h, getattr(fut, "_FutureResult__callback")),
            sym(h, getattr(fut, "_FutureResult__extra")))


class TailFirst(object):
    """completion policy after the explicit schedule: lowest enabled thread; remembers its picks"""

    def __init__(self):
        self.picked = []

    def choose(self, ctl, options):
        o = options[0]
        self.picked.append(o.thread.name + ("!" if o.fire else ""))
        return 0


def _collect(res, h, snaps, tail):
    events = []
    for (step, tname, p) in res.events:
        kind = p[0]
        if kind == "call":
            events.append((step, tname, "call", p[1]) + tuple(sym(h, x) for x in p[2:]))
        elif kind == "log":
            events.append((step, tname, "log", p[1], p[2]))
        elif kind == "exec_end":
            events.append((step, tname, kind, (p[1][0], sym(h, p[1][1]))))
        elif kind in ("reg_end", "obs_end"):
            events.append((step, tname, kind, p[1], (p[2][0], sym(h, p[2][1]))))
        elif kind == "body_end":
            events.append((step, tname, kind))
    final = None
    if res.status == "done":
        # a last, sequential look at the future from the controller thread
        try:
            d = h.fut.done()
            try:
                r = ("ok", sym(h, h.fut.result(0)))
            except Exception as ex:     # noqa
                r = ("raise", sym(h, ex))
            final = (d, r)
        except Exception as ex:         # noqa
            final = ("error", repr(ex))
    labels = [(n, step_label(n, lab)) for (n, lab) in res.trace]
    return {
        "status": res.status,
        "executed": res.schedule,
        "labels": labels,
        "tail": list(tail.picked) if tail is not None else [],
        "events": events,
        "snaps": list(snaps),
        "next": dict((n, step_label(n, lab)) for (n, lab) in res.blocked),
        "final": final,
        "errors": [(n, type(e).__name__) for n, e in res.errors],
        "structure_changed": sorted(set("%s: %s" % (q, t) for (q, ln, t) in h.unknown)
                                    | set(l for _, l in labels if l.startswith("?"))),
    }


def observe(case, policy=None):
    """Run the case on the implementation.  policy None: replay case['schedule'] (entries that are
    not enabled are skipped), then stop (case['stop']) or let the lowest enabled thread run to the
    end.  Returns the observation dict."""
    from harness import sched as S
    tail = None
    if policy is None:
        tail = None if case.get("stop") else TailFirst()
        policy = S.Replay(case["schedule"], then=tail)
    ctl, h = build(case, policy)
    snaps = []
    ctl.on_step = lambda c, t, lab, fired: snaps.append(snapshot(h))
    res = ctl.run()
    return _collect(res, h, snaps, tail)


# ------------------------------------------------------------------------------ exploration

READS = {"read_cb": 5, "read_extra": 6, "read_completed": 4, "read_exc": 2}
INIT_SNAP = (False, None, None, None, False, None, None)


def _state_key_fn(holder):
    """state key for the pruned DFS: next label of every thread, shared fields, what every thread
    has read so far (its locals), the observable events so far"""
    def key(ctl):
        h, snaps = holder["h"], holder["snaps"]
        pcs = tuple("fin" if t.finished else (t.pending.label if t.pending else None) for t in ctl.threads)
        reads = []
        for k, (n, lab) in enumerate(ctl.result.trace):
            before = snaps[k - 1] if k else INIT_SNAP
            m = step_label(n, lab)
            if m in READS:
                reads.append((n, m, before[READS[m]]))
            elif m.startswith("?") or m.startswith("wait"):
                reads.append((n, m, before))
        evs = tuple((e[1], e[2][0]) + tuple(x if isinstance(x, (int, str)) else
                                            ((x[0], sym(h, x[1])) if isinstance(x, tuple) else sym(h, x)) for x in e[2][1:])
                    for e in ctl.result.events)
        return (pcs, snapshot(h), tuple(reads), evs)
    return key


def explore_program(prog, prune=True, budget=20000):
    """All schedules of the program (depth-first on the implementation).  Returns the cases
    (program + executed schedule + stop flag) with the observation of that run attached as '_obs'.
    prune=True cuts a run where it reaches an already visited state (state-graph coverage:
    every reachable state and transition is still visited)."""
    from harness import sched as S
    holder = {}
    out = []

    def run(pol):
        ctl, h = build(prog, pol)
        holder["h"] = h
        snaps = holder["snaps"] = []
        ctl.on_step = lambda c, t, lab, fired: snaps.append(snapshot(h))
        return ctl.run()

    stats = {}
    for res in S.explore(run, budget=budget, state_key=_state_key_fn(holder) if prune else None, stats=stats):
        case = {"body": prog["body"], "regs": list(prog["regs"]), "obs": list(prog["obs"]),
                "schedule": res.schedule, "stop": res.status == "stopped"}
        case["_obs"] = _collect(res, holder["h"], holder["snaps"], None)
        out.append(case)
    return out, stats


def _explore_job(job):
    prog, prune, budget = job
    import logging
    logging.disable(logging.CRITICAL)
    cases, stats = explore_program(prog, prune, budget)
    return cases, stats


def random_cases(progs, n, seed):
    """seeded random / PCT schedules (as explicit lists of names, completed by the tail policy)"""
    from harness import sched as S
    rng = random.Random(seed)
    out = []
    for k in range(n):
        prog = rng.choice(progs)
        pol = S.PCT(rng.randrange(1 << 30), depth=rng.randrange(1, 5), est_steps=30) if k % 2 else S.RandomPolicy(rng.randrange(1 << 30))
        ctl, h = build(prog, pol)
        snaps = []
        ctl.on_step = lambda c, t, lab, fired, snaps=snaps, h=h: snaps.append(snapshot(h))
        res = ctl.run()
        sched = res.schedule
        # sprinkle entries that are not enabled at that point (the model must skip them too)
        names = ["X"] + ["R%d" % i for i in range(len(prog["regs"]))] + ["O%d" % j for j in range(len(prog["obs"]))]
        noisy = []
        for e in sched:
            if rng.random() < 0.15:
                noisy.append(rng.choice(names) + rng.choice(["", "", "!"]))
            noisy.append(e)
        out.append({"body": prog["body"], "regs": list(prog["regs"]), "obs": list(prog["obs"]),
                    "schedule": noisy if k % 3 else sched, "stop": False})
    return out


def _random_job(job):
    progs, n, seed = job
    import logging
    logging.disable(logging.CRITICAL)
    return random_cases(progs, n, seed), {}


def parallel(fn, jobs):
    import multiprocessing
    if not jobs:
        return []
    ctx = multiprocessing.get_context("fork")
    with ctx.Pool(min(env.NPROC, len(jobs))) as pool:
        return pool.map(fn, jobs, chunksize=1)


# ------------------------------------------------------------------------------ Gallina encoding

RESULT_ID, EXC_ID = 7, 9
XCODES = {"body": 0, "store_data": 1, "store_exc": 2, "event_set": 3, "lock": 4, "set_completed": 5, "read_cb": 6,
          "read_extra": 7, "unlock": 8, "notify": 9}
RCODES = {"lock": 20, "store_cb": 21, "store_extra": 22, "read_completed": 23, "unlock": 24, "notify": 25}
OCODES = {"is_set": 30, "wait": 31, "read_exc": 32, "reraise": 33, "read_data": 34}
END = {"X": 10, "R": 26, "O": 35}
BAD = 99


def code_label(name, label):
    if label.endswith("!"):
        return 36
    return {"X": XCODES, "R": RCODES, "O": OCODES}[name[0]].get(label, BAD)


def code_thread(name):
    if name == "X":
        return 0
    k = int(name[1:])
    return 1 + 2 * k if name[0] == "R" else 2 + 2 * k


def code_sym(v):
    """code_opt of the model: None -> 0, object n -> n + 1"""
    if v is None:
        return 0
    if v == "RESULT":
        return RESULT_ID + 1
    if v == "EXC":
        return EXC_ID + 1
    if isinstance(v, str) and (v.startswith("extra") or v.startswith("cb")) and v.lstrip("extracb").isdigit():
        return int(v.lstrip("extracb")) + 1
    return BAD


def code_snap(s):
    ev, d, e, owner, comp, cb, ex = s
    return [1 if ev else 0, code_sym(d), code_sym(e), 0 if owner is None else 1 + code_thread(owner),
            BAD if comp is None else (1 if comp else 0), code_sym(cb), code_sym(ex)]


def g_move(e):
    fire = e.endswith("!")
    n = e[:-1] if fire else e
    t = "TX" if n == "X" else "(T%s %d)" % (n[0], int(n[1:]))
    return "%s %s" % ("Fire" if fire else "Go", t)


def g_ln(xs):
    return "[" + ";".join(str(x) for x in xs) + "]"


def g_lln(xss):
    return "[" + ";".join(g_ln(x) for x in xss) + "]"


BODY_G = {"ret": "BRet (Some %d)" % RESULT_ID, "retnone": "BRet None", "raise": "BRaise %d" % EXC_ID}
KIND_G = {"ret": "KRet", "raise": "KRaise", "arity": "KArity"}
OBS_G = {"done": "ODone", "result_t": "OResultT", "result": "OResult"}


def encode_case(case, obs):
    nr, no = len(case["regs"]), len(case["obs"])
    names = ["X"] + ["R%d" % i for i in range(nr)] + ["O%d" % j for j in range(no)]
    sched = list(case["schedule"]) + list(obs["tail"])
    valid = set(names)
    moves = [g_move(e) for e in sched if (e[:-1] if e.endswith("!") else e) in valid]
    labels = [code_label(n, lab) for (n, lab) in obs["labels"]]
    if obs["structure_changed"]:
        labels = [BAD] + labels          # fail closed
    snaps = [code_snap(s) for s in obs["snaps"]]
    nxt = [code_label(n, obs["next"][n]) if n in obs["next"] else END[n[0]] for n in names]
    if obs["status"] not in ("done", "stopped"):
        nxt = [BAD] + nxt
    calls, logged = [], 0
    xout = 0
    oo = [[0] for _ in range(no)]
    for e in obs["events"]:
        kind = e[2]
        if kind == "call":
            calls.append([e[3], code_thread(e[1])] + [code_sym(x) for x in e[4:7]])
        elif kind == "log":
            logged += 1
            if e[3] == "TypeError" and e[4].startswith("cb_"):
                calls.append([int(e[4][3:e[4].index("(")]), code_thread(e[1])])
        elif kind == "exec_end":
            o = e[3]
            xout = 1 if o == ("ok", None) else (2 + EXC_ID if o == ("raise", "EXC") else BAD)
        elif kind == "obs_end":
            j, o = e[3], e[4]
            k = case["obs"][j]
            if k == "done":
                oo[j] = [1, 1 if o[1] is True else 0] if o[0] == "ok" and isinstance(o[1], bool) else [BAD]
            elif o[0] == "ok":
                oo[j] = [2, code_sym(o[1])]
            elif o[1] == "EXC":
                oo[j] = [3, EXC_ID]
            elif o[1] == "OSError":
                oo[j] = [4]
            elif o[1] == "exc:TypeError":
                oo[j] = [5]
            else:
                oo[j] = [BAD]
    return "((%s, [%s], [%s]), [%s], ((%s, %s), (%s, %s, %d), (%d, %s)))" % (
        BODY_G[case["body"]], "; ".join(KIND_G[k] for k in case["regs"]), "; ".join(OBS_G[k] for k in case["obs"]),
        "; ".join(moves), g_ln(labels), g_lln(snaps), g_ln(nxt), g_lln(calls), logged, xout, g_lln(oo))


# ------------------------------------------------------------------------------ oracle (from the statement)

INF = float("inf")


def check_property(case, obs):
    """The property statement, with the reading of DESIGN.md 4/C16, on one run.  Positions are step
    indices: a call of set_callback / done / result spans [first step of its thread, step of its
    return]; completion spans [step in which the body ended, step in which execute() ended].
    Returns None or (key, message)."""
    if obs["status"] not in ("done", "stopped"):
        return ("C16:no-progress", "run ended with status %s (threads blocked at %r)" % (obs["status"], obs["next"]))
    if obs["errors"]:
        return ("C16:uncaught-exception", "uncaught exception in %r" % (obs["errors"],))
    complete = obs["status"] == "done"
    body = case["body"]
    want = {"ret": ("ok", "RESULT"), "retnone": ("ok", None), "raise": ("raise", "EXC")}[body]
    res_sym = "RESULT" if body == "ret" else None
    exc_sym = "EXC" if body == "raise" else None
    first, fired = {}, set()
    for k, (n, lab) in enumerate(obs["labels"]):
        first.setdefault(n, k + 1)
        if lab.endswith("!"):
            fired.add(n)
    sc = ec = INF            # body ended / execute ended
    exec_out = None
    reg_end, obs_end = {}, {}
    attempts = {}            # registration -> [(step, by, args or None)]
    for e in obs["events"]:
        step, tname, kind = e[0], e[1], e[2]
        if kind == "body_end":
            sc = step
        elif kind == "exec_end":
            ec, exec_out = step, e[3]
        elif kind == "reg_end":
            reg_end[e[3]] = (step, e[4])
        elif kind == "obs_end":
            obs_end[e[3]] = (step, e[4])
        elif kind == "call":
            attempts.setdefault(e[3], []).append((step, tname, tuple(e[4:7])))
        elif kind == "log" and e[3] == "TypeError" and e[4].startswith("cb_"):
            attempts.setdefault(int(e[4][3:e[4].index("(")]), []).append((step, tname, None))
    # ---- callbacks: arguments, at most once, exactly once when owed, never when replaced
    nr = len(case["regs"])
    for i in range(nr):
        for (step, by, args) in attempts.get(i, []):
            if step < sc:
                return ("C16:callback-before-completion", "callback %d invoked at step %d, before the task finished" % (i, step))
            if args is not None and args != (res_sym, exc_sym, "extra%d" % i):
                return ("C16:callback-wrong-arguments", "callback %d invoked by %s with %r instead of %r" % (
                    i, by, args, (res_sym, exc_sym, "extra%d" % i)))
        if len(attempts.get(i, [])) > 1:
            return ("C16:callback-invoked-twice", "callback %d invoked %d times (by %s)" % (
                i, len(attempts[i]), ", ".join(a[1] for a in attempts[i])))
    if complete:
        s_ = dict((i, first.get("R%d" % i, INF)) for i in range(nr))
        e_ = dict((i, reg_end[i][0]) for i in range(nr))
        for i in range(nr):
            n = len(attempts.get(i, []))
            after = s_[i] > ec                        # registered after execute() had returned
            before = e_[i] < sc                       # registered before the body ended
            can_be_replaced = any(j != i and not (e_[j] < s_[i]) and not (s_[j] > ec) for j in range(nr))
            replaced = before and any(j != i and s_[j] > e_[i] and e_[j] < sc for j in range(nr))
            if (after or not can_be_replaced) and n != 1:
                return ("C16:callback-not-invoked", "registration %d (%s) is owed one call, got %d" % (
                    i, "made after completion" if after else "in force at completion", n))
            if replaced and n != 0:
                return ("C16:replaced-callback-invoked", "registration %d was replaced before completion but was invoked" % i)
            if after and n == 1 and not (attempts[i][0][1] == "R%d" % i and attempts[i][0][0] <= e_[i]):
                return ("C16:callback-not-immediate", "registration %d made after completion was not notified by its own set_callback call" % i)
            if before and n == 1 and attempts[i][0][1] != "X":
                return ("C16:callback-not-at-completion", "registration %d made before completion was notified by %s" % (i, attempts[i][0][1]))
        if any(e_[i] < sc for i in range(nr)):
            byx = sum(1 for i in range(nr) for a in attempts.get(i, []) if a[1] == "X")
            if byx != 1:
                return ("C16:callback-not-invoked", "a registration was in force at completion but execute() notified %d callbacks" % byx)
    # ---- containment
    for i, (step, out) in reg_end.items():
        if out != ("ok", None):
            return ("C16:callback-exception-escaped", "set_callback %d ended with %r" % (i, out))
    if exec_out is not None and exec_out != (("raise", "EXC") if body == "raise" else ("ok", None)):
        return ("C16:executor-outcome-changed", "execute() ended with %r" % (exec_out,))
    if complete and obs["final"] != (True, want):
        return ("C16:stored-outcome-wrong", "after the run done()/result() give %r, expected %r" % (obs["final"], (True, want)))
    # ---- done / result observations ordered against completion
    # observations that prove the future done: done() == True, or a result() whose wait succeeded
    # (a result(timeout) whose wait expired may still find the task's exception already stored,
    # between the end of the body and the setting of the event: that window proves nothing)
    proven_done = [st for j, (st, o) in obs_end.items()
                   if (case["obs"][j] == "done" and o == ("ok", True))
                   or (case["obs"][j] != "done" and o == want and "O%d" % j not in fired)]
    for j, (step, o) in sorted(obs_end.items()):
        kind = case["obs"][j]
        start = first.get("O%d" % j, INF)
        surely_done = start > ec or any(p < start for p in proven_done)
        if kind == "done":
            if o[0] != "ok" or not isinstance(o[1], bool):
                return ("C16:done-wrong-value", "done() gave %r" % (o,))
            if step < sc and o[1]:
                return ("C16:done-before-finish", "done() returned True at step %d, the task finished at step %s" % (step, sc))
            if surely_done and not o[1]:
                return ("C16:not-done-after-finish", "done() returned False after the future had been seen done")
        else:
            if o != want and o != ("raise", "OSError"):
                return ("C16:result-wrong-value", "result() gave %r, the task's outcome is %r" % (o, want))
            if o == ("raise", "OSError") and kind == "result":
                return ("C16:result-wrong-value", "result() without timeout raised OSError")
            if step < sc and o != ("raise", "OSError"):
                return ("C16:result-before-finish", "result() gave %r at step %d, before the task finished" % (o, step))
            if o == ("raise", "OSError") and "O%d" % j not in fired:
                return ("C16:result-timeout-without-waiting", "result(timeout) raised OSError although its wait never expired")
            if surely_done and (o != want or "O%d" % j in fired):
                return ("C16:result-inconsistent-after-done", "result() gave %r (timeout expired: %s) after the future had been seen done" % (
                    o, "O%d" % j in fired))
    return None


# ------------------------------------------------------------------------------ the stream

BODIES = ["ret", "retnone", "raise"]
KINDS = ["ret", "raise", "arity"]


def programs(tier):
    """[(program, prune, budget)] explored exhaustively"""
    jobs = []
    P = lambda b, r, o: {"body": b, "regs": list(r), "obs": list(o)}     # noqa
    pairs = [("ret", "ret"), ("ret", "raise"), ("arity", "ret"), ("raise", "arity")]
    # executor + one registrar: every schedule (full path enumeration)
    for b in BODIES:
        for k in KINDS:
            jobs.append((P(b, [k], []), False, 5000))
    # one observer against the executor alone: every schedule
    for b in BODIES:
        for o in (["done"], ["result_t"], ["result"]):
            jobs.append((P(b, [], o), False, 5000))
    # executor + registrar + observer: state-graph coverage
    jobs.append((P("ret", ["ret"], ["done"]), True, 5000))
    jobs.append((P("raise", ["raise"], ["done"]), True, 5000))
    jobs.append((P("raise", ["ret"], ["result"]), True, 8000))
    # two registrars (re-registration before / across / after completion): state-graph coverage
    for b in ("ret", "raise"):
        for pr in pairs:
            jobs.append((P(b, pr, []), True, 5000))
    if tier == "thorough":
        for b in BODIES:
            jobs.append((P(b, [], ["done", "result_t"]), False, 20000))
            for k in KINDS:
                for o in (["done"], ["result_t"], ["result"]):
                    if (b, k, o[0]) not in (("ret", "ret", "done"), ("raise", "raise", "done"), ("raise", "ret", "result")):
                        jobs.append((P(b, [k], o), True, 20000))
            for pr in itertools.product(KINDS, KINDS):
                if not (b in ("ret", "raise") and pr in pairs):
                    jobs.append((P(b, pr, []), True, 20000))
        # two registrars: every schedule
        for b, pr in (("ret", ("ret", "ret")), ("raise", ("ret", "raise")), ("retnone", ("arity", "ret"))):
            jobs.append((P(b, pr, []), False, 100000))
        # two registrars and an observer; three registrars
        for b, pr, o in (("raise", ("ret", "ret"), ["result_t"]), ("ret", ("ret", "arity"), ["done"]),
                         ("retnone", ("raise", "ret"), ["result"])):
            jobs.append((P(b, pr, o), True, 100000))
        for b in ("ret", "raise"):
            jobs.append((P(b, ("ret", "raise", "arity"), []), True, 100000))
    return jobs


def random_programs():
    out = []
    for b in BODIES:
        for r in (("ret", "raise", "arity"), ("ret", "ret", "ret", "ret"), ("arity", "raise")):
            for o in (["done", "result_t"], ["result", "done", "result_t"], ["result_t", "result_t"]):
                out.append({"body": b, "regs": list(r), "obs": list(o)})
    return out


class Main(pipeline.Stream):
    name = "main"
    model_imports = "Future"
    case_type = "c16_case"
    check_fn = "c16_check"
    extra_defs = "Open Scope nat_scope.\n"
    shard = 250
    RECHECK = 16         # every RECHECK-th explored case is re-executed from its schedule (replay determinism, coverage)

    def __init__(self):
        self.stats = {}
        self.problems = []
        self.n = 0

    def jobs(self, tier):
        return programs(tier)

    def n_random(self, tier):
        return 192 if tier == "quick" else 20000

    def rand_programs(self):
        return random_programs()

    def gen(self, tier, rng):
        cases = []
        jobs = self.jobs(tier)
        for (job, (cs, st)) in zip(jobs, parallel(_explore_job, jobs)):
            prog = job[0]
            key = "%s/%s/%s/%s" % (prog["body"], "+".join(prog["regs"]) or "-", "+".join(prog["obs"]) or "-",
                                   "pruned" if job[1] else "all-schedules")
            self.stats[key] = st
            if not st.get("exhausted") and not any(check_property(c, c["_obs"]) for c in cs):
                # (a tree that violates the property may have more yield points than the budgets
                # foresee: the violation found so far is reported; otherwise the claim of
                # exhaustiveness would be false, so stop)
                self.problems.append("exploration budget too small for %s (the code has more yield points than the model "
                                     "foresees): exhaustiveness NOT established: %r" % (key, st))
            cases.extend(cs)
        n_rand = self.n_random(tier)
        rjobs = [(self.rand_programs(), n_rand // 16, rng.randrange(1 << 30)) for _ in range(16)] if n_rand else []
        for cs, _ in parallel(_random_job, rjobs):
            cases.extend(cs)
        return cases

    def run_impl(self, case):
        self.n += 1
        cached = case.pop("_obs", None)
        if cached is not None and self.n % self.RECHECK:
            return cached
        obs = observe(case)
        if cached is not None:
            for k in ("status", "labels", "events", "snaps", "next", "final"):
                if obs[k] != cached[k]:
                    raise RuntimeError("replaying the schedule %r of %r did not reproduce the explored run (%s differs)" % (
                        case["schedule"], case, k))
        return obs

    def oracle(self, case, obs):
        return check_property(case, obs)

    def encode(self, case, obs):
        return encode_case(case, obs)

    def nontrivial(self, case, obs):
        return len(set(n for n, _ in obs["labels"])) >= 2

    def kind(self, case, obs):
        return "body %s / %d registrar(s) / %d observer(s) / %s" % (
            case["body"], len(case["regs"]), len(case["obs"]), "complete run" if obs["status"] == "done" else "prefix")

    def describe(self, case, obs):
        return {"program": {"body": case["body"], "registrars": case["regs"], "observers": case["obs"]},
                "schedule": case["schedule"] + obs["tail"], "status": obs["status"],
                "steps": ["%s:%s" % x for x in obs["labels"]],
                "events": [list(map(str, e)) for e in obs["events"]], "final": str(obs["final"]),
                "structure_changed": obs["structure_changed"]}

    def to_replay(self, case):
        return {"body": case["body"], "regs": case["regs"], "obs": case["obs"], "schedule": case["schedule"],
                "stop": bool(case.get("stop"))}

    def from_replay(self, j):
        return {"body": j["body"], "regs": list(j["regs"]), "obs": list(j["obs"]), "schedule": list(j["schedule"]),
                "stop": bool(j.get("stop"))}

    def shrink(self, case):
        base = self.to_replay(case)
        sched = base["schedule"]
        # fewer threads (the last registrar / observer; its schedule entries go away)
        if base["obs"]:
            n = "O%d" % (len(base["obs"]) - 1)
            yield dict(base, obs=base["obs"][:-1], schedule=[e for e in sched if e.rstrip("!") != n], stop=False)
        if len(base["regs"]) > 1:
            n = "R%d" % (len(base["regs"]) - 1)
            yield dict(base, regs=base["regs"][:-1], schedule=[e for e in sched if e.rstrip("!") != n], stop=False)
        for k in ("ret",):
            if any(r != k for r in base["regs"]):
                yield dict(base, regs=[k] * len(base["regs"]), stop=False)
        if base["body"] != "ret":
            yield dict(base, body="ret", stop=False)
        # shorter schedules: drop chunks, then single entries
        n = len(sched)
        size = n // 2
        while size >= 1:
            for a in range(0, n, size):
                yield dict(base, schedule=sched[:a] + sched[a + size:], stop=False)
            size //= 2

    def widen(self, rng):
        return random_cases(random_programs(), 600, rng.randrange(1 << 30))


class Chain(pipeline.Stream):
    """oracle only (outside Model/Future.v, which has no registration made from inside a callback): a callback that registers a
    follow-up callback on its own future while it is being notified -- 'exactly once per registration' covers that
    registration too, and the notifying thread (the executing worker, or the late registrar) must come back.  Real threads, no
    interleaving involved: every step is sequential except the bounded waits that detect a thread that never returns."""
    name = "chain"
    model_imports = "Future"
    case_type = "unit"
    check_fn = "(fun _ => true)"

    def setup(self):
        import jsonrpclib.threadpool as T
        self.T = T

    def gen(self, tier, rng):
        return [{"when": w, "body": b, "depth": d, "pool": p}
                for w in ("before", "after") for b in ("ret", "raise") for d in (1, 2, 3) for p in (False, True)]

    def run_impl(self, case):
        import threading
        T = self.T
        calls = []
        fut_box = []
        result_obj, exc_obj = object(), ValueError("task failed")

        def make_cb(level):
            def cb(result, exception, extra):
                calls.append((level, result, exception, extra))
                if level < case["depth"]:
                    fut_box[0].set_callback(make_cb(level + 1), ("extra", level + 1))
            return cb

        def body():
            if case["body"] == "raise":
                raise exc_obj
            return result_obj

        out = {"returned": {}, "next_task_ran": None}
        pool = None
        try:
            if case["pool"]:
                pool = T.ThreadPool(1, 1)
                pool.start()
                gate = threading.Event()
                if case["when"] == "before":
                    def gated():
                        gate.wait(10)
                        return body()
                    fut = pool.enqueue(gated)
                    fut_box.append(fut)
                    fut.set_callback(make_cb(1), ("extra", 1))
                    gate.set()
                else:
                    fut = pool.enqueue(body)
                    fut_box.append(fut)
                    try:
                        fut.result(10)
                    except Exception:      # noqa
                        pass
                    th = threading.Thread(target=lambda: fut.set_callback(make_cb(1), ("extra", 1)), daemon=True)
                    th.start()
                    th.join(10)
                    out["returned"]["set_callback"] = not th.is_alive()
                nxt = pool.enqueue(lambda: "next")
                try:
                    out["next_task_ran"] = nxt.result(10) == "next"
                except Exception:          # noqa
                    out["next_task_ran"] = False
            else:
                fut = T.FutureResult()
                fut_box.append(fut)

                def run_exec():
                    try:
                        fut.execute(body, None, None)
                    except Exception:      # noqa
                        pass
                if case["when"] == "before":
                    fut.set_callback(make_cb(1), ("extra", 1))
                th = threading.Thread(target=run_exec, daemon=True)
                th.start()
                th.join(10)
                out["returned"]["execute"] = not th.is_alive()
                if case["when"] == "after":
                    th2 = threading.Thread(target=lambda: fut.set_callback(make_cb(1), ("extra", 1)), daemon=True)
                    th2.start()
                    th2.join(10)
                    out["returned"]["set_callback"] = not th2.is_alive()
        finally:
            if pool is not None:
                th3 = threading.Thread(target=pool.stop, daemon=True)
                th3.start()
                th3.join(15)
                out["returned"]["pool.stop"] = not th3.is_alive()
        want = (None, exc_obj) if case["body"] == "raise" else (result_obj, None)
        out["calls"] = [(lv, r is want[0], e is want[1], x) for (lv, r, e, x) in calls]
        return out

    def oracle(self, case, obs):
        for what, ok in obs["returned"].items():
            if not ok:
                return ("C16:no-progress", "%s did not return within 10 s when a callback registers a follow-up callback on its own future" % what)
        if obs["next_task_ran"] is False:
            return ("C16:worker-progress-changed-by-callback", "the worker did not run the next task after notifying a chaining callback")
        for level in range(1, case["depth"] + 1):
            mine = [c for c in obs["calls"] if c[0] == level]
            if len(mine) != 1:
                return ("C16:callback-not-invoked" if not mine else "C16:callback-invoked-twice",
                        "registration made %s (level %d) was invoked %d times" % (
                            "by the caller" if level == 1 else "from inside callback %d" % (level - 1), level, len(mine)))
            if mine[0][1:] != (True, True, ("extra", level)):
                return ("C16:callback-wrong-arguments", "callback of level %d got %r" % (level, mine[0]))
        return None

    def encode(self, case, obs):
        return None

    def nontrivial(self, case, obs):
        return True

    def kind(self, case, obs):
        return "chain / registered %s completion / %s / depth %d / %s" % (case["when"], case["body"], case["depth"],
                                                                          "pool" if case["pool"] else "bare future")

    def describe(self, case, obs):
        return {"case": case, "returned": obs["returned"], "calls": [list(c[:3]) + [list(c[3])] for c in obs["calls"]],
                "next_task_ran": obs["next_task_ran"]}

    def to_replay(self, case):
        return dict(case)

    def from_replay(self, j):
        return dict(j)


def streams():
    return [Main(), Chain()]
