"""C11 -- join() means finished; stop() always terminates; the pool is restartable"""
from harness.core import pipeline
from harness.pool_support import common as C

PROP_ID = "C11"
ANCHOR_RANGES = C.ANCHOR_RANGES
TRUSTED = C.TRUSTED
ASSUMPTIONS = C.ASSUMPTIONS
RULE = ("client programs over {start, stop, enqueue (returning / raising / gate-blocked tasks, one dependent group no larger than "
        "max_threads), join, join(timeout), result(), redundant start/stop, restart} on 1-3 threads, max_threads in 1..3, min_threads in "
        "0..max; each run under a seeded random or PCT schedule of the controlled scheduler at the granularity of Model/Pool.v "
        "(time-outs fire at quiescent moments); model and implementation compared after EVERY step on the shared state "
        "(queue, unfinished_tasks, lock owner/depth, thread list, the three counters, queue mutex, per-task starts and future state). "
        "Non-trivial: at least one task and 20 model steps; distinct by (program, schedule policy).")
MANIFEST_ENTRY = {
    "text": "Theorems for every schedule/program/pool size: join() never returns True while a task enqueued before the call is neither done nor dropped, never returns False unless timed with work outstanding; after stop() returned no body begins and every worker is dead; all invariants hold after any number of restarts; redundant start()/stop() are one flag read; the pool never deadlocks: inside stop() (and for every worker and client call) the thread can step or the holder of the lock / queue mutex it waits for can. Lock-step correspondence with the real pool; the oracle checks join's claim at the moment it returns, that stop() returns under every explored schedule (exact deadlock detection), worker exit, restart and idempotence.",
    "note": "Proved for ALL schedules/programs/pool sizes about Model/Pool.v (24 worker labels, 48 client labels, RLock, queue with its mutex and all_tasks_done condition); time-outs may fire at any moment in the theorems. Modelled, not verified: queue.Queue / threading primitives as atomic operations, CPython's atomicity of one source line, thread creation succeeds, unbounded queue, start()/stop() from one controlling thread. 'stop() always returns' is proved in its safety half for every reachable state of every schedule: the pool never deadlocks (C11_stop_never_blocked / C11_stop_no_deadlock: inside stop() the controlling thread can step or the holder of the lock / queue mutex it waits for can; C11_thread_progress_worker / _client: so can every started worker and every client call except a client's own untimed join() with work outstanding; C11_join_on_running_pool_not_stuck), and the variant halves: once the stop flag is set every step of a worker strictly decreases its rank (<= 22 own steps to exit, C11_worker_exits_in_bounded_steps; no other thread's step increases it, C11_worker_rank_monotone), every own step of stop() decreases (phase, position) lexicographically except the re-poll of a worker after thread.join(3) (C11_stop_steps_decrease). PARTIAL: termination itself (fair scheduling, task bodies that return) is not a theorem; the scheduler's exact deadlock detection decides it on the explored schedules only.",
    "technique": "Coq proof of invariants over all schedules of a line-granularity interleaving model + lock-step correspondence under a controlled scheduler + property oracle",
    "design_ref": "DESIGN.md 4/C11 and 'The thread-pool model shared by C09, C10, C11'",
}


class Lockstep(C.PoolStream):
    oracle_fn = staticmethod(C.oracle_c11)


class Bounded(C.BoundedStream):
    oracle_fn = staticmethod(C.oracle_c11)


def streams():
    return [Lockstep(), Bounded()]
