"""C08 -- class translation is inert when disabled and validates names before importing."""
import itertools
import json

from harness.core import pipeline, gallina as G, values as V
from harness.jsonclass_support import world as W, descgen as D, watch

from harness.jsonclass_support import anchors

PROP_ID = "C08"
MANIFEST_ENTRY = {
    "text": ("Theorems (Coq, closed under the global context) over all payload values about a Gallina model of the "
             "use_jsonclass gates of jsonrpc.load/loads/dump, of jsonclass.load instrumented with an event log (every "
             "__import__ call, every construction) and of the -32700 conversion of _marshaled_dispatch: disabled = identity "
             "with no event; a descriptor whose name is empty or has a character outside [a-zA-Z0-9_.] raises "
             "TranslationError with no event and the dict untouched; malformed descriptors of every type/length raise with "
             "no event; a rejection at any depth propagates with only earlier members' events; every rejected payload gets "
             "the -32700 object and no invocation. The model is checked against the real code (imports observed with an "
             "audit hook, a meta_path finder and canary modules) on every run."),
    "note": ("the regular-expression engine, str.split, __import__/getattr resolution and constructor binding are modelled "
             "(class table), not verified; import observation is by top-level module name; the dispatcher behind the "
             "translator is opaque in the server theorem (arbitrary continuation)."),
    "technique": "Coq proof over a hand-written executable model + differential correspondence check (vm_compute) + property oracle",
    "design_ref": "DESIGN.md 4/C08",
}
ANCHOR_RANGES = anchors.func_ranges([("jsonrpclib/jsonclass.py", "load"), ("jsonrpclib/jsonrpc.py", "load"), ("jsonrpclib/jsonrpc.py", "loads"), ("jsonrpclib/SimpleJSONRPCServer.py", "SimpleJSONRPCDispatcher._marshaled_dispatch")])
RULE = ("names stream: every string of length <= 2 (thorough: <= 3, 11 154 names) over a 22-symbol alphabet (letters, digit, _ . "
        "space - / : NUL newline, e-acute, full-width A, Arabic-Indic zero, combining acute, astral letter) as the class name of an "
        "otherwise well-formed descriptor, use_jsonclass on and off, plus random long names; payload stream: requests / responses "
        "with descriptors (valid canary, valid world class, invalid-name variants that would reach a canary module if cleaned, "
        "missing module, malformed of every JSON type and length) at depth <= 3 in params / result / id, on and off, through "
        "jsonrpc.loads; server stream: the same payloads through SimpleJSONRPCDispatcher._marshaled_dispatch with a logging method; "
        "dump stream: parameters with beans under use_jsonclass off. Non-trivial: the payload contains a '__jsonclass__' member. "
        "Distinct by canonical hash of the case.")
EXHAUSTIVE = "all class-name strings of length <= 2 (quick) / <= 3 (thorough) over the 22-symbol alphabet, x use_jsonclass on/off"
TRUSTED = ["modelled, not verified: re.sub with INVALID_MODULE_CHARS (as a per-byte class test on UTF-8), str.split, __import__ / "
           "getattr resolution (class table + module list), constructor argument binding",
           "import observation: sys.addaudithook 'import' events + a sys.meta_path finder + canary modules in a temporary "
           "directory on sys.path (markers on import and on construction); compared as sets of top-level module names",
           "the server-side oracle decides 'the translator rejects' by calling jsonrpclib.loads on the same text"]
ASSUMPTIONS = ["'otherwise well-formed' = a list of length >= 2 whose second element is a list or dict (DESIGN 4/C08 reading)",
               "'before any import or construction' is about the offending descriptor; members visited earlier may have been loaded"]

ALPHABET = ["q", "Z", "c", "a", "B", "x", "y", "7", "_", ".", " ", "-", "/", ":", "\x00", "\n", "é", "Ａ", "٠",
            "́", "\U0001d41a", "n"]
assert len(ALPHABET) == 22 and len(set(ALPHABET)) == 22
VALID_CHARS = set("abcdefghijklmnopqrstuvwxyzABCDEFGHIJKLMNOPQRSTUVWXYZ0123456789_.")

CANARY_DESCS = [dict(W.cdesc("q.Z", "dict", "q", "Z"), external=True),
                dict(W.cdesc("vcanary.Cls", "dict", "vcanary", "Cls"), external=True)]


def name_is_invalid(name):
    """the statement: empty, or any character other than ASCII letters, digits, underscore and dot"""
    return isinstance(name, str) and (name == "" or any(ch not in VALID_CHARS for ch in name))


def make_world():
    w = W.standard_world()
    w.descs += CANARY_DESCS
    w.by_cid.update({d["cid"]: d for d in CANARY_DESCS})
    return w


def hidden_roots(world):
    return sorted(set(d["module"].split(".")[0] for d in world.descs if not d.get("external") and d["module"] != W.MAIN))


def watched_classes(world):
    return [d["cid"] for d in world.descs if d["kind"] not in ("enum", "decimal")]


def g_cfg(use, world, with_classes):
    table = world.local_table() if with_classes else {}
    return '(mkCfg %s "_serialize" "_ignore" [] %s)' % (G.g_bool(use), world.g_classes(table))


def descriptors_in(v, out=None):
    """the descriptors the translator can reach: constructor arguments are handed over verbatim (never translated), and a
    descriptor that is rejected (invalid name, malformed) is rejected before any of its other members is looked at"""
    out = [] if out is None else out
    if isinstance(v, dict):
        if D.JC in v:
            out.append(v)
            jc = v[D.JC]
            if not well_formed(jc) or name_is_invalid(jc[0]) or not isinstance(jc[0], str):
                return out
        for k, x in v.items():
            if k != D.JC:
                descriptors_in(x, out)
    elif isinstance(v, (list, tuple)):
        for x in v:
            descriptors_in(x, out)
    return out


def leading_dot_name(payload):
    return any(isinstance(d[D.JC], (list, str)) and len(d[D.JC]) > 0 and isinstance(d[D.JC][0], str) and d[D.JC][0].startswith(".")
               for d in descriptors_in(payload))


def well_formed(jc):
    return isinstance(jc, list) and len(jc) >= 2 and isinstance(jc[1], (list, dict))


class Base(pipeline.Stream):
    model_imports = "JsonClassObs"
    shard = 400

    _up = False

    def ensure(self):
        """the decision stage re-runs cases after teardown(): come up again (cleaned at exit)"""
        if not self._up:
            import atexit
            self.setup()
            atexit.register(self.teardown)

    def setup(self):
        self._up = True
        import jsonrpclib.jsonrpc as J
        import jsonrpclib.config as C
        import jsonrpclib.jsonclass as JC
        self.J, self.C, self.JC = J, C, JC
        self.world = make_world()
        self.world.setup()
        self.watch = watch.Watch()
        self.watch.setup()
        self.extra_defs = ("Definition W08 : pyenv := %s.\nDefinition HID : list str := %s.\nDefinition WAT : list str := %s.\n" % (
            self.world.g_env(), G.g_list([G.g_str(s) for s in hidden_roots(self.world)]),
            G.g_list([G.g_str(s) for s in watched_classes(self.world)])))
        # warm-up: lazy imports of the library itself must not show up as observations
        self.watch.observe(lambda: J.loads('{"__jsonclass__": ["nomod_zz.X", []]}', self.config(True, False)))
        self.watch.observe(lambda: JC.load({"__jsonclass__": ["decimal.Decimal", ["1"]]}))

    def teardown(self):
        if self._up:
            self._up = False
            self.watch.teardown()
            self.world.teardown()

    _ncfg = 0

    def config(self, use, with_classes, version=2.0):
        cfg = self.C.Config(version=version, use_jsonclass=use)
        if with_classes:
            for n, c in self.world.local_table().items():
                cfg.classes.add(c, n)
        # every third configuration is handed over as a copy, every ninth as a copy of a copy: a configuration
        # derived with Config.copy() (what the dispatcher itself does for 1.0-form requests) must behave alike
        Base._ncfg += 1
        if Base._ncfg % 3 == 0:
            cfg = cfg.copy()
            if Base._ncfg % 9 == 0:
                cfg = cfg.copy()
        return cfg

    def masked(self, case, obs):
        return False

    def g_roots(self, obs):
        """observed import roots without the modules that are in sys.modules anyway (the model hides the same ones)"""
        hid = set(hidden_roots(self.world))
        return G.g_list([G.g_str(r) for r in obs["imports"] if r not in hid])

    def to_replay(self, case):
        return W.dv_to_json(case)

    def from_replay(self, j):
        return W.dv_from_json(j)

    # ---- shared oracle pieces
    def check_inert(self, payload, obs):
        if obs["outcome"][0] != "ok":
            return ("C08:disabled-load-raises", "use_jsonclass off, but decoding raised %s" % type(obs["outcome"][1]).__name__)
        if not W.dv_same(obs["outcome"][1], payload):
            return ("C08:disabled-load-interprets", "use_jsonclass off, payload %r decoded as %r" % (payload, obs["outcome"][1]))
        if obs["imports"] or obs["constructs"]:
            return ("C08:disabled-load-imports", "use_jsonclass off, but imports %r / constructions %r happened" % (obs["imports"], obs["constructs"]))
        return None

    def check_enabled(self, payload, obs, victim):
        descs = descriptors_in(payload)
        # descriptors that have a class name (element 0 is a string) which is empty or has a forbidden character
        invalid = [d for d in descs if isinstance(d[D.JC], list) and d[D.JC] and name_is_invalid(d[D.JC][0])]
        malformed = [d for d in descs if not well_formed(d[D.JC])]
        if (invalid or malformed) and obs["outcome"][0] == "ok":
            return ("C08:bad-descriptor-accepted", "payload with an invalid/malformed descriptor was decoded: %r" % (payload,))
        if descs and len(invalid) == len(descs):
            if not malformed and (obs["outcome"][0] != "raise" or type(obs["outcome"][1]).__name__ != "TranslationError"):
                return ("C08:invalid-name-not-translation-error", "invalid class name(s) %r: outcome %r" % (
                    [d[D.JC][0] for d in invalid], obs["outcome"]))
            if obs["imports"] or obs["constructs"]:
                return ("C08:import-before-name-validation", "invalid class name(s) %r, yet imports %r / constructions %r" % (
                    [d[D.JC][0] for d in invalid], obs["imports"], obs["constructs"]))
        if victim is not None:
            # the victim canary occurs in this payload only under invalid names / in descriptors without a usable name
            if victim[0] in obs["imports"] or victim[1] in obs["constructs"]:
                return ("C08:import-before-name-validation", "module %r was imported / %r constructed although it is only named by "
                        "invalid or malformed descriptors in %r" % (victim[0], victim[1], payload))
        return None


def obs_describe(obs):
    o = obs["outcome"]
    return {"outcome": {"value": W.dv_to_json(o[1])} if o[0] == "ok" else {"raised": type(o[1]).__name__, "text": str(o[1])[:160]},
            "imports": obs["imports"], "constructs": obs["constructs"]}


class Names(Base):
    """every short string as the class name of an otherwise well-formed descriptor"""
    name = "names"
    case_type = "config * val * res val * list str * list str"
    check_fn = "(c08_load_check W08 HID WAT)"

    def gen(self, tier, rng):
        top = 2 if tier == "quick" else 3
        names = [""]
        for n in range(1, top + 1):
            names += ["".join(t) for t in itertools.product(ALPHABET, repeat=n)]
        if tier == "quick":
            names += ["".join(rng.choice(ALPHABET) for _ in range(3)) for _ in range(1200)]
        # the canary under every single-character corruption, long names
        for base in ["q.Z", "vcanary.Cls", "vmod_a.Bean", "vmod_a.sub.Point"]:
            for ch in ALPHABET[9:] + [";", "(", "\t", " ", "​", "ı"]:
                for pos in range(len(base) + 1):
                    names.append(base[:pos] + ch + base[pos:])
            names.append(base)
        for _ in range(200 if tier == "quick" else 2000):
            n = rng.randint(4, 40)
            names.append("".join(rng.choice(ALPHABET if rng.random() < 0.5 else ALPHABET[:10]) for _ in range(n)))
        cases = []
        for i, nm in enumerate(names):
            cases.append({"use": True, "name": nm, "params": [] if i % 7 else {}})
            if i % 5 == 0:
                cases.append({"use": False, "name": nm, "params": []})
        return cases

    def payload(self, case):
        return {D.JC: [case["name"], W.dv_copy(case["params"])]}

    def run_impl(self, case):
        self.ensure()
        cfg = self.config(case["use"], False)
        arg = self.payload(case)
        out, imports, constructs = self.watch.observe(lambda: self.J.load(arg, cfg))
        if out[0] == "ok":
            out = ("ok", self.world.abstract(out[1]))
        return {"outcome": out, "imports": imports, "constructs": constructs}

    def oracle(self, case, obs):
        if not case["use"]:
            return self.check_inert(self.payload(case), obs)
        return self.check_enabled(self.payload(case), obs, None)

    def encode(self, case, obs):
        if case["name"].startswith("."):
            return None      # CPython loads "<dir>/q.py" under the module name ".q": import-system oddity, not modelled
        return "(%s, %s, %s, %s, %s)" % (g_cfg(case["use"], self.world, False), W.g_dv(self.payload(case)), W.g_outcome(obs["outcome"]),
                                         self.g_roots(obs), G.g_list([G.g_str(c) for c in obs["constructs"]]))

    def nontrivial(self, case, obs):
        return True

    def kind(self, case, obs):
        o = obs["outcome"]
        nm = case["name"]
        cls = "empty" if nm == "" else ("invalid chars" if name_is_invalid(nm) else "valid chars")
        return "%s / %s / %s" % ("on" if case["use"] else "off", cls, "ok" if o[0] == "ok" else type(o[1]).__name__)

    def describe(self, case, obs):
        return dict({"use_jsonclass": case["use"], "name": case["name"], "params": case["params"]}, **obs_describe(obs))

    def shrink(self, case):
        nm = case["name"]
        for i in range(len(nm)):
            yield dict(case, name=nm[:i] + nm[i + 1:])


# ------------------------------------------------------------------ payloads

def rand_name_variant(rng, target):
    """an invalid spelling that a cleaning (instead of rejecting) translator would turn into `target`"""
    bad = rng.choice([" ", "-", "/", ":", "\x00", "\n", "é", "Ａ", "٠", "́", ";", "\t"])
    pos = rng.randint(0, len(target))
    return target[:pos] + bad + target[pos:]


def rand_descriptor(rng, victim, other):
    r = rng.random()
    if r < 0.3:
        return {D.JC: [rand_name_variant(rng, victim), rng.choice([[], {}])]}
    if r < 0.4:
        jc = rng.choice([victim, [victim], [victim, None], [victim, 5], [[victim], []], {"0": victim}, None, 5, [], [victim, "ab"],
                         [None, []], [0, []], ["", []], [[], []], [{}, {}], [5, []], [True, []], [1.5, {}]])
        return {D.JC: D._fresh(jc)}
    if r < 0.55:
        return {D.JC: [other, []]}
    if r < 0.65:
        return {D.JC: [rng.choice(["nomod_zz.X", "nomod_zz.sub.X", other.split(".")[0] + ".Nope", "Nope", other.split(".")[0]]), []]}
    return D.rand_descriptor(rng, 1, fail_bias=0.2)


def rand_tree(rng, depth, victim, other):
    if depth <= 0 or rng.random() < 0.3:
        return rand_descriptor(rng, victim, other) if rng.random() < 0.6 else D.rand_plain(rng, 1)
    if rng.random() < 0.5:
        return [rand_tree(rng, depth - 1, victim, other) for _ in range(rng.randint(1, 3))]
    return {k: rand_tree(rng, depth - 1, victim, other) for k in rng.sample(["a", "b", "c", "params"], rng.randint(1, 3))}


def rand_envelope(rng, victim, other):
    body = rand_tree(rng, rng.randint(0, 3), victim, other)
    r = rng.random()
    if r < 0.45:
        params = body if isinstance(body, (list, dict)) and D.JC not in body and rng.random() < 0.5 else [body]
        env = {"jsonrpc": "2.0", "method": "m", "params": params, "id": rng.choice([1, "x", None])}
        if rng.random() < 0.2:
            del env["jsonrpc"]
        if rng.random() < 0.15:
            del env["id"]
    elif r < 0.6:
        env = {"jsonrpc": "2.0", "method": "m", "params": [1], "id": body}
    elif r < 0.85:
        env = {"jsonrpc": "2.0", "result": body, "id": 3}
    elif r < 0.93:
        env = [{"jsonrpc": "2.0", "method": "m", "params": [1], "id": 1}, {"jsonrpc": "2.0", "method": "m", "params": [body], "id": 2}]
    else:
        env = body
    return env


def gen_payload_cases(tier, rng, n_quick, n_thorough):
    cases = []
    canaries = [("q", "q.Z"), ("vcanary", "vcanary.Cls")]
    # systematic: every single descriptor form at three positions, on and off
    for vi in (0, 1):
        victim, other = canaries[vi], canaries[1 - vi]
        singles = []
        for bad in [" ", "\n", "é", "/", "\x00", "Ａ"]:
            for pos in (0, 1, len(victim[1])):
                singles.append({D.JC: [victim[1][:pos] + bad + victim[1][pos:], []]})
        for jc in D.MALFORMED_JC:
            singles.append({D.JC: D._fresh(jc)})
        singles.append({D.JC: [other[1], []]})
        singles.append({D.JC: ["", []]})
        # a rejected descriptor holding a perfectly valid one (constructor arguments, list or map form, other members):
        # nothing of it may be imported or constructed
        inner = {D.JC: [victim[1], []]}
        for bad in ["", "bad name", victim[1] + "\n", "é"]:
            singles.append({D.JC: [bad, [D._fresh(inner)]]})
            singles.append({D.JC: [bad, {"a": [1, D._fresh(inner)]}]})
            singles.append({D.JC: [bad, [[{"k": D._fresh(inner)}]]], "attr": D._fresh(inner)})
        for d in singles:
            for env in ({"jsonrpc": "2.0", "method": "m", "params": [D._fresh(d)], "id": 1},
                        {"jsonrpc": "2.0", "method": "m", "params": {"a": [1, {"b": D._fresh(d)}]}, "id": 1},
                        {"jsonrpc": "2.0", "result": D._fresh(d), "id": 1},
                        {"jsonrpc": "2.0", "method": "m", "params": [{D.JC: [other[1], []]}, D._fresh(d)], "id": 1}):
                for use in (True, False):
                    cases.append({"use": use, "classes": False, "payload": env, "victim": vi, "version": 2.0})
                cases.append({"use": True, "classes": False, "payload": env, "victim": vi, "version": 2.0, "esc": True})
    for i in range(n_quick if tier == "quick" else n_thorough):
        vi = rng.randint(0, 1)
        victim, other = canaries[vi], canaries[1 - vi]
        env = rand_envelope(rng, victim[1], other[1])
        cases.append({"use": rng.random() < 0.75, "classes": rng.random() < 0.3, "payload": env, "victim": vi,
                      "version": rng.choice([2.0, 2.0, 1.0]), "esc": rng.random() < 0.25})
    return cases


def wire_text(case):
    """the JSON text of the payload; with "esc" the member name is written with \\u escapes (the same JSON value)"""
    text = json.dumps(case["payload"])
    if case.get("esc"):
        text = text.replace('"__jsonclass__"', '"\\u005f_jsonclass_\\u005f"')
        assert json.loads(text) == json.loads(json.dumps(case["payload"]))
    return text


def victim_of(case):
    canaries = [("q", "q.Z"), ("vcanary", "vcanary.Cls")]
    v = canaries[case["victim"]]
    # the victim is only a victim if no descriptor of the payload names it validly
    for d in descriptors_in(case["payload"]):
        jc = d[D.JC]
        if isinstance(jc, list) and jc and isinstance(jc[0], str) and not name_is_invalid(jc[0]) and jc[0].split(".")[0] == v[0]:
            return None
    return v


class Payload(Base):
    """whole requests / responses through jsonrpc.loads (client and server both decode with it)"""
    name = "payload"
    case_type = "config * val * res val * list str * list str"
    check_fn = "(c08_load_check W08 HID WAT)"

    def gen(self, tier, rng):
        return gen_payload_cases(tier, rng, 400, 6000)

    def run_impl(self, case):
        self.ensure()
        cfg = self.config(case["use"], case["classes"], case["version"])
        text = wire_text(case)
        out, imports, constructs = self.watch.observe(lambda: self.J.loads(text, cfg))
        if out[0] == "ok":
            out = ("ok", self.world.abstract(out[1]))
        return {"outcome": out, "imports": imports, "constructs": constructs}

    def oracle(self, case, obs):
        payload = json.loads(json.dumps(case["payload"]))
        if not case["use"]:
            return self.check_inert(payload, obs)
        return self.check_enabled(payload, obs, victim_of(case))

    def encode(self, case, obs):
        payload = json.loads(json.dumps(case["payload"]))
        if payload is None or leading_dot_name(payload):
            return None
        return "(%s, %s, %s, %s, %s)" % (g_cfg(case["use"], self.world, case["classes"]), W.g_dv(payload), W.g_outcome(obs["outcome"]),
                                         self.g_roots(obs), G.g_list([G.g_str(c) for c in obs["constructs"]]))

    def nontrivial(self, case, obs):
        return bool(descriptors_in(case["payload"]))

    def kind(self, case, obs):
        o = obs["outcome"]
        p = case["payload"]
        where = "batch" if isinstance(p, list) else ("request" if isinstance(p, dict) and "method" in p else ("response" if isinstance(p, dict) and "result" in p else "bare"))
        return "%s / %s / %s" % ("on" if case["use"] else "off", where, "ok" if o[0] == "ok" else type(o[1]).__name__)

    def describe(self, case, obs):
        return dict({"use_jsonclass": case["use"], "local_classes": case["classes"], "payload": W.dv_to_json(case["payload"])}, **obs_describe(obs))

    def shrink(self, case):
        from harness.props.c15 import shrink_value
        for c in shrink_value(case["payload"]):
            yield dict(case, payload=c)


class _CannedTransport(object):
    """a `transport=` object for ServerProxy: whatever is sent, the peer answers with `text`"""

    def __init__(self, text):
        self.text = text
        self.sent = []

    def request(self, host, handler, request_body, verbose=0):
        self.sent.append(request_body)
        return self.text

    def close(self):
        pass

    def push_headers(self, headers):
        pass

    def pop_headers(self, headers):
        pass


class Client(Payload):
    """the CLIENT side: the same payloads arrive as the response text of a ServerProxy built with the
    configuration under test (ServerProxy._run_request -> loads(response, self._config)); same model
    function as the `payload` stream, the property demands the same outcome"""
    name = "client"

    def gen(self, tier, rng):
        return gen_payload_cases(tier, rng, 250, 3000)

    def run_impl(self, case):
        self.ensure()
        cfg = self.config(case["use"], case["classes"], case["version"])
        text = wire_text(case)
        tr = _CannedTransport(text)
        proxy = self.J.ServerProxy("http://localhost:1/rpc", transport=tr, config=cfg, version=case["version"])
        out, imports, constructs = self.watch.observe(lambda: proxy._run_request('{"jsonrpc": "2.0", "method": "m", "id": 1}'))
        if out[0] == "ok":
            out = ("ok", self.world.abstract(out[1]))
        return {"outcome": out, "imports": imports, "constructs": constructs}

    def encode(self, case, obs):
        payload = json.loads(json.dumps(case["payload"]))
        if not payload:
            return None        # an empty / falsy response text never reaches the decoder (`if not response: return None`)
        return Payload.encode(self, case, obs)

    def masked(self, case, obs):
        return not json.loads(json.dumps(case["payload"])) and json.dumps(case["payload"]) in ('""', "null")


class Server(Base):
    """the same payloads through SimpleJSONRPCDispatcher._marshaled_dispatch with a logging method"""
    name = "server"
    case_type = "config * bool * val * bool * Z * list str * list str"
    check_fn = "(c08_server_check W08 HID WAT)"

    def gen(self, tier, rng):
        return [c for c in gen_payload_cases(tier, rng, 300, 4000)]

    def run_impl(self, case):
        self.ensure()
        from jsonrpclib.SimpleJSONRPCServer import SimpleJSONRPCDispatcher
        cfg = self.config(case["use"], case["classes"], case["version"])
        disp = SimpleJSONRPCDispatcher(config=cfg)
        calls = []

        def m(*a, **k):
            calls.append((a, k))
            return 7
        disp.register_function(m, "m")
        text = wire_text(case)
        # the oracle's own test of "the translator rejects this payload" (not observed for imports)
        try:
            self.J.loads(text, self.config(case["use"], case["classes"], case["version"]))
            rejected = False
        except Exception:        # noqa
            rejected = True
        out, imports, constructs = self.watch.observe(lambda: disp._marshaled_dispatch(text))
        reply = None
        if out[0] == "ok":
            try:
                reply = json.loads(out[1]) if out[1] else None
            except ValueError:
                reply = "<not json>"
        return {"outcome": out if out[0] == "raise" else ("ok", reply), "imports": imports, "constructs": constructs,
                "calls": len(calls), "rejected": rejected}

    @staticmethod
    def is_32700(reply):
        return (isinstance(reply, dict) and isinstance(reply.get("error"), dict) and reply["error"].get("code") == -32700
                and "id" in reply and reply["id"] is None)

    def oracle(self, case, obs):
        if obs["outcome"][0] == "raise":
            if obs["rejected"]:
                return ("C08:rejected-payload-not-32700", "translator rejects the payload but _marshaled_dispatch raised %s" % type(obs["outcome"][1]).__name__)
            return None      # an accepted payload whose reply cannot be serialised is C02's subject
        reply = obs["outcome"][1]
        if case["use"]:
            # decided from the statement, not by asking the translator: a reachable descriptor with an empty / invalid class name
            payload = json.loads(json.dumps(case["payload"]))
            bad = [d[D.JC][0] for d in descriptors_in(payload) if isinstance(d[D.JC], list) and d[D.JC] and name_is_invalid(d[D.JC][0])]
            if bad and not self.is_32700(reply):
                return ("C08:rejected-payload-not-32700", "descriptor with class name %r, but the reply is %r" % (bad[0], reply))
            if bad and obs["calls"]:
                return ("C08:method-invoked-for-rejected-payload", "%d invocation(s) though a descriptor has class name %r" % (obs["calls"], bad[0]))
        if obs["rejected"]:
            if not self.is_32700(reply):
                return ("C08:rejected-payload-not-32700", "translator rejects the payload but the reply is %r" % (reply,))
            if obs["calls"]:
                return ("C08:method-invoked-for-rejected-payload", "%d invocation(s) for a rejected payload" % obs["calls"])
        if not case["use"] and (obs["imports"] or obs["constructs"]):
            return ("C08:disabled-load-imports", "use_jsonclass off, but imports %r / constructions %r" % (obs["imports"], obs["constructs"]))
        if case["use"]:
            v = victim_of(case)
            if v is not None and (v[0] in obs["imports"] or v[1] in obs["constructs"]):
                return ("C08:import-before-name-validation", "module %r imported / constructed though only named by invalid descriptors" % (v[0],))
        return None

    def masked(self, case, obs):
        return False

    def encode(self, case, obs):
        payload = json.loads(json.dumps(case["payload"]))
        if payload is None or obs["outcome"][0] == "raise" or leading_dot_name(payload):
            return None
        # with use_jsonclass on, results containing beans are dumped again by the dispatcher: the logging method
        # returns 7, so nothing else is constructed; parameters that are beans are only constructed by load
        return "(%s, %s, %s, %s, %d, %s, %s)" % (
            g_cfg(case["use"], self.world, case["classes"]), G.g_bool(case["version"] >= 2), W.g_dv(payload),
            G.g_bool(self.is_32700(obs["outcome"][1])), obs["calls"] and 1,
            self.g_roots(obs), G.g_list([G.g_str(c) for c in obs["constructs"]]))

    def nontrivial(self, case, obs):
        return bool(descriptors_in(case["payload"]))

    def kind(self, case, obs):
        reply = obs["outcome"][1] if obs["outcome"][0] == "ok" else None
        return "%s / %s / %s" % ("on" if case["use"] else "off", "rejected" if obs["rejected"] else "accepted",
                                 "-32700" if self.is_32700(reply) else ("calls=%d" % obs["calls"]))

    def describe(self, case, obs):
        return {"use_jsonclass": case["use"], "payload": W.dv_to_json(case["payload"]), "reply": W.dv_to_json(obs["outcome"][1]) if obs["outcome"][0] == "ok" else repr(obs["outcome"][1]),
                "invocations": obs["calls"], "translator_rejects": obs["rejected"], "imports": obs["imports"], "constructs": obs["constructs"]}

    def shrink(self, case):
        from harness.props.c15 import shrink_value
        for c in shrink_value(case["payload"]):
            yield dict(case, payload=c)


class DumpGate(Base):
    """jsonrpc.dump with use_jsonclass off: parameters / results pass through unchanged"""
    name = "dumpgate"
    case_type = "config * val * res val"
    check_fn = "(c08_dump_check W08)"

    def gen(self, tier, rng):
        vals = [[1, "a"], {"k": (1, 2)}, [W.Inst("vmod_a.Bean", [("x", 1), ("y", 2)])], {"o": W.Inst("vmod_a.Slotted", [("a", 1), ("b", 2)])},
                [W.EnumV("vmod_a.Color", 1)], [W.Dec("1.5")], [{D.JC: ["q.Z", []]}], {D.JC: ["q .Z", []]}, [set([1, 2])], [None]]
        cases = []
        for v in vals:
            for use in (False, True):
                for resp in (False, True):
                    cases.append({"use": use, "value": v, "response": resp})
        return cases

    def run_impl(self, case):
        self.ensure()
        cfg = self.config(case["use"], False)
        arg = self.world.build(case["value"])
        if case["response"]:
            fn = lambda: self.J.dump(arg, rpcid=1, is_response=True, config=cfg)["result"]      # noqa
        else:
            fn = lambda: self.J.dump(arg, "m", rpcid=1, config=cfg)["params"]      # noqa
        out, imports, constructs = self.watch.observe(fn)
        same_object = out[0] == "ok" and out[1] is arg
        if out[0] == "ok":
            out = ("ok", self.world.abstract(out[1]))
        return {"outcome": out, "imports": imports, "constructs": constructs, "same_object": same_object}

    def oracle(self, case, obs):
        if not case["use"]:
            if obs["outcome"][0] != "ok" or not W.dv_same(obs["outcome"][1], case["value"]):
                return ("C08:disabled-dump-translates", "use_jsonclass off, but dump turned %r into %r" % (case["value"], obs["outcome"]))
            if obs["imports"] or obs["constructs"]:
                return ("C08:disabled-load-imports", "imports during dump")
        return None

    def encode(self, case, obs):
        return "(%s, %s, %s)" % (g_cfg(case["use"], self.world, False), W.g_dv(case["value"]), W.g_outcome(obs["outcome"]))

    def nontrivial(self, case, obs):
        return True

    def kind(self, case, obs):
        return "%s / %s" % ("on" if case["use"] else "off", "response" if case["response"] else "request")

    def describe(self, case, obs):
        return dict({"use_jsonclass": case["use"], "value": W.dv_to_json(case["value"])}, **obs_describe(obs))


def streams():
    return [Client(), Names(), Payload(), Server(), DumpGate()]
