"""C02 -- the server answers every request body with a well-formed reply and never raises."""
import itertools
import json

from harness.dispatch_support import core as K, gen as GN, stream as S

PROP_ID = "C02"
MANIFEST_ENTRY = {
    "text": ("Theorem C02_total_wellformed over ALL parse outcomes (empty text, parse/translation error, every parsed value), all "
             "registries, server versions, pools and dispatch functions (Coq, closed under the global context): the marshaled entry "
             "point of a Gallina model of the dispatcher returns and its reply satisfies the computable predicate wf_reply "
             "(empty | one well-formed object | non-empty array of well-formed objects), given that callables' results stay "
             "JSON-representable after conversion. The model is checked against the real _marshaled_dispatch on every run."),
    "note": ("JSON text parsing and the class translator are modelled components: the model's input is the outcome of jsonrpclib.loads "
             "on the body, the real dispatcher gets the text. do_POST's socket I/O is not part of this check (C17 models the wire). "
             "Bodies with numeric literals overflowing binary64 (1e400) are probed in a separate stream (known finding F14). "
             "json.dumps acceptance is the predicate `dumpable` (string keys only)."),
    "technique": "Coq proof over a hand-written executable model + differential correspondence check (vm_compute) + property oracle",
    "design_ref": "DESIGN.md 4/C02",
}
ANCHOR_RANGES = [("jsonrpclib/SimpleJSONRPCServer.py", 98, 185), ("jsonrpclib/SimpleJSONRPCServer.py", 225, 330),
                 ("jsonrpclib/SimpleJSONRPCServer.py", 330, 480), ("jsonrpclib/jsonrpc.py", 1159, 1192), ("jsonrpclib/jsonrpc.py", 1245, 1266)]
RULE = ("(a) member matrix: each of jsonrpc/id/method/params absent or bound to one of 10 representatives (null, true, 0, 1.5, known / "
        "unknown method string, [] / [1], {} / {'a':1}) = 11^4 objects, alone and as batch entries (quick: sampled); (b) every top-level "
        "scalar / empty container / nesting; (c) every truncation and every single-character deletion / substitution (alphabet "
        "\"{}[],:\\ x0) of valid requests; (d) random Unicode text; (e) __jsonclass__ descriptors (side-effect-free class, unknown "
        "module, invalid name, malformed of every JSON type) in the request, id, params and method positions; x server version x "
        "class translation on/off x dispatch (default, custom function, instance _dispatch). Non-trivial: the body is not a plain "
        "valid call. Distinct by case hash.")
TRUSTED = ["modelled, not verified: json.loads and the class translator (model input = outcome of jsonrpclib.loads), jsonclass.dump of "
           "results, json.dumps (predicate `dumpable`), CPython argument binding"]
ASSUMPTIONS = ["bodies without NaN/Infinity literals", "callables return JSON-representable values or raise ordinary exceptions",
               "descriptors name side-effect-free classes or unresolvable/invalid names", "server Config.version in {1.0, 2.0}"]

REPS = [GN.ABSENT, None, True, 0, 1.5, "ok", "nope", [], [1], {}, {"a": 1}]
VALID = [
    '{"jsonrpc": "2.0", "method": "ok", "params": [1, 2], "id": 1}',
    '{"method": "echo", "params": {"a": "x"}, "id": "abc"}',
    '[{"jsonrpc": "2.0", "method": "fail", "id": 0}, {"jsonrpc": "2.0", "method": "ok"}]',
    '{"jsonrpc": "2.0", "method": "nope", "params": [], "id": null}',
    '{"jsonrpc": "2.0", "method": "echo", "params": ["\\u00e9\\"q", 1.5e3, -0.0, true, null], "id": [1, {"k": "v"}]}',
    '{"id": 7, "method": "two", "params": [1]}',
    '[1, {"jsonrpc": "2.0", "method": "ok", "id": 2}]',
    '{"jsonrpc":"2.0","method":"sub.deep","id":3}',
]
DESCRIPTORS = [
    {"__jsonclass__": ["fractions.Fraction", [1, 3]]},
    {"__jsonclass__": ["collections.OrderedDict", []], "extra": 1},
    {"__jsonclass__": ["no_such_module_xyz.Cls", []]},
    {"__jsonclass__": ["fractions.NoSuchClass", []]},
    {"__jsonclass__": ["bad name!", []]},
    {"__jsonclass__": ["", []]},
    {"__jsonclass__": ["fractions.Fraction", 5]},
    {"__jsonclass__": ["fractions.Fraction", ["x", "y", "z"]]},
    {"__jsonclass__": None}, {"__jsonclass__": True}, {"__jsonclass__": 3}, {"__jsonclass__": 1.5}, {"__jsonclass__": "str"},
    {"__jsonclass__": []}, {"__jsonclass__": ["fractions.Fraction"]}, {"__jsonclass__": {}}, {"__jsonclass__": {"a": 1}},
    {"__jsonclass__": [5, []]}, {"__jsonclass__": [None, []]}, {"__jsonclass__": [["x"], []]},
]
DK = ["default", "default+instance", "custom-returns", "custom-raises", "custom-none", "instance-dispatch-returns",
      "instance-dispatch-raises", "instance-dispatch-attrerror"]


def member_object(combo):
    o = {}
    for k, v in zip(("jsonrpc", "id", "method", "params"), combo):
        if v is not GN.ABSENT:
            o[k] = v
    return o


def wf_error(e):
    return (isinstance(e, dict) and isinstance(e.get("code"), int) and not isinstance(e.get("code"), bool)
            and isinstance(e.get("message"), str))


def wf_object(o):
    """None, or why the response object is not well-formed for its protocol version (from the statement)"""
    if not isinstance(o, dict):
        return "response is not an object: %r" % (o,)
    if "jsonrpc" in o:
        if o["jsonrpc"] != "2.0" or not isinstance(o["jsonrpc"], str):
            return "2.0 object with jsonrpc = %r" % (o["jsonrpc"],)
        if "id" not in o:
            return "2.0 object without id"
        if ("result" in o) == ("error" in o):
            return "2.0 object must have exactly one of result / error: %r" % sorted(o)
        if "error" in o and not wf_error(o["error"]):
            return "error is not an object with integer code and string message: %r" % (o["error"],)
        return None
    for k in ("result", "error", "id"):
        if k not in o:
            return "1.0 object without %s" % k
    if o["error"] is None:
        return None
    if o["result"] is not None:
        return "1.0 failure with non-null result"
    if not wf_error(o["error"]):
        return "error is not an object with integer code and string message: %r" % (o["error"],)
    return None


class Main(S.DispatchStream):
    name = "main"

    def gen(self, tier, rng):
        cases = []

        def add(body, ver=None, dk=None, jc=None):
            c = GN.base_case(ver if ver is not None else rng.choice([1.0, 2.0]), dk or rng.choice(DK),
                             jsonclass=(rng.random() < 0.8) if jc is None else jc)
            c["body"] = body
            cases.append(c)

        # (a) member matrix
        combos = list(itertools.product(REPS, repeat=4))
        if tier == "quick":
            combos = rng.sample(combos, 1100)
        for combo in combos:
            add(json.dumps(member_object(combo)))
        for _ in range(300 if tier == "quick" else 6000):
            add(json.dumps([member_object([rng.choice(REPS) for _ in range(4)]) for _ in range(rng.randint(1, 4))]))
        # (b) top-level values
        tops = [None, True, False, 0, 1, -1, 1.5, 0.0, -0.0, "", "a", "ok", [], {}, [[]], [{}], [None], [[], []], [0], [""], {"": None},
                [[[1]]], {"a": {"b": {}}}, 10 ** 30, 1e308, 5e-324, [1, "x", None, True, {}, []]]
        for v, ver in itertools.product(tops, [1.0, 2.0]):
            add(json.dumps(v), ver=ver)
        add("", ver=1.0)
        add("", ver=2.0)
        for ws in [" ", "\n", "\t \r\n", "﻿", "\x00"]:
            add(ws)
        # (c) truncations, deletions, substitutions
        alphabet = '"{}[],:\\ x0'
        for text in (VALID[:3] if tier == "quick" else VALID):
            for i in range(len(text)):
                add(text[:i])
                add(text[:i] + text[i + 1:])
            subs = [(i, ch) for i in range(len(text)) for ch in alphabet if text[i] != ch]
            if tier == "quick":
                subs = rng.sample(subs, 120)
            for i, ch in subs:
                add(text[:i] + ch + text[i + 1:])
        # (d) random Unicode text
        pool = ['{', '}', '[', ']', '"', ':', ',', ' ', '\\', 'a', '0', '1', '-', '.', 'e', 'é', '中', '\U0001f600', '\x00', '\n',
                'null', 'true', 'false', '"id"', '"method"', '"ok"', '"jsonrpc"', '"2.0"', '"params"', '\ud800'.encode("utf-16", "surrogatepass").decode("utf-16", "replace")]
        for _ in range(200 if tier == "quick" else 4000):
            t = "".join(rng.choice(pool) for _ in range(rng.randint(1, 25)))
            if "Infinity" in t or "NaN" in t:
                continue
            add(t)
        # (e) class-translation descriptors in every position
        for d, ver, jc in itertools.product(DESCRIPTORS, [1.0, 2.0], [True, False]):
            for dk in (["default", "custom-returns"] if tier == "quick" else ["default", "custom-returns", "instance-dispatch-raises", "custom-raises"]):
                add(json.dumps(d), ver, dk, jc)
                add(json.dumps(GN.req("ok", [1], d)), ver, dk, jc)
                add(json.dumps(GN.req("ok", [d], 4)), ver, dk, jc)
                add(json.dumps(GN.req("ok", d, 5)), ver, dk, jc)
                add(json.dumps(GN.req(d, [], 6)), ver, dk, jc)
                add(json.dumps([GN.req("ok", [], d), GN.req("ok", [], 8)]), ver, dk, jc)
                add(json.dumps(GN.req("ok", {"k": [d]}, None)), ver, dk, jc)
        # escaped lone surrogates (valid JSON text, pure ASCII) in every echoed position: the reply must still be a text
        # that can be put on the wire
        for sur in ("\\ud800", "\\udc00x", "a\\ud83d"):
            for ver in (1.0, 2.0):
                add('{"jsonrpc": "2.0", "method": "echo", "params": ["%s"], "id": 1}' % sur, ver, "default")
                add('{"jsonrpc": "2.0", "method": "echo", "params": {"%s": 1}, "id": 2}' % sur, ver, "default")
                add('{"jsonrpc": "2.0", "method": "ok", "id": "%s"}' % sur, ver, "default")
                add('{"jsonrpc": "2.0", "method": "%s", "id": 3}' % sur, ver, "default")
                add('[{"method": "echo", "params": ["%s"], "id": "%s"}]' % (sur, sur), ver, "custom-returns")
        # results: conversion failure, tuple-free nested results
        for ver, dk in itertools.product([1.0, 2.0], DK):
            add(json.dumps(GN.req("opq", [], 1)), ver, dk, True)
            add(json.dumps(GN.req("echo", {"a": [1, {"b": [None, 1.5, "é"]}]}, 2, ver == 2.0)), ver, dk)
        return cases

    def masked(self, case, obs):
        # an unconvertible result with class translation off is outside "callables return JSON-representable values"
        if case.get("jsonclass", True):
            return False
        return any(ev[0] == "call" and ev[1] == GN.OPQ for ev in obs["log"]) or self.echoed_object(case, obs)

    def oracle(self, case, obs):
        if obs["raised"] is not None:
            return ("C02:dispatcher-raised", "_marshaled_dispatch raised %s: %s" % (type(obs["raised"]).__name__, str(obs["raised"])[:200]))
        if not isinstance(obs["text"], str):
            return ("C02:reply-not-text", "reply is %r" % (type(obs["text"]),))
        try:
            obs["text"].encode("utf-8")
        except UnicodeEncodeError as ex:
            return ("C02:reply-not-encodable", "the reply text cannot be written as UTF-8 (%s): %r" % (ex.reason, obs["text"][:120]))
        pr = K.parse_reply(obs["text"])
        if pr[0] == "empty":
            return None
        if pr[0] == "notjson":
            return ("C02:reply-not-json", "reply %r is not JSON: %s" % (obs["text"][:200], pr[1]))
        v = pr[1]
        if isinstance(v, list):
            if not v:
                return ("C02:empty-array", "reply is an empty array")
            objs = v
        else:
            objs = [v]
        for o in objs:
            why = wf_object(o)
            if why:
                return ("C02:malformed-response-object", why)
        return None

    def nontrivial(self, case, obs):
        try:
            v = json.loads(case["body"])
        except ValueError:
            return True
        return not (isinstance(v, dict) and S.is_wellformed_request(v) and not S.has_no_id(v))

    def kind(self, case, obs):
        po = obs["po"][0]
        if po == "error":
            k = "unparsable / rejected by translator"
        elif po == "empty":
            k = "empty text"
        else:
            v = obs["po"][1]
            k = "batch" if isinstance(v, list) and v else ("object" if isinstance(v, dict) else "other value")
        return "%s / jsonclass %s" % (k, "on" if case.get("jsonclass", True) else "off")


class Overflow(S.DispatchStream):
    """numeric literals overflowing binary64 (finding F14): json.loads yields inf, echoed as the non-JSON token Infinity"""
    name = "overflow"
    in_model = False

    def gen(self, tier, rng):
        cases = []
        for lit, ver, dk in itertools.product(["1e400", "-1e400", "1e999", "123456789e400"], [1.0, 2.0], ["default", "custom-returns"]):
            for body in ['{"jsonrpc": "2.0", "method": "echo", "params": [%s], "id": 1}' % lit,
                         '{"jsonrpc": "2.0", "method": "ok", "id": %s}' % lit,
                         '{"jsonrpc": "2.0", "method": 5, "id": [%s]}' % lit,
                         '[{"jsonrpc": "2.0", "method": "ok", "id": 2}, {"method": "nope", "id": {"k": %s}}]' % lit,
                         '{"jsonrpc": "2.0", "method": "ok", "params": [%s], "id": 3}' % lit,
                         '%s' % lit]:
                c = GN.base_case(ver, dk)
                c["body"] = body
                cases.append(c)
        return cases

    def oracle(self, case, obs):
        bad = Main.oracle(self, case, obs)
        if bad is None:
            return None
        if bad[0] == "C02:reply-not-json" and "Infinity" in (obs["text"] or ""):
            return ("C02:reply-not-json:numeric literal overflowing binary64",
                    "body %r is echoed with the non-JSON token Infinity: %r" % (case["body"], obs["text"][:160]))
        return bad

    def shrink(self, case):
        return ()        # re-serialising the body would turn the overflowing literal into the (excluded) token Infinity

    def kind(self, case, obs):
        return "overflow literal / %s" % ("echoed" if "Infinity" in (obs["text"] or "") else "not echoed")


class Http(Main):
    """the same bodies through SimpleJSONRPCRequestHandler.do_POST (fake rfile / wfile, no socket):
    status line and body of the HTTP answer"""
    name = "http"
    case_type = "dcase * Z"
    check_fn = "http_check"

    def gen(self, tier, rng):
        cases = Main.gen(self, tier, rng)
        cases = [c for c in cases if _utf8_ok(c["body"])]
        return rng.sample(cases, 700 if tier == "quick" else 6000)

    def run_impl(self, case):
        import io
        from jsonrpclib.SimpleJSONRPCServer import SimpleJSONRPCRequestHandler
        rt, cached = self.runtime(case)
        try:
            raw = case["body"].encode("utf-8")
            h = object.__new__(SimpleJSONRPCRequestHandler)
            rt.disp.logRequests = False
            h.server = rt.disp
            h.headers = {"content-length": str(len(raw))}
            h.rfile = io.BytesIO(raw)
            h.wfile = io.BytesIO()
            h.path = "/"
            h.request_version = "HTTP/1.1"
            h.requestline = "POST / HTTP/1.1"
            h.client_address = ("127.0.0.1", 0)
            h.close_connection = True
            if rt.dm is not None:
                h._dispatch = rt.dm
            start = len(rt.events)
            raised = None
            try:
                h.do_POST()
            except Exception as ex:     # noqa
                raised = ex
            out = h.wfile.getvalue()
            head, _, payload = out.partition(b"\r\n\r\n")
            lines = head.decode("latin-1").split("\r\n")
            status = int(lines[0].split()[1]) if lines and len(lines[0].split()) > 1 else -1
            hdrs = {ln.split(":", 1)[0].strip().lower(): ln.split(":", 1)[1].strip() for ln in lines[1:] if ":" in ln}
            with rt.lock:
                evs = rt.events[start:]
            obs = {"raised": raised, "text": payload.decode("utf-8"), "status": status, "headers": hdrs,
                   "log": [e for (m, e) in evs if m], "drained": [e for (m, e) in evs if not m], "drained_ok": True,
                   "content_length_ok": hdrs.get("content-length") == str(len(payload))}
            obs["po"] = K.parse_outcome(self.J, case["body"], rt.config)
            return obs
        finally:
            if not cached:
                rt.close()

    def oracle(self, case, obs):
        if obs["raised"] is not None:
            return ("C02:do_POST-raised", "do_POST raised %s" % type(obs["raised"]).__name__)
        if obs["status"] != 200:
            return ("C02:http-status-not-200", "do_POST answered %s: %r" % (obs["status"], obs["text"][:160]))
        if not obs["content_length_ok"]:
            return ("C02:http-content-length", "Content-length %r for a body of other length" % obs["headers"].get("content-length"))
        return Main.oracle(self, case, obs)

    def encode(self, case, obs):
        e = Main.encode(self, case, obs)
        return None if e is None else "(%s, %d)" % (e, obs["status"])

    def describe(self, case, obs):
        d = Main.describe(self, case, obs)
        d["http_status"] = obs["status"]
        return d


def _utf8_ok(s):
    try:
        s.encode("utf-8")
        return True
    except UnicodeEncodeError:
        return False


def streams():
    return [Main(), Http(), Overflow()]
