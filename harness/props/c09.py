"""C09 -- thread pool runs every accepted task exactly once and reports it faithfully"""
from harness.core import pipeline
from harness.pool_support import common as C

PROP_ID = "C09"
ANCHOR_RANGES = C.ANCHOR_RANGES
TRUSTED = C.TRUSTED
ASSUMPTIONS = C.ASSUMPTIONS
RULE = ("client programs over {start, stop, enqueue (returning / raising / gate-blocked tasks, one dependent group no larger than "
        "max_threads), join, join(timeout), result(), redundant start/stop, restart} on 1-3 threads, max_threads in 1..3, min_threads in "
        "0..max; each run under a seeded random or PCT schedule of the controlled scheduler at the granularity of Model/Pool.v "
        "(time-outs fire at quiescent moments); model and implementation compared after EVERY step on the shared state "
        "(queue, unfinished_tasks, lock owner/depth, thread list, the three counters, queue mutex, per-task starts and future state). "
        "Non-trivial: at least one task and 20 model steps; distinct by (program, schedule policy).")
MANIFEST_ENTRY = {
    "text": 'Theorems (Coq, closed under the global context) for every schedule, program and pool size of the line-granularity model: no task body begins twice; a done future means its body ran exactly once; nothing runs and every worker is dead once stop() has returned; no accepted task is lost unaccounted; a queued task of a running pool at rest always has a live worker serving the queue; with max_threads = 1 task bodies begin in submission order. The model is driven in lock-step with the real ThreadPool under a controlled scheduler on every run; the oracle checks exactly-once, identity of results, no run after stop, FIFO for one worker and completion of accepted tasks on the explored schedules.',
    "note": "Proved for ALL schedules/programs/pool sizes about Model/Pool.v (24 worker labels, 48 client labels, RLock, queue with its mutex and all_tasks_done condition); time-outs may fire at any moment in the theorems. Modelled, not verified: queue.Queue / threading primitives as atomic operations, CPython's atomicity of one source line, thread creation succeeds, unbounded queue, start()/stop() from one controlling thread. The liveness half ('is executed once the pool is running') is proved in its safety form only (C09_never_stranded: a queued task of a running pool at rest always has a live worker serving the queue). The single-worker FIFO clause is a theorem (C09_single_worker_fifo: with max_threads = 1 the bodies begin in the order of the puts, for every schedule; C09_start_log_records_every_begin ties the log to the per-task begin counters). PARTIAL: eventual execution (fair scheduling, Queue.get's contract) is not a theorem; it is checked by the oracle on the explored schedules only.",
    "technique": "Coq proof of invariants over all schedules of a line-granularity interleaving model + lock-step correspondence under a controlled scheduler + property oracle",
    "design_ref": "DESIGN.md 4/C09 and 'The thread-pool model shared by C09, C10, C11'",
}


class Lockstep(C.PoolStream):
    oracle_fn = staticmethod(C.oracle_c09)


class Bounded(C.BoundedStream):
    oracle_fn = staticmethod(C.oracle_c09)


from harness.props import c16 as F     # noqa: E402


class FutureOutcome(F.Main):
    """"its FutureResult then reports done and yields the very object the task returned or raises the very exception
    it raised" is the completion protocol of FutureResult / EventData (Props/C16.v) seen by the consumer of a pool
    task: every interleaving of the executor with done() / result(timeout) / result() observers on the real code,
    in lock-step with Model/Future.v, judged by the C16 oracle under this property's key."""
    name = "future-outcome"

    def jobs(self, tier):
        P = lambda b, o: {"body": b, "regs": [], "obs": list(o)}     # noqa
        out = []
        for b in F.BODIES:
            for o in (["done"], ["result_t"], ["result"]):
                out.append((P(b, o), False, 5000))
            if tier == "thorough":
                out.append((P(b, ["done", "result_t"]), False, 20000))
        return out

    def n_random(self, tier):
        return 0

    def oracle(self, case, obs):
        bad = F.Main.oracle(self, case, obs)
        return None if bad is None else ("C09:future:" + bad[0], bad[1])


def streams():
    return [Lockstep(), Bounded(), FutureOutcome()]
