"""C14 -- the message construction API emits exactly the members each version requires."""
import itertools
import json

from harness.core import pipeline, gallina as G, values as V, ser
from harness.payload_support.common import (FaultSpec, ObjSpec, val_to_json, val_from_json, jnorm, version_modelled,
                                            plain_json, g_params)

PROP_ID = "C14"
MANIFEST_ENTRY = {
    "text": ("Theorems over all methods / params / ids / versions / flags (Coq, closed under the global context) about a Gallina "
             "model of Payload.*, dump, dumps, load(s) and Fault.dump/response: closed forms of the eight message kinds, the id "
             "rule (verbatim for non-empty strings and numbers incl. 0, fresh and pairwise distinct otherwise, over any sequence "
             "of calls), every rejection, loads(dumps(x)) up to JSON normalisation; the model is checked against the real code "
             "on the exhaustive method x params x id x version x flags x config product."),
    "note": ("Modelled, not verified: CPython truthiness/isinstance/float()/str(float), uuid4 (an injective non-empty supply), "
             "the JSON backend (round-trip hypothesis), jsonclass.dump/load on plain data (= JSON normalisation / identity). "
             "Truthy ids that are neither strings nor numbers are left unconstrained (masked)."),
    "technique": "Coq proof over a hand-written executable model + differential correspondence check (vm_compute) + property oracle",
    "design_ref": "DESIGN.md 4/C14",
}
# line ranges in the repaired tree: Fault, Payload, dump, dumps/load/loads
ANCHOR_RANGES = [("jsonrpclib/jsonrpc.py", 1004, 1092), ("jsonrpclib/jsonrpc.py", 1095, 1197),
                 ("jsonrpclib/jsonrpc.py", 1202, 1277), ("jsonrpclib/jsonrpc.py", 1280, 1350)]
RULE = ("exhaustive product method {'m','a.b','',None,5} x params {[],[1],(),(1,),{},{'a':1},None,5,'s',Fault,Fault+data} x "
        "rpcid (17 values incl. 0, 0.0, -0.0, '', False, (), 2**70) x version {None,1.0,2.0,'1.0','2.0'} x methodresponse x notify "
        "{None,False,True} x config {default, 1.0, class translation off} through dump and loads(dumps()) (quick: all id x version x "
        "kind cases + a seeded sample of the rest; thorough: all), Fault.dump/response over own id x forced id x version, "
        "off-list versions, random nested JSON params, random sequences of calls (id uniqueness). "
        "Non-trivial: a message was produced or an invalid combination was rejected (not the trivial default call). Distinct by canonical hash."
        " Added after the seeded rounds: '__jsonclass__'-looking plain data under configurations with class translation off; integer versions in the oracle's domain; `reentrant` stream (oracle only): messages built from inside the serialisation hook of a bean in another message's params.")
EXHAUSTIVE = "the finite method/params/id/version/flag/config product described in `rule` (thorough tier; quick samples it)"
TRUSTED = ["modelled, not verified: CPython truthiness, isinstance, float() on the version, str(float) for 1.0/2.0/halves",
           "uuid.uuid4 modelled as an injective, never-empty supply; the harness counts uuid4 calls through a proxy installed "
           "from outside in the jsonrpc module namespace",
           "JSON backend modelled by the round-trip hypothesis (json_ok v -> dec (enc v) = norm v); jsonclass.dump/load on plain "
           "data modelled as JSON normalisation / identity"]
ASSUMPTIONS = ["versions: the five listed spellings for the oracle; other float()-able values only for the correspondence",
               "params / results are plain data (no class instances) with string dictionary keys",
               "truthy ids that are neither strings nor numbers (True, non-empty containers) are unconstrained (masked)"]

CFGS = {"default": (2.0, True), "v1": (1.0, True), "nojc": (2.0, False), "v1nojc": (1.0, False),
        "v2int": (2, True), "v1str": ("1.0", False)}
LISTED_VERSIONS = [None, 1.0, 2.0, "1.0", "2.0"]
# off-list spellings kept in the correspondence: numerically 1.0 / 2.0, falsy (-> configuration), or not float()-able.
# Versions strictly between 1.0 and 2.0 or above 2.0 are NOT generated: the statement is silent on them and harmless
# rewrites (a constant "2.0" marker, `version < 2`) would change them.
OTHER_VERSIONS = [1, 2, True, 0, "", "2", "1", [2], "abc", " 2.0"]
FLAGS = [None, False, True]
METHODS = ["m", "a.b", "", None, 5]
PARAMS = [[], [1], (), (1,), {}, {"a": 1}, None, 5, "s", FaultSpec(-32601, "nope", None), FaultSpec(5, "x", {"d": [0]})]
IDS = [None, "", "a", 0, -1, 1.5, 0.0, -0.0, True, False, [1], [], {"a": 1}, {}, 10 ** 20, (), 2 ** 70]
IDS_SMALL = [None, "", "a", 0, 0.0, 7, False]


def mk(api="dump", cfg="default", params=None, method="m", rpcid=None, version=None, resp=None, notify=None, own=None):
    return {"api": api, "cfg": cfg, "params": params, "method": method, "rpcid": rpcid, "version": version,
            "resp": resp, "notify": notify, "own": own}


def is_number(x):
    return isinstance(x, (int, float)) and not isinstance(x, bool)


def supplied(x):
    return is_number(x) or (isinstance(x, str) and x != "")


def unconstrained_id(x):
    return bool(x) and not supplied(x)


def outcome(fn):
    try:
        return ("ok", fn())
    except Exception as ex:      # noqa
        return ("raise", ex)


class Main(pipeline.Stream):
    name = "main"
    model_imports = "PayloadObs"
    case_type = "list c14_call * list (res val) * nat"
    check_fn = "c14_check"
    shard = 500

    def setup(self):
        import jsonrpclib.jsonrpc as J
        import jsonrpclib.config as C
        self.J, self.C = J, C

    # ------------------------------------------------------------------ generator
    def gen(self, tier, rng):
        cases = []

        def one(**kw):
            cases.append([mk(**kw)])

        # (1) every id x listed version x request/notification/response x config (always, both APIs)
        for rid, ver, cfg in itertools.product(IDS, LISTED_VERSIONS, ["default", "v1", "nojc"]):
            for api in ("dump", "dumpsloads"):
                one(api=api, cfg=cfg, params=[1], rpcid=rid, version=ver)
                one(api=api, cfg=cfg, params={}, rpcid=rid, version=ver, notify=True)
                one(api=api, cfg=cfg, params=(1, "r"), method=None, rpcid=rid, version=ver, resp=True)
                one(api=api, cfg=cfg, params=FaultSpec(-32000, "f", None), method=None, rpcid=rid, version=ver, resp=True)
        # (2) the full product of DESIGN 4/C14
        prod = list(itertools.product(METHODS, range(len(PARAMS)), range(len(IDS)), LISTED_VERSIONS, FLAGS, FLAGS,
                                      ["default", "v1", "nojc"]))
        if tier == "quick":
            prod = rng.sample(prod, 4000)
        for k, (m, pi, ii, ver, resp, notify, cfg) in enumerate(prod):
            one(api="dump" if k % 3 else "dumpsloads", cfg=cfg, params=PARAMS[pi], method=m, rpcid=IDS[ii], version=ver,
                resp=resp, notify=notify)
        # (2b) objects that are neither containers nor primitives as `params` of a request / notification: refused like
        # any scalar, whether or not class translation could turn them into a dict
        for kind, m, cfg, ver, notify in itertools.product(["decimal", "enum", "bean", "set"], ["m", "a.b"], ["default", "v1", "nojc"],
                                                           [None, 1.0, 2.0], [None, True]):
            one(api="dump", cfg=cfg, params=ObjSpec(kind), method=m, rpcid=4, version=ver, notify=notify)
        # (3) off-list versions and configurations (correspondence only: the statement is silent)
        for ver, cfg in itertools.product(LISTED_VERSIONS + OTHER_VERSIONS, sorted(CFGS)):
            for notify in (None, True):
                one(cfg=cfg, params=[], version=ver, rpcid=3, notify=notify)
            one(cfg=cfg, params=7, method=None, version=ver, rpcid=3, resp=True)
            one(cfg=cfg, params=FaultSpec(1, "m", 0), method=None, version=ver, rpcid="r", resp=True)
        # (4) Fault.dump / Fault.response: own id x forced id x version
        for own, rid, ver, cfg, api in itertools.product(IDS_SMALL, IDS_SMALL, LISTED_VERSIONS, ["default", "v1"],
                                                         ["fault_dump", "fault_response"]):
            for data in (None, 0, {"k": [1, None]}):
                one(api=api, cfg=cfg, params=FaultSpec(-32601, "Method not found", data), rpcid=rid, version=ver, own=own)
        # (5) loads("")
        for cfg in sorted(CFGS):
            one(api="loads_empty", cfg=cfg)
        # (5b) loads(json text) of plain values, Fault.error(), and the Payload builders called directly
        for v, cfg in itertools.product([None, 0, "", [], {}, [1, [2.5, None]], {"a": {"b": []}}, "x", True, 1e308, -0.0], ["default", "nojc"]):
            one(api="loads_text", cfg=cfg, params=v)
        # with class translation off in the configuration handed to loads()/dumps(), a "__jsonclass__" member is plain data
        for v, cfg in itertools.product([{"__jsonclass__": ["decimal.Decimal", ["1.5"]]}, {"__jsonclass__": "just a string", "value": 42},
                                         [{"__jsonclass__": ["collections.OrderedDict", []]}, 1], {"a": {"__jsonclass__": []}},
                                         {"__jsonclass__": ["", []]}, {"__jsonclass__": ["bad name", []]}], ["nojc", "v1nojc"]):
            one(api="loads_text", cfg=cfg, params=v)
            for ver in LISTED_VERSIONS:
                one(api="dumpsloads", cfg=cfg, params=[v], rpcid=1, version=ver)
                one(api="dumpsloads", cfg=cfg, params={"k": v}, rpcid=None, version=ver, notify=True)
                one(api="dumpsloads", cfg=cfg, params=v, method=None, rpcid=2, version=ver, resp=True)
                one(api="dumpsloads", cfg=cfg, params=FaultSpec(-32000, "f", v), method=None, rpcid=2, version=ver, resp=True)
        for own, data in itertools.product(IDS_SMALL, (None, 0, [1])):
            one(api="fault_error", params=FaultSpec(-32000, "Server error", data), own=own)
        direct = list(itertools.product(["p_request", "p_notify", "p_response"], ["m", None, 5],
                                        [None, [], [1], {"a": 1}, 5], IDS, LISTED_VERSIONS, ["default", "v1"]))
        if tier == "quick":
            direct = rng.sample(direct, 1000)
        for api, m, p, rid, ver, cfg in direct:
            one(api=api, cfg=cfg, method=m, params=p, rpcid=rid, version=ver)
        for rid, ver, cfg, data in itertools.product(IDS, LISTED_VERSIONS, ["default", "v1"], (None, 0, {"k": 1})):
            one(api="p_error", cfg=cfg, params=FaultSpec(-32602, "Invalid params", data), rpcid=rid, version=ver)
        # (6) random nested params / results / fault members
        n_rand = 400 if tier == "quick" else 6000
        for _ in range(n_rand):
            kind = rng.choice(["req", "req", "notify", "resp", "fault"])
            ver = rng.choice(LISTED_VERSIONS)
            cfg = rng.choice(["default", "v1", "nojc", "v1nojc"])
            api = rng.choice(["dump", "dumpsloads"])
            rid = rng.choice([None, "", 0, 0.0, 5, "id-7", -3, 2 ** 64, 0.5, False])
            if kind == "fault":
                p = FaultSpec(rng.choice([-32700, -32000, 0, 1, "E"]), rng.choice(["", "msg", "é"]),
                              V.rand_json(rng, 2, 3, leaves=V.SMALL_LEAVES))
                one(api=api, cfg=cfg, params=p, method=rng.choice([None, "m"]), rpcid=rid, version=ver, resp=rng.choice(FLAGS),
                    notify=rng.choice(FLAGS))
            elif kind == "resp":
                one(api=api, cfg=cfg, params=V.rand_json(rng, 3, 3), method=None, rpcid=rid, version=ver, resp=True)
            else:
                p = V.rand_json(rng, 3, 3)
                if not isinstance(p, (list, dict)) and rng.random() < 0.8:
                    p = [p]
                if isinstance(p, list) and rng.random() < 0.3:
                    p = tuple(p)
                one(api=api, cfg=cfg, params=p, method=rng.choice(["m", "ns.méthode", "_x"]), rpcid=rid, version=ver,
                    notify=(kind == "notify") or None)
        # (7) sequences of calls: generated ids must be pairwise distinct
        n_seq = 150 if tier == "quick" else 1500
        for _ in range(n_seq):
            seq = []
            for _ in range(rng.randint(2, 6)):
                seq.append(mk(api=rng.choice(["dump", "dumpsloads"]), cfg=rng.choice(["default", "v1", "nojc"]),
                              params=rng.choice([[], [1], {"a": 1}, None]), method=rng.choice(["m", "n"]),
                              rpcid=rng.choice([None, None, "", 0, False, [], "x", 0.0]),
                              version=rng.choice(LISTED_VERSIONS), notify=rng.choice([None, None, True])))
            cases.append(seq)
        return cases

    # ------------------------------------------------------------------ implementation
    def _config(self, name):
        if name == "default":
            return self.C.DEFAULT
        ver, jc = CFGS[name]
        return self.C.Config(version=ver, use_jsonclass=jc)

    def _params(self, p):
        if isinstance(p, FaultSpec):
            return self.J.Fault(p.code, p.msg, data=p.data)
        if isinstance(p, ObjSpec):
            return p.build()
        return p

    def run_impl(self, case):
        J = self.J
        real_uuid = J.uuid
        log = []

        class UuidProxy(object):
            def uuid4(self_inner):
                u = real_uuid.uuid4()
                log.append(u)
                return u

            def __getattr__(self_inner, name):
                return getattr(real_uuid, name)

        outs, raws, texts = [], [], []
        J.uuid = UuidProxy()
        try:
            for c in case:
                cfg = self._config(c["cfg"])
                before = len(log)
                text = [None]
                api = c["api"]
                if api == "dump":
                    o = outcome(lambda: J.dump(self._params(c["params"]), c["method"], c["rpcid"], c["version"], c["resp"],
                                               c["notify"], cfg))
                elif api == "dumpsloads":
                    def f():
                        text[0] = J.dumps(self._params(c["params"]), c["method"], methodresponse=c["resp"], rpcid=c["rpcid"],
                                          version=c["version"], notify=c["notify"], config=cfg)
                        return J.loads(text[0], cfg)
                    o = outcome(f)
                elif api == "fault_dump":
                    p = c["params"]
                    o = outcome(lambda: J.Fault(p.code, p.msg, rpcid=c["own"], config=cfg, data=p.data).dump(c["rpcid"], c["version"]))
                elif api == "fault_response":
                    p = c["params"]

                    def f():
                        text[0] = J.Fault(p.code, p.msg, rpcid=c["own"], config=cfg, data=p.data).response(c["rpcid"], c["version"])
                        return json.loads(text[0])
                    o = outcome(f)
                elif api == "loads_text":
                    o = outcome(lambda: J.loads(json.dumps(c["params"]), cfg))
                elif api == "fault_error":
                    p = c["params"]
                    o = outcome(lambda: J.Fault(p.code, p.msg, rpcid=c["own"], config=cfg, data=p.data).error())
                elif api.startswith("p_"):
                    def f():
                        pl = J.Payload(rpcid=c["rpcid"], version=c["version"], config=cfg)
                        if api == "p_request":
                            return pl.request(c["method"], c["params"])
                        if api == "p_notify":
                            return pl.notify(c["method"], c["params"])
                        if api == "p_response":
                            return pl.response(c["params"])
                        return pl.error(c["params"].code, c["params"].msg, c["params"].data)
                    o = outcome(f)
                else:
                    o = outcome(lambda: J.loads("", cfg))
                raws.append(o)
                texts.append(text[0])
                # canonical form: a generated id becomes the marker of its index
                if o[0] == "ok" and isinstance(o[1], dict) and isinstance(o[1].get("id"), str):
                    for k in range(before, len(log)):
                        if o[1]["id"] in (str(log[k]), log[k].hex):
                            o = ("ok", dict(o[1], id="\x00FRESH%d" % k))
                outs.append(o)
        finally:
            J.uuid = real_uuid
        return {"outs": outs, "raw": raws, "n": len(log), "texts": texts}

    # ------------------------------------------------------------------ oracle (from the statement)
    def masked(self, case, obs):
        return any(unconstrained_id(c["rpcid"]) or unconstrained_id(c["own"]) for c in case)

    def _version(self, c):
        """1 or 2 for the listed versions under a 1.0 / 2.0 configuration, else None (statement silent)"""
        if c["cfg"] not in ("default", "v1", "nojc", "v1nojc", "v2int"):
            return None
        # the integers 1 and 2 select 1.0 and 2.0 like the floats they equal (Config(version=2), dump(..., version=2))
        if not any(V.same(c["version"], v) for v in LISTED_VERSIONS + [1, 2]):
            return None
        v = c["version"] if c["version"] else CFGS[c["cfg"]][0]
        return 2 if float(v) >= 2 else 1

    def oracle(self, case, obs):
        seen = []
        for c, o in zip(case, obs["raw"]):
            bad = self._oracle_call(c, o, seen)
            if bad:
                return bad
            if o[0] == "ok" and isinstance(o[1], dict) and "id" in o[1] and not c["resp"] and not isinstance(c["params"], FaultSpec):
                if not supplied(c["rpcid"]):
                    seen.append(o[1]["id"])
        for c, o, t in zip(case, obs["raw"], obs["texts"]):
            if c["api"] == "dumpsloads" and o[0] == "ok" and t is not None:
                if not V.same(o[1], json.loads(t)):
                    return ("C14:roundtrip", "loads(dumps(..)) = %r differs from the structure in the text %r" % (o[1], t))
        return None

    def _oracle_call(self, c, o, seen):
        api = c["api"]
        if api == "loads_empty":
            if o != ("ok", None):
                return ("C14:loads-empty", 'loads("") gave %r' % (o,))
            return None
        if api == "loads_text":
            if o[0] != "ok" or not V.same(o[1], jnorm(c["params"])):
                return ("C14:roundtrip", "loads(text of %r) gave %r" % (c["params"], o))
            return None
        if api == "fault_error":
            f = c["params"]
            if o[0] != "ok" or not V.same(o[1], {"code": f.code, "message": f.msg, "data": f.data}):
                return ("C14:error-members", "Fault.error() of %r gave %r" % (f, o))
            return None
        if api.startswith("p_"):
            return None         # the statement speaks about dump/dumps; the builders are compared with the model only
        ver = self._version(c)
        if ver is None or c["resp"] not in FLAGS or c["notify"] not in FLAGS:
            return None
        p, m, rid = c["params"], c["method"], c["rpcid"]
        through_json = api in ("dumpsloads", "fault_response")

        def eq(a, b):      # same structure up to JSON normalisation
            return V.same(jnorm(a), jnorm(b))

        def must_raise(key, what):
            if o[0] != "raise":
                return (key, "%s but a message was emitted: %r" % (what, o[1]))
            if not isinstance(o[1], (TypeError, ValueError)):
                return (key + "-wrong-exception", "%s raised %s" % (what, type(o[1]).__name__))
            return None

        def check_error(msg, f):
            e = msg.get("error")
            if not isinstance(e, dict):
                return ("C14:error-members", "no error object in %r" % (msg,))
            want = {"code", "message"} | ({"data"} if f.data is not None else set())
            if set(e) != want or not eq(e["code"], f.code) or not eq(e["message"], f.msg) or (f.data is not None and not eq(e["data"], f.data)):
                return ("C14:error-members", "Fault %r gave error %r" % (f, e))
            want_keys = {"jsonrpc", "id", "error"} if ver == 2 else {"result", "id", "error"}
            if set(msg) != want_keys or (ver == 2 and msg["jsonrpc"] != "2.0") or (ver == 1 and msg["result"] is not None):
                return ("C14:error-envelope", "error response %r for version %s" % (msg, ver))
            return None

        if api in ("fault_dump", "fault_response"):
            if o[0] != "ok" or not isinstance(o[1], dict):
                return ("C14:unexpected-exception", "Fault.%s raised %r" % (api, o[1]))
            return check_error(o[1], p)

        if isinstance(p, FaultSpec):
            if o[0] != "ok" or not isinstance(o[1], dict):
                return ("C14:unexpected-exception", "dump(Fault) raised %r" % (o[1],))
            return check_error(o[1], p)
        scalar = p is not None and not isinstance(p, (list, tuple, dict))
        if c["resp"]:
            if isinstance(m, str) and scalar:
                return must_raise("C14:invalid-combination-emitted", "non-container params %r with method %r" % (p, m))
            if rid is None:
                return must_raise("C14:response-without-id-emitted", "response without id")
            if o[0] != "ok":
                return ("C14:unexpected-exception", "valid response raised %r" % (o[1],))
            msg = o[1]
            want_keys = {"jsonrpc", "result", "id"} if ver == 2 else {"result", "error", "id"}
            if set(msg) != want_keys or (ver == 2 and msg["jsonrpc"] != "2.0") or (ver == 1 and msg["error"] is not None):
                return ("C14:response-members", "response %r for version %s" % (msg, ver))
            if not eq(msg["result"], p):
                return ("C14:response-result", "result %r came out as %r" % (p, msg["result"]))
            if not (eq(msg["id"], rid) if through_json else V.same(msg["id"], rid)):
                return ("C14:id-not-verbatim", "response id %r came out as %r" % (rid, msg["id"]))
            return None
        # request or notification
        if not isinstance(m, str):
            return must_raise("C14:invalid-combination-emitted", "non-string method %r for a request" % (m,))
        if scalar:
            return must_raise("C14:invalid-combination-emitted", "non-container params %r with method %r" % (p, m))
        if o[0] != "ok":
            return ("C14:unexpected-exception", "valid request raised %r" % (o[1],))
        msg = o[1]
        nonempty = bool(p)
        if ver == 2:
            want_keys = {"jsonrpc", "method"} | ({"params"} if nonempty else set()) | (set() if c["notify"] else {"id"})
        else:
            want_keys = {"method", "id", "params"}
        if set(msg) != want_keys:
            key = "C14:notification-has-id" if (c["notify"] and ver == 2 and "id" in msg) else "C14:request-members-v%d" % ver
            return (key, "members %r, required %r (params %r, notify %r)" % (sorted(msg), sorted(want_keys), p, c["notify"]))
        if ver == 2 and msg["jsonrpc"] != "2.0":
            return ("C14:request-members-v2", "jsonrpc member is %r" % (msg["jsonrpc"],))
        if not V.same(msg["method"], m):
            return ("C14:request-members-v%d" % ver, "method %r came out as %r" % (m, msg["method"]))
        if "params" in msg:
            if nonempty and not eq(msg["params"], p):
                return ("C14:request-params", "params %r came out as %r" % (p, msg["params"]))
            if not nonempty and (msg["params"] or not isinstance(msg["params"], (list, tuple, dict))):
                return ("C14:request-params", "empty params came out as %r" % (msg["params"],))
        if c["notify"]:
            if ver == 1 and msg["id"] is not None:
                return ("C14:notification-v1-id-not-null", "1.0 notification id is %r" % (msg["id"],))
            return None
        got = msg["id"]
        if supplied(rid):
            if not V.same(got, rid):
                return ("C14:id-not-verbatim", "supplied id %r (%s) came out as %r" % (rid, type(rid).__name__, got))
        elif not rid:
            if not isinstance(got, str) or got == "":
                return ("C14:id-not-generated", "no usable id for rpcid %r: %r" % (rid, got))
            if any(V.same(got, s) for s in seen):
                return ("C14:generated-ids-collide", "generated id %r was already used by an earlier call" % (got,))
        return None

    # ------------------------------------------------------------------ encoding for Coq
    def encode(self, case, obs):
        terms = []
        for c in case:
            cv, jc = CFGS[c["cfg"]]
            if not version_modelled(c["version"]) or not version_modelled(cv):
                return None
            p = c["params"]
            vals = [p.code, p.msg, p.data] if isinstance(p, FaultSpec) else [p]
            if not all(plain_json(x) for x in vals + [c["method"], c["rpcid"], c["own"]]):
                return None
            api = {"dump": "ADump", "dumpsloads": "ADumpsLoads", "loads_empty": "ALoadsEmpty",
                   "p_request": "(APayload PKRequest)", "p_notify": "(APayload PKNotify)",
                   "p_response": "(APayload PKResponse)", "p_error": "(APayload PKError)"}.get(c["api"])
            if c["api"] == "loads_text":
                api = "(ALoadsText %s)" % G.g_val(p)
            elif api is None:
                api = "(%s %s)" % ({"fault_dump": "AFaultDump", "fault_response": "AFaultResponse",
                                    "fault_error": "AFaultError"}[c["api"]], G.g_val(c["own"]))
            terms.append("(C14Call %s %s (mkPcfg %s %s) %s %s %s %s %s %s)" % (
                api, G.g_val(self.C.DEFAULT.version), G.g_val(cv), G.g_bool(jc), g_params(p), G.g_val(c["method"]),
                G.g_val(c["rpcid"]), G.g_val(c["version"]), G.g_val(c["resp"]), G.g_val(c["notify"])))
        try:
            outs = G.g_list([G.g_res(o) for o in obs["outs"]])
        except (TypeError, ValueError):
            return None
        return "(%s, %s, %d%%nat)" % (G.g_list(terms), outs, obs["n"])

    # ------------------------------------------------------------------ bookkeeping
    def nontrivial(self, case, obs):
        return any(not (c["rpcid"] is None and c["version"] is None and c["cfg"] == "default" and c["params"] == []) for c in case)

    def kind(self, case, obs):
        if len(case) > 1:
            return "sequence of %d calls" % len(case)
        c, o = case[0], obs["raw"][0]
        if c["api"] in ("fault_dump", "fault_response", "fault_error", "loads_empty", "loads_text") or c["api"].startswith("p_"):
            k = c["api"]
        elif isinstance(c["params"], FaultSpec):
            k = "error"
        elif c["resp"]:
            k = "response"
        elif c["notify"]:
            k = "notification"
        else:
            k = "request"
        rid = c["rpcid"]
        idk = "supplied" if supplied(rid) else ("unconstrained" if unconstrained_id(rid) else "to-generate")
        listed = "listed" if self._version(c) else "off-list"
        return "%s / %s / id %s / version %s / -> %s" % (c["api"], k, idk, listed,
                                                        "message" if o[0] == "ok" else type(o[1]).__name__)

    def describe(self, case, obs):
        return {"calls": self.to_replay(case),
                "outcome": [repr(o[1]) if o[0] == "ok" else "%s%r" % (type(o[1]).__name__, o[1].args) for o in obs["raw"]],
                "ids_generated": obs["n"]}

    def to_replay(self, case):
        return [{k: val_to_json(v) for k, v in c.items()} for c in case]

    def from_replay(self, j):
        return [{k: val_from_json(v) for k, v in c.items()} for c in j]

    def shrink(self, case):
        if len(case) > 1:
            for i in range(len(case)):
                yield case[:i] + case[i + 1:]
        for i, c in enumerate(case):
            base = mk(api=c["api"], own=c["own"] if c["api"].startswith("fault") else None,
                      params=c["params"] if c["api"].startswith("fault") else [])
            for k in ("cfg", "params", "method", "version", "resp", "notify", "rpcid", "own"):
                if not V.same(c[k], base[k]) and not isinstance(c[k], FaultSpec):
                    yield case[:i] + [dict(c, **{k: base[k]})] + case[i + 1:]
            if c["api"] == "dumpsloads":
                yield case[:i] + [dict(c, api="dump")] + case[i + 1:]


class Reentrant(pipeline.Stream):
    """oracle only (the model's params are plain data): building a message runs user code -- the class translator calls the
    serialisation method of a bean in the params -- and that code may itself build another message (log it, forward it).  Each
    message still carries its own id, method and params: nothing of a message is kept in shared state while it is built.  No
    thread is involved."""
    name = "reentrant"
    model_imports = "PayloadObs"
    case_type = "unit"
    check_fn = "(fun _ => true)"

    def setup(self):
        import jsonrpclib.jsonrpc as J
        import jsonrpclib.config as C
        self.J, self.C = J, C

    def gen(self, tier, rng):
        cases = []
        for ver, outer_id, inner_id, depth in itertools.product([1.0, 2.0], ["outer-id", 0, None], ["inner-id", 7, None], [1, 2]):
            for kind in ("request", "notify", "response"):
                cases.append({"ver": ver, "outer": outer_id, "inner": inner_id, "depth": depth, "kind": kind})
        return cases

    def run_impl(self, case):
        J = self.J
        cfg = self.C.Config(version=case["ver"])
        inner_texts = []

        class Hook(object):
            def __init__(self, level):
                self.level = level

            def _serialize(self):
                # user code run by the translator: builds another message of the same version
                p = [Hook(self.level + 1)] if self.level < case["depth"] else [self.level]
                inner_texts.append(J.dumps(p, "inner%d" % self.level, rpcid=case["inner"], version=case["ver"], config=cfg))
                return [self.level], {}

        def build():
            if case["kind"] == "response":
                return J.dumps(Hook(1), methodresponse=True, rpcid=case["outer"] if case["outer"] is not None else "r", version=case["ver"], config=cfg)
            return J.dumps([Hook(1), "tail"], "outer", rpcid=case["outer"], version=case["ver"], config=cfg,
                           notify=True if case["kind"] == "notify" else None)
        try:
            text = build()
            return {"ok": True, "outer": json.loads(text), "inner": [json.loads(t) for t in inner_texts]}
        except Exception as ex:       # noqa
            return {"ok": False, "error": "%s: %s" % (type(ex).__name__, ex)}

    def oracle(self, case, obs):
        if not obs["ok"]:
            return ("C14:reentrant-dump-raised", obs["error"])
        o = obs["outer"]
        msgs = [("outer", o)] + [("inner", m) for m in obs["inner"]]
        if case["kind"] == "response":
            want = case["outer"] if case["outer"] is not None else "r"
            if o.get("id") != want or "result" not in o:
                return ("C14:response-id", "response built while another message was built inside its result: %r, id given %r" % (o, want))
        elif case["kind"] == "notify":
            if o.get("method") != "outer" or ("id" in o and o["id"] is not None):
                return ("C14:notification-has-id", "notification %r" % (o,))
        else:
            if o.get("method") != "outer":
                return ("C14:request-method", "outer request %r" % (o,))
            if case["outer"] is not None and o.get("id") != case["outer"]:
                return ("C14:supplied-id-not-used", "outer request built with rpcid=%r came out as %r (inner messages were built with rpcid=%r "
                        "while its params were converted)" % (case["outer"], o, case["inner"]))
        for m in obs["inner"]:
            if case["inner"] is not None and m.get("id") != case["inner"]:
                return ("C14:supplied-id-not-used", "inner request built with rpcid=%r came out as %r" % (case["inner"], m))
        gen_ids = [m.get("id") for (w, m) in msgs if "method" in m and m.get("id") is not None and
                   ((w == "outer" and case["outer"] is None and case["kind"] == "request") or (w == "inner" and case["inner"] is None))]
        if len(set(map(str, gen_ids))) != len(gen_ids):
            return ("C14:generated-id-not-fresh", "generated ids of messages built inside one another: %r" % (gen_ids,))
        return None

    def encode(self, case, obs):
        return None

    def nontrivial(self, case, obs):
        return True

    def kind(self, case, obs):
        return "reentrant / v%s / %s / depth %d" % (case["ver"], case["kind"], case["depth"])

    def describe(self, case, obs):
        return {"case": case, "observed": obs}

    def to_replay(self, case):
        return dict(case)

    def from_replay(self, j):
        return dict(j)


def streams():
    return [Main(), Reentrant()]
