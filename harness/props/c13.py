"""C13 -- replies depend only on the request and the server's version; serving never writes a configuration;
Config.copy() yields an independent configuration."""
import itertools
import json
import sys
import threading

from harness.core import pipeline, ser
from harness.dispatch_support import core as K, gen as GN, stream as S, config_support as CS

PROP_ID = "C13"
MANIFEST_ENTRY = {
    "text": ("Theorems (Coq, closed under the global context) about a Gallina model in which Config objects and their two "
             "tables live on a heap and every write is logged: for all heaps, histories and requests the reply computed over "
             "the heap equals the pure dispatcher's reply for the server's version (hence is history-free and has the form "
             "the statement prescribes); every write of serving goes to an object allocated during that request, so the "
             "server Config and DEFAULT keep their snapshot after every prefix of writes; for all operation sequences a "
             "copy and its original do not affect each other; for all schedules of k handler threads the replies are the "
             "sequential ones and no step writes the server Config or DEFAULT. The model is checked against the real "
             "dispatcher (replies, snapshot-unchanged flags after each request) and the real Config (snapshots of original and "
             "copy after every operation) on every run."),
    "note": ("The interleaving theorem is about the model (one step per source line of _marshaled_single_dispatch that touches "
             "a Config; Config.copy() is one step); the `linesched` stream ties it to the code: handler threads of one real "
             "dispatcher are interleaved at exactly those source lines under the controlled scheduler (statement-text table, "
             "fail-closed), EVERY interleaving of two threads for the listed request pairs plus random schedules of three, and "
             "the model's run_sched on the executed schedule must give the same replies and snapshot flags; the real-thread "
             "stream additionally samples OS schedules (oracle only). Callables returning a Fault object built by user code are "
             "part of the model (ReturnFault). JSON parsing, the class translator, jsonclass.dump of results and json.dumps are modelled "
             "components (as in C02-C05); server version in {1.0, 2.0}; the generated default user agent is one opaque value."),
    "technique": "Coq proof over a hand-written executable heap model + differential correspondence check (vm_compute) + property oracle",
    "design_ref": "DESIGN.md 4/C13",
}
ANCHOR_RANGES = [("jsonrpclib/SimpleJSONRPCServer.py", 112, 185), ("jsonrpclib/SimpleJSONRPCServer.py", 222, 400),
                 ("jsonrpclib/config.py", 58, 154), ("jsonrpclib/jsonrpc.py", 1045, 1086), ("jsonrpclib/jsonrpc.py", 1195, 1262)]
RULE = ("history: sequences of <= 6 request bodies over %d kinds (1.0-form / 2.0-form x call, failing call, unknown method, "
        "notification, invalid; non-object, no version marker, empty array, kwargs call, bad arity, three batches mixing them, unparsable text, "
        "empty body): all sequences of length <= 2 (quick) / <= 3 (thorough), longer ones random, x (own Config 1.0, own Config "
        "2.0, DEFAULT as server config) x 3 dispatch kinds, non-default contents in both tables; snapshot of server Config and "
        "DEFAULT (6 attributes, identity and contents of classes / serialize_handlers) and list of attribute / table writes "
        "after each request. config: every single operation (original = a fresh Config, a copy, a copy of a copy) and every pair of the 10 operations on copy / original, random "
        "sequences of <= 8 operations (before and after copy()), snapshots of both objects after each. threads: 2-4 real "
        "threads x 3 rounds on one dispatcher. linesched: 2 handler threads, all interleavings at the Config-touching lines for "
        "4 (quick) / 8 (thorough) request pairs x {own Config 2.0, DEFAULT}; 3 threads, random schedules. Non-trivial: history exercising the compatibility copy or of length >= 2; "
        "config case with >= 1 operation. Distinct by case hash." % len(CS.KINDS) +
        " Added after the seeded rounds: hosts (dispatcher, SimpleJSONRPCServer, PooledJSONRPCServer, CGI handler objects) in the history stream; request kinds with odd jsonrpc members; `overlap` stream (C04's, with the reply-form and Config-unchanged clauses).")
TRUSTED = ["modelled, not verified: json.loads / class translation of the bodies (model input: outcome of jsonrpclib.loads), "
           "jsonclass.dump of results, json.dumps, CPython argument binding",
           "snapshot / write-watching helpers (harness/dispatch_support/config_support.py): a Config subclass and dict subclasses "
           "recording mutations, DEFAULT watched through a temporary __class__ swap",
           "real-thread runs sample OS schedules only; the all-schedules claim is the model-level theorem"]
ASSUMPTIONS = ["server Config.version in {1.0, 2.0}", "callables as in C02-C05 (JSON results, ordinary exceptions, failing conversion)",
               "table keys are strings, attribute values JSON values (config stream)"]

EXHAUSTIVE = ("linesched stream: every interleaving of two handler threads at the granularity of Model/Config.v's thread program "
              "(test / copy / setver / keep / call / reply lines of _marshaled_single_dispatch) for the request pairs listed in "
              "LineSched.gen; history stream: all sequences of length <= 2 (quick) / 3 (thorough) over the body kinds")
DKINDS = ["default", "instance-dispatch-attrerror", "custom-raises"]
CONFIGS = [(True, 1.0), (True, 2.0), (False, 2.0)]          # (own Config?, version)


HOSTS = ["dispatcher", "pooled", "simple", "cgi"]


def _dcase(case):
    d = GN.base_case(case["ver"], case["dkind"], jsonclass=case["jsonclass"])
    d["host"] = case.get("host")
    return d


# ====================================================================== history

class History(pipeline.Stream):
    name = "history"
    model_imports = "Dispatch Config"
    case_type = "hcase"
    check_fn = "c13_check"
    shard = 150

    def setup(self):
        import jsonrpclib
        self.J = jsonrpclib
        self._baseline = {}

    def make(self, own, ver, dkind, kinds, jsonclass=True, host=None):
        return {"own": own, "ver": ver, "jsonclass": jsonclass, "dkind": dkind, "kinds": list(kinds), "host": host,
                "bodies": [CS.body_of(k) for k in kinds],
                "classes": CS.SERVER_TABLES[0], "handlers": CS.SERVER_TABLES[1]}

    def gen(self, tier, rng):
        cases = []
        maxlen = 2 if tier == "quick" else 3
        n = 0
        for ln in range(1, maxlen + 1):
            for ks in itertools.product(CS.KINDS, repeat=ln):
                for (own, ver) in CONFIGS:
                    cases.append(self.make(own, ver, DKINDS[n % len(DKINDS)], ks, host=HOSTS[(n // len(DKINDS)) % len(HOSTS)]))
                    n += 1
        for _ in range(300 if tier == "quick" else 4000):
            own, ver = rng.choice(CONFIGS)
            ks = [rng.choice(CS.KINDS) for _ in range(rng.randint(maxlen + 1, 6))]
            cases.append(self.make(own, ver, rng.choice(DKINDS), ks, jsonclass=(not own) or rng.random() < 0.8, host=rng.choice(HOSTS)))
        return cases

    # ---- implementation
    def _run_sequence(self, case, bodies):
        sc = CS.ServerConfig(case["own"], case["ver"], case["jsonclass"], case["classes"], case["handlers"])
        steps = []
        try:
            rt = K.Runtime(_dcase(case), config=sc.server)
            try:
                for body in bodies:
                    n0 = (len(sc.rec_server.writes), len(sc.rec_default.writes))
                    sc.arm(True)
                    try:
                        o = rt.run(body)
                    finally:
                        sc.arm(False)
                    sd, dd = sc.flags()
                    o["server_diff"], o["default_diff"] = sd, dd
                    o["server_writes"] = list(sc.rec_server.writes[n0[0]:])
                    o["default_writes"] = list(sc.rec_default.writes[n0[1]:])
                    o["po"] = K.parse_outcome(self.J, body, rt.config)
                    steps.append(o)
            finally:
                rt.close()
        finally:
            sc.restore()
        return steps

    def baseline(self, case, body):
        """the reply to `body` from a fresh, identically configured dispatcher without history"""
        key = json.dumps([case["own"], case["ver"], case["jsonclass"], case["dkind"], case.get("host"), body])
        if key not in self._baseline:
            self._baseline[key] = CS.reply_skeleton(self._run_sequence(case, [body])[0])
        return self._baseline[key]

    def run_impl(self, case):
        base = [self.baseline(case, b) for b in case["bodies"]]
        return {"steps": self._run_sequence(case, case["bodies"]), "baseline": base}

    # ---- oracle (from the statement)
    def _expected_form(self, case, entry):
        own_form = "2.0" if case["ver"] >= 2 else "1.0"
        if S.is_wellformed_request(entry):
            return own_form if "jsonrpc" in entry else "1.0"
        return own_form

    def oracle(self, case, obs):
        own_form = "2.0" if case["ver"] >= 2 else "1.0"
        for i, (body, step) in enumerate(zip(case["bodies"], obs["steps"])):
            where = "request %d (%s)" % (i, case["kinds"][i])
            # (b) no configuration is written, not even temporarily
            if step["server_diff"] is not None:
                return ("C13:server-config-changed", "%s: server Config.%s differs from its initial snapshot" % (where, step["server_diff"]))
            if step["default_diff"] is not None:
                return ("C13:default-config-changed", "%s: config.DEFAULT.%s differs from its initial snapshot" % (where, step["default_diff"]))
            if step["server_writes"]:
                return ("C13:server-config-written", "%s: writes to the server Config while serving: %s" % (where, step["server_writes"][:5]))
            if step["default_writes"]:
                return ("C13:default-config-written", "%s: writes to config.DEFAULT while serving: %s" % (where, step["default_writes"][:5]))
            sk = CS.reply_skeleton(step)
            # (a) history-free: the same reply as on a fresh dispatcher
            if sk != obs["baseline"][i]:
                return ("C13:reply-depends-on-history", "%s: reply %r, the same body on a fresh dispatcher gets %r" % (
                    where, sk, obs["baseline"][i]))
            # (a) form of each reply object vs. its own entry
            if sk[0] in ("raised", "notjson", "empty"):
                continue
            try:
                req = json.loads(body)
            except ValueError:
                req = None
                parsed = False
            else:
                parsed = True
            objs = sk[1] if sk[0] == "many" else [sk[1]]
            if not parsed or not req or not isinstance(req, (list, dict)):
                expected = [own_form] * len(objs)        # unparsable / falsy / non-object: the server's own form
            else:
                entries = req if isinstance(req, list) else [req]
                answered = [e for e in entries if not S.is_notification(e)]
                if len(answered) != len(objs):
                    continue                             # pairing is C03's business
                expected = [self._expected_form(case, e) for e in answered]
            for pos, (o, exp) in enumerate(zip(objs, expected)):
                got = CS.form_of(o)
                if got != exp:
                    return ("C13:reply-form", "%s: reply object %d has form %s, expected %s: %r" % (where, pos, got, exp, o))
        return None

    def encode(self, case, obs):
        try:
            return CS.g_hcase(case, _dcase(case), obs)
        except (ValueError, TypeError):
            return None

    # ---- bookkeeping
    def nontrivial(self, case, obs):
        return len(case["bodies"]) >= 2 or (case["ver"] >= 2 and any(k.endswith("1.0") for k in case["kinds"]))

    def kind(self, case, obs):
        n = len(case["bodies"])
        return "len%s / %s v%s / %s / hosted by %s" % (n if n <= 3 else ">3", "own" if case["own"] else "DEFAULT", case["ver"], case["dkind"],
                                                       case.get("host") or "dispatcher")

    def describe(self, case, obs):
        return {"server_config": "own Config" if case["own"] else "jsonrpclib.config.DEFAULT", "server_version": case["ver"],
                "host": case.get("host") or "dispatcher", "use_jsonclass": case["jsonclass"], "dispatch": case["dkind"], "kinds": case["kinds"], "bodies": case["bodies"],
                "replies": [None if s["raised"] is not None else s["text"] for s in obs["steps"]],
                "raised": [None if s["raised"] is None else type(s["raised"]).__name__ for s in obs["steps"]],
                "server_snapshot_diff": [s["server_diff"] for s in obs["steps"]],
                "default_snapshot_diff": [s["default_diff"] for s in obs["steps"]],
                "server_writes": [s["server_writes"] for s in obs["steps"]],
                "default_writes": [s["default_writes"] for s in obs["steps"]]}

    def shrink(self, case):
        n = len(case["bodies"])
        for i in range(n):
            if n > 1:
                yield dict(case, bodies=case["bodies"][:i] + case["bodies"][i + 1:], kinds=case["kinds"][:i] + case["kinds"][i + 1:])
        for i, b in enumerate(case["bodies"]):
            try:
                v = json.loads(b)
            except ValueError:
                continue
            if isinstance(v, list) and len(v) > 1:
                for j in range(len(v)):
                    nb = list(case["bodies"])
                    nb[i] = json.dumps(v[:j] + v[j + 1:])
                    yield dict(case, bodies=nb)
        if case["dkind"] != "default":
            yield dict(case, dkind="default")


# ====================================================================== config

def _delta(before, after):
    return "; ".join("%s: %r -> %r" % (k, before[k], after[k]) for k in before if before[k] != after[k])


class ConfigOps(pipeline.Stream):
    name = "config"
    model_imports = "Dispatch Config"
    case_type = "ccase"
    check_fn = "c13_cfg_check"
    shard = 250

    def setup(self):
        import jsonrpclib.config as C
        self.C = C
        self.gen_ua = CS.default_user_agent()

    def make(self, fields, pre, ops, depth=0):
        return {"fields": list(fields), "classes": CS.SERVER_TABLES[0], "handlers": CS.SERVER_TABLES[1], "depth": depth,
                "pre": [list(o) for o in pre], "ops": [[bool(b), list(o)] for b, o in ops]}

    def gen(self, tier, rng):
        base = [2.0, "application/json-rpc", "agent/1", True, "_serialize", "_ignore"]
        cases = [self.make(base, [], [])]
        fixed = CS.fixed_ops()
        both = [(b, o) for b in (True, False) for o in fixed]
        for x in both:
            for depth in (0, 1, 2):          # the original may itself be a copy (of a copy)
                cases.append(self.make(base, [], [x], depth))
        for x, y in itertools.product(both, repeat=2):
            cases.append(self.make(base, [], [x, y]))
        # a user agent that is None when copy() runs; attributes of every type
        for ua in (None, "", 0):
            cases.append(self.make(base, [["SetUserAgent", ua]], [(True, ["SetUserAgent", "z"]), (False, ["SetVersion", 1])]))
        for _ in range(400 if tier == "quick" else 6000):
            fields = [rng.choice([1.0, 2.0, 1, 2]), rng.choice(CS.VALUES), rng.choice(CS.VALUES), rng.choice([True, False, 0, 1, None]),
                      rng.choice(CS.VALUES), rng.choice(CS.VALUES)]
            pre = [CS.random_op(rng) for _ in range(rng.randint(0, 3))]
            ops = [(rng.random() < 0.5, CS.random_op(rng)) for _ in range(rng.randint(1, 8))]
            cases.append(self.make(fields, pre, ops, rng.choice([0, 0, 1, 2])))
        return cases

    def _observe(self, cfg, ids):
        return {"fields": [CS.norm_ua(v, self.gen_ua) if f == "user_agent" else v
                           for f, v in zip(CS.FIELDS, (getattr(cfg, f) for f in CS.FIELDS))],
                "same_classes": id(cfg.classes) == ids[0], "same_handlers": id(cfg.serialize_handlers) == ids[1],
                "classes": [list(kv) for kv in cfg.classes.items()], "handlers": [list(kv) for kv in cfg.serialize_handlers.items()]}

    def run_impl(self, case):
        C = self.C
        a = C.Config()
        for f, v in zip(CS.FIELDS, case["fields"]):
            setattr(a, f, v)
        for k, v in case["classes"]:
            a.classes[k] = v
        for k, v in case["handlers"]:
            a.serialize_handlers[k] = v
        for _ in range(case.get("depth", 0)):
            a = a.copy()
        for o in case["pre"]:
            CS.apply_op(a, o)
        b = a.copy()
        ida = (id(a.classes), id(a.serialize_handlers))
        idb = (id(b.classes), id(b.serialize_handlers))
        shared = {"classes": b.classes is a.classes, "handlers": b.serialize_handlers is a.serialize_handlers, "object": b is a}
        steps = [(self._observe(a, ida), self._observe(b, idb))]
        for on_copy, o in case["ops"]:
            CS.apply_op(b if on_copy else a, o)
            steps.append((self._observe(a, ida), self._observe(b, idb)))
        return {"steps": steps, "shared": shared}

    def oracle(self, case, obs):
        a0, b0 = obs["steps"][0]
        # a copy: the same attributes (a missing user agent is generated) and the same table contents
        for f, x, y in zip(CS.FIELDS, a0["fields"], b0["fields"]):
            if f == "user_agent" and x is None:
                continue
            if not CS._same_val(x, y):
                return ("C13:copy-differs:" + f, "right after copy(): original.%s = %r, copy.%s = %r" % (f, x, f, y))
        for t in ("classes", "handlers"):
            if a0[t] != b0[t]:
                return ("C13:copy-differs:" + t, "right after copy(): original %s %r, copy %r" % (t, a0[t], b0[t]))
        # modifying one leaves the other untouched
        for i, (on_copy, o) in enumerate(case["ops"]):
            pa, pb = obs["steps"][i]
            na, nb = obs["steps"][i + 1]
            if on_copy and na != pa:
                return ("C13:original-changed-by-copy:" + o[0], "op %d %r on the copy changed the original: %s" % (i, o, _delta(pa, na)))
            if not on_copy and nb != pb:
                return ("C13:copy-changed-by-original:" + o[0], "op %d %r on the original changed the copy: %s" % (i, o, _delta(pb, nb)))
        return None

    def encode(self, case, obs):
        try:
            return CS.g_ccase(case, obs)
        except (ValueError, TypeError):
            return None

    def nontrivial(self, case, obs):
        return len(case["ops"]) >= 1

    def kind(self, case, obs):
        n = len(case["ops"])
        return "ops=%s%s depth=%d" % (n if n <= 2 else ">2", " pre" if case["pre"] else "", case.get("depth", 0))

    def describe(self, case, obs):
        return {"fields": ser.to_json(case["fields"]), "copies_before": case.get("depth", 0), "pre": case["pre"], "ops": case["ops"],
                "shared": obs["shared"],
                "steps": ser.to_json([[a, b] for a, b in obs["steps"]])}

    def shrink(self, case):
        for i in range(len(case["ops"])):
            yield dict(case, ops=case["ops"][:i] + case["ops"][i + 1:])
        for i in range(len(case["pre"])):
            yield dict(case, pre=case["pre"][:i] + case["pre"][i + 1:])
        if case.get("depth", 0):
            yield dict(case, depth=case["depth"] - 1)


# ====================================================================== real threads (oracle only)

class Threads(pipeline.Stream):
    name = "threads"
    ROUNDS = 3

    def setup(self):
        import jsonrpclib
        self.J = jsonrpclib

    def gen(self, tier, rng):
        cases = []
        calls = [k for k in CS.KINDS]
        for _ in range(40 if tier == "quick" else 400):
            own, ver = rng.choice(CONFIGS)
            ks = [rng.choice(calls) for _ in range(rng.randint(2, 4))]
            if not any(k.endswith("1.0") for k in ks):
                ks[0] = rng.choice(["call-1.0", "failing-1.0", "batch-1.0", "batch-mixed"])
            cases.append({"own": own, "ver": ver, "jsonclass": True, "dkind": rng.choice(DKINDS), "kinds": ks,
                          "bodies": [CS.body_of(k) for k in ks], "classes": CS.SERVER_TABLES[0], "handlers": CS.SERVER_TABLES[1]})
        return cases

    def _sequential(self, case):
        out = []
        for body in case["bodies"]:
            sc = CS.ServerConfig(case["own"], case["ver"], case["jsonclass"], case["classes"], case["handlers"])
            try:
                rt = K.Runtime(_dcase(case), config=sc.server)
                try:
                    out.append(CS.reply_skeleton(rt.run(body)))
                finally:
                    rt.close()
            finally:
                sc.restore()
        return out

    def run_impl(self, case):
        expected = self._sequential(case)
        sc = CS.ServerConfig(case["own"], case["ver"], case["jsonclass"], case["classes"], case["handlers"])
        rounds, hung = [], False
        old = sys.getswitchinterval()
        try:
            rt = K.Runtime(_dcase(case), config=sc.server)
            sys.setswitchinterval(1e-5)
            sc.arm(True)
            try:
                for _ in range(self.ROUNDS):
                    n = len(case["bodies"])
                    barrier = threading.Barrier(n)
                    res = [None] * n

                    def work(i, body):
                        raised, text = None, None
                        try:
                            barrier.wait(20)
                            text = rt.disp._marshaled_dispatch(body, rt.dm)
                        except Exception as ex:    # noqa
                            raised = ex
                        res[i] = {"raised": raised, "text": text}
                    ths = [threading.Thread(target=work, args=(i, b), daemon=True) for i, b in enumerate(case["bodies"])]
                    for t in ths:
                        t.start()
                    for t in ths:
                        t.join(20)
                        hung = hung or t.is_alive()
                    rounds.append([CS.reply_skeleton(r) if r is not None else ("no-result",) for r in res])
            finally:
                sc.arm(False)
                sys.setswitchinterval(old)
                rt.close()
            sd, dd = sc.flags()
            writes = (list(sc.rec_server.writes), list(sc.rec_default.writes))
        finally:
            sc.restore()
        return {"expected": expected, "rounds": rounds, "hung": hung, "server_diff": sd, "default_diff": dd,
                "server_writes": writes[0], "default_writes": writes[1]}

    def oracle(self, case, obs):
        if obs["hung"]:
            return ("C13:threads-hung", "a dispatching thread did not finish within 20 s")
        for r, got in enumerate(obs["rounds"]):
            for i, (g, e) in enumerate(zip(got, obs["expected"])):
                if g != e:
                    return ("C13:concurrent-reply-differs", "round %d, request %d (%s): concurrent reply %r, sequential reply %r" % (
                        r, i, case["kinds"][i], g, e))
        if obs["server_diff"] is not None:
            return ("C13:server-config-changed", "after concurrent serving: server Config.%s differs" % obs["server_diff"])
        if obs["default_diff"] is not None:
            return ("C13:default-config-changed", "after concurrent serving: config.DEFAULT.%s differs" % obs["default_diff"])
        if obs["server_writes"]:
            return ("C13:server-config-written", "writes to the server Config while serving concurrently: %s" % obs["server_writes"][:5])
        if obs["default_writes"]:
            return ("C13:default-config-written", "writes to config.DEFAULT while serving concurrently: %s" % obs["default_writes"][:5])
        return None

    def encode(self, case, obs):
        return None

    def kind(self, case, obs):
        return "%d threads / %s v%s" % (len(case["bodies"]), "own" if case["own"] else "DEFAULT", case["ver"])

    def nontrivial(self, case, obs):
        return True

    def describe(self, case, obs):
        return {"server_config": "own Config" if case["own"] else "jsonrpclib.config.DEFAULT", "server_version": case["ver"],
                "dispatch": case["dkind"], "kinds": case["kinds"], "bodies": case["bodies"],
                "sequential": ser.to_json(obs["expected"]), "rounds": ser.to_json(obs["rounds"]),
                "server_snapshot_diff": obs["server_diff"], "default_snapshot_diff": obs["default_diff"],
                "server_writes": obs["server_writes"], "default_writes": obs["default_writes"]}

    def shrink(self, case):
        n = len(case["bodies"])
        if n > 2:
            for i in range(n):
                yield dict(case, bodies=case["bodies"][:i] + case["bodies"][i + 1:], kinds=case["kinds"][:i] + case["kinds"][i + 1:])
        if case["dkind"] != "default":
            yield dict(case, dkind="default")


# ====================================================================== line-level schedules

# statement text of SimpleJSONRPCDispatcher._marshaled_single_dispatch -> label of Model/Config.v's thread
# program (a yield point: the thread parks BEFORE the line) | None (a line that touches no Config).
# A line of that function whose text is not listed is still a yield point, and marks the run
# `structure_changed`: the correspondence then fails closed, the oracle still decides.
SL = None
SCHED_LINES = {
    'method = request.get("method")': SL,
    'params = request.get("params")': SL,
    'if "jsonrpc" not in request and self.json_config.version >= 2:': "test",
    'config = self.json_config.copy()': "copy",
    'config.version = 1.0': "setver",
    'else:': SL,
    'config = self.json_config': "keep",
    'is_notification = "id" not in request or request["id"] in (None, "")': "call",
    'if is_notification and self.__notification_pool is not None:': SL,
    'if dispatch_method is not None:': SL,
    'self.__notification_pool.enqueue(': SL,
    'dispatch_method, method, params': SL,
    'self._dispatch, method, params, config': SL,
    ')': SL,
    'return None': SL,
    'try:': SL,
    'response = dispatch_method(method, params)': SL,
    'response = self._dispatch(method, params, config)': SL,
    'except Exception as ex:': SL,
    'if is_notification:': SL,
    '_logger.error(': SL,
    '"Error calling notification method %s: %s:%s",': SL,
    'method,': SL,
    'type(ex).__name__,': SL,
    'ex,': SL,
    'fault = Fault(': "reply",
    '-32603,': SL,
    '"{0}:{1}".format(type(ex).__name__, ex),': SL,
    'rpcid=request.get("id"),': SL,
    'rpcid=request["id"],': SL,
    'config=config,': SL,
    '_logger.error("Error calling method %s: %s", method, fault)': SL,
    'return fault.dump()': SL,
    'return jsonrpclib.dump(': "reply",
    'response, rpcid=request["id"], is_response=True, config=config': SL,
    '_logger.error("Error preparing JSON-RPC result: %s", fault)': SL,
}
SCHED_FN = "SimpleJSONRPCDispatcher._marshaled_single_dispatch"
SINGLE_KINDS = ["call-2.0", "call-1.0", "failing-2.0", "failing-1.0", "fault-2.0", "fault-1.0", "unknown-1.0", "opq-1.0", "echo-bool-1.0",
                "notification-2.0", "notification-1.0", "echo-1.0", "bad-arity-1.0"]
DOC_PREFIXES = ('"' * 3, "'" * 3, "#", ":param", ":return")


class PrefixPolicy(object):
    """follow the given choice indices, then always the first option"""

    def __init__(self, prefix):
        self.prefix = list(prefix)
        self.i = 0

    def choose(self, ctl, options):
        k = self.prefix[self.i] if self.i < len(self.prefix) else 0
        self.i += 1
        return min(k, len(options) - 1)


class LineSched(pipeline.Stream):
    """k handler threads inside _marshaled_dispatch of ONE dispatcher, interleaved at the source lines of
    _marshaled_single_dispatch that touch a Config (harness/sched line tracer): every interleaving of two
    threads for the listed request pairs, random schedules of three.  Compared with Model/Config.v's
    run_sched on the executed schedule; the oracle is the statement (reply = the sequential one, form,
    no configuration written)."""
    name = "linesched"
    model_imports = "Dispatch Config"
    case_type = "scase"
    check_fn = "c13_sched_check"
    shard = 200

    def setup(self):
        import jsonrpclib
        self.J = jsonrpclib
        self._seq = {}
        self.exhausted = {}
        self.problems = []

    def _mk(self, own, ver, dkind, kinds, prefix):
        return {"own": own, "ver": ver, "jsonclass": True, "dkind": dkind, "kinds": list(kinds),
                "bodies": [CS.body_of(k) for k in kinds], "classes": CS.SERVER_TABLES[0], "handlers": CS.SERVER_TABLES[1],
                "prefix": list(prefix)}

    def gen(self, tier, rng):
        pairs = [("call-1.0", "call-1.0"), ("call-1.0", "call-2.0"), ("fault-1.0", "failing-1.0"), ("notification-1.0", "echo-1.0"),
                 ("opq-1.0", "call-2.0")]
        if tier == "thorough":
            pairs += [("failing-1.0", "call-2.0"), ("bad-arity-1.0", "unknown-1.0"), ("fault-2.0", "fault-1.0"), ("call-2.0", "call-2.0")]
        cases = []
        hung = False
        for pi, ks in enumerate(pairs):
            for (own, ver) in ([(True, 2.0), (False, 2.0)] if pi < 2 or tier == "thorough" else [(True, 2.0)]):
                if hung:
                    # a handler thread blocked for real under some interleaving (a lock the code now takes): that run is
                    # judged (it did not finish); going on would wait out one time-out per interleaving
                    self.exhausted["%s | %s | %s v%s" % (ks[0], ks[1], "own" if own else "DEFAULT", ver)] = "not explored (an earlier run hung)"
                    continue
                # depth-first enumeration of every interleaving (the run is deterministic given the choices)
                stack, seen = [[]], 0
                while stack:
                    prefix = stack.pop()
                    c = self._mk(own, ver, "default", ks, prefix)
                    o = self._run(c)
                    c["_obs"] = o
                    cases.append(c)
                    seen += 1
                    ch = o["choices"]
                    for pos in range(len(prefix), len(ch)):
                        n, k = ch[pos]
                        for alt in range(k + 1, n):
                            stack.append([x[1] for x in ch[:pos]] + [alt])
                    if o["status"] == "hang":
                        hung = True
                        self.problems.append("a handler thread blocked outside the line scheduler's control under interleaving %r of (%s, %s): "
                                             "the code takes a real lock; the interleavings are NOT explored" % (prefix, ks[0], ks[1]))
                        break
                    if seen >= 1500:
                        # (a changed function may have more yield points than foreseen: the enumeration of this
                        # pair is then budget-limited, which the evidence says; what was explored is still judged)
                        break
                self.exhausted["%s | %s | %s v%s" % (ks[0], ks[1], "own" if own else "DEFAULT", ver)] = (
                    seen if not stack else "budget-limited after %d" % seen)
        for _ in range(0 if hung else (60 if tier == "quick" else 1500)):
            own, ver = rng.choice(CONFIGS)
            ks = [rng.choice(SINGLE_KINDS) for _ in range(3)]
            if not any(k.endswith("1.0") for k in ks):
                ks[0] = "call-1.0"
            cases.append(self._mk(own, ver, rng.choice(["default", "custom-raises", "default"]), ks,
                                  [rng.randrange(3) for _ in range(18)]))
        return cases

    def _sequential(self, case, body):
        key = json.dumps([case["own"], case["ver"], case["dkind"], body])
        if key not in self._seq:
            sc = CS.ServerConfig(case["own"], case["ver"], case["jsonclass"], case["classes"], case["handlers"])
            try:
                rt = K.Runtime(_dcase(case), config=sc.server)
                try:
                    self._seq[key] = CS.reply_skeleton(rt.run(body))
                finally:
                    rt.close()
            finally:
                sc.restore()
        return self._seq[key]

    def _run(self, case):
        from harness import sched as SC
        import jsonrpclib.SimpleJSONRPCServer as SRV
        unknown = []

        def hook(frame):
            q, ln, text = SC.line_info(frame)
            if q != SCHED_FN:
                return None
            if text in SCHED_LINES:
                return SCHED_LINES[text]
            if not text or text.startswith(DOC_PREFIXES):
                return None
            unknown.append((ln, text))
            return "?" + text

        sc = CS.ServerConfig(case["own"], case["ver"], case["jsonclass"], case["classes"], case["handlers"])
        try:
            rt = K.Runtime(_dcase(case), config=sc.server)
            try:
                ctl = SC.Controller(policy=PrefixPolicy(case["prefix"]), fire="quiescent", line_hook=hook, max_steps=400, op_yield=False,
                                    hang_timeout=10.0)
                ctl.trace_files.add(SRV.__file__)
                n = len(case["bodies"])
                res = [None] * n

                def work(i, body):
                    raised, text = None, None
                    try:
                        text = rt.disp._marshaled_dispatch(body, rt.dm)
                    except Exception as ex:    # noqa
                        raised = ex
                    res[i] = {"raised": raised, "text": text}
                for i, b in enumerate(case["bodies"]):
                    ctl.spawn("h%d" % i, lambda i=i, b=b: work(i, b))
                sc.arm(True)
                try:
                    r = ctl.run()
                finally:
                    sc.arm(False)
                sd, dd = sc.flags()
                writes = (list(sc.rec_server.writes), list(sc.rec_default.writes))
                pos = [K.parse_outcome(self.J, b, rt.config) for b in case["bodies"]]
            finally:
                rt.close()
        finally:
            sc.restore()
        return {"status": r.status, "trace": [(t, l) for (t, l) in r.trace], "choices": list(r.choices),
                "replies": res, "server_diff": sd, "default_diff": dd, "server_writes": writes[0], "default_writes": writes[1],
                "unknown": unknown, "po": pos, "errors": [repr(e) for e in r.errors]}

    def run_impl(self, case):
        o = case.pop("_obs", None)
        if o is None:
            o = self._run(case)
        o["expected"] = [self._sequential(case, b) for b in case["bodies"]]
        return o

    def oracle(self, case, obs):
        if obs["status"] == "hang":
            # a handler thread blocked for real while the scheduler held another one at a yield point (the code takes a lock
            # the line scheduler does not control): an artefact of the exploration, not a statement about the code
            return None
        if obs["status"] != "done" or obs["errors"]:
            return ("C13:sched-run-did-not-finish", "status %s, errors %s" % (obs["status"], obs["errors"]))
        own_form = "2.0" if case["ver"] >= 2 else "1.0"
        for i, (r, e) in enumerate(zip(obs["replies"], obs["expected"])):
            g = CS.reply_skeleton(r) if r is not None else ("no-result",)
            if g != e:
                return ("C13:concurrent-reply-differs", "thread %d (%s) under schedule %s: reply %r, sequential reply %r" % (
                    i, case["kinds"][i], [t for (t, l) in obs["trace"]], g, e))
            if g[0] == "one":
                req = json.loads(case["bodies"][i])
                exp = own_form if "jsonrpc" in req else "1.0"
                if CS.form_of(g[1]) != exp:
                    return ("C13:reply-form", "thread %d (%s): reply has form %s, expected %s: %r" % (
                        i, case["kinds"][i], CS.form_of(g[1]), exp, g[1]))
        if obs["server_diff"] is not None:
            return ("C13:server-config-changed", "after the schedule: server Config.%s differs" % obs["server_diff"])
        if obs["default_diff"] is not None:
            return ("C13:default-config-changed", "after the schedule: config.DEFAULT.%s differs" % obs["default_diff"])
        if obs["server_writes"]:
            return ("C13:server-config-written", "writes to the server Config under the schedule: %s" % obs["server_writes"][:5])
        if obs["default_writes"]:
            return ("C13:default-config-written", "writes to config.DEFAULT under the schedule: %s" % obs["default_writes"][:5])
        return None

    def encode(self, case, obs):
        from harness.core import gallina as G
        if obs["unknown"]:
            # the anchored function has statements the label table does not know: fail closed
            return "(mkSCase (mkHCase true VNone VNone [] [] [] (mkReg [] None) None [] []) [])"
        try:
            dcase = _dcase(case)
            sched = [int(t[1:]) for (t, l) in obs["trace"]]
            fl = "%s, %s" % (G.g_bool(obs["server_diff"] is None), G.g_bool(obs["default_diff"] is None))
            items = ["(%s, %s)" % (K.g_oreply(dcase, r), fl) for r in obs["replies"]]
            h = "(mkHCase %s %s %s %s %s %s %s %s %s %s)" % (
                G.g_bool(case["own"]), G.g_val(case["ver"]), G.g_val(case["jsonclass"]),
                CS.g_table(case["classes"]), CS.g_table(case["handlers"]),
                G.g_list([K.g_cdesc(d) for d in dcase["table"]]), K.g_reg(dcase), G.g_option(dcase.get("dm"), K.g_nat),
                G.g_list([K.g_input(p) for p in obs["po"]]), G.g_list(items))
            return "(mkSCase %s %s)" % (h, G.g_list(["%d%%nat" % t for t in sched]))
        except (ValueError, TypeError):
            return None

    def nontrivial(self, case, obs):
        return len(set(t for (t, l) in obs["trace"])) >= 2

    def kind(self, case, obs):
        return "%d threads / %s v%s / %s" % (len(case["bodies"]), "own" if case["own"] else "DEFAULT", case["ver"],
                                             "structure-changed" if obs["unknown"] else "aligned")

    def describe(self, case, obs):
        return {"server_config": "own Config" if case["own"] else "jsonrpclib.config.DEFAULT", "server_version": case["ver"],
                "dispatch": case["dkind"], "kinds": case["kinds"], "bodies": case["bodies"],
                "schedule": ["%s:%s" % tl for tl in obs["trace"]],
                "replies": [None if r is None else (type(r["raised"]).__name__ if r["raised"] is not None else r["text"])
                            for r in obs["replies"]],
                "sequential": ser.to_json(obs["expected"]), "unknown_statements": obs["unknown"][:5],
                "server_writes": obs["server_writes"], "default_writes": obs["default_writes"]}

    def to_replay(self, case):
        return ser.to_json({k: v for k, v in case.items() if k != "_obs"})

    def shrink(self, case):
        if len(case["bodies"]) > 2:
            for i in range(len(case["bodies"])):
                yield dict(case, bodies=case["bodies"][:i] + case["bodies"][i + 1:], kinds=case["kinds"][:i] + case["kinds"][i + 1:])
        p = case["prefix"]
        for i in range(len(p)):
            if p[i]:
                yield dict(case, prefix=p[:i] + [0] + p[i + 1:])

    def widen(self, rng):
        return list(self.gen("quick", rng))


from harness.props import c04 as C04      # noqa: E402


class Overlap(C04.Overlap):
    """a request served while another request's method is still running on the same dispatcher (gate inside the method; no
    scheduler involved, so locks the code may take are harmless): the form of each reply depends only on its own request, and no
    Config is written.  Each of the two is one Model/Dispatch.v case on its own (C04's `overlap` stream under C13's clauses)."""
    PREFIX = "C13"

    def run_impl(self, case):
        import jsonrpclib.config as C
        snap = lambda c: (c.version, c.use_jsonclass, c.content_type, c.serialize_method, c.ignore_attribute,     # noqa
                          dict(c.classes), len(c.serialize_handlers))
        before = snap(C.DEFAULT)
        obs = C04.Overlap.run_impl(self, case)
        obs["default_changed"] = snap(C.DEFAULT) != before
        return obs

    def oracle(self, case, obs):
        bad = C04.Overlap.oracle(self, case, obs)
        if bad is not None:
            return bad
        own = "2.0" if case["ver"] >= 2 else "1.0"
        for who, i in (("slow", 0), ("fast", 1)):
            body = json.loads(obs["bodies"][i])
            entries = body if isinstance(body, list) else [body]
            answered = [e for e in entries if not ("id" not in e or e["id"] in (None, ""))]
            text = obs[who][1]
            got = [] if not text else json.loads(text)
            got = got if isinstance(got, list) else [got]
            for g, e in zip(got, answered):
                exp = own if "jsonrpc" in e else "1.0"
                if CS.form_of(g) != exp:
                    return ("C13:reply-form", "%s request %r answered in form %s (expected %s) while the other request %r was in progress: %r" % (
                        who, e, CS.form_of(g), exp, json.loads(obs["bodies"][1 - i]), g))
        if obs.get("default_changed"):
            return ("C13:default-config-changed", "config.DEFAULT differs after two overlapping requests")
        return None


def streams():
    return [History(), ConfigOps(), Threads(), LineSched(), Overlap()]
