"""C10 -- pool concurrency is bounded by max_threads yet grows to it when work waits"""
from harness.core import pipeline
from harness.pool_support import common as C

PROP_ID = "C10"
ANCHOR_RANGES = C.ANCHOR_RANGES
TRUSTED = C.TRUSTED
ASSUMPTIONS = C.ASSUMPTIONS
RULE = ("client programs over {start, stop, enqueue (returning / raising / gate-blocked tasks, one dependent group no larger than "
        "max_threads), join, join(timeout), result(), redundant start/stop, restart} on 1-3 threads, max_threads in 1..3, min_threads in "
        "0..max; each run under a seeded random or PCT schedule of the controlled scheduler at the granularity of Model/Pool.v "
        "(time-outs fire at quiescent moments); model and implementation compared after EVERY step on the shared state "
        "(queue, unfinished_tasks, lock owner/depth, thread list, the three counters, queue mutex, per-task starts and future state). "
        "Non-trivial: at least one task and 20 model steps; distinct by (program, schedule policy).")
MANIFEST_ENTRY = {
    "text": 'Theorems for every schedule/program/pool size: running bodies <= serving workers = thread counter <= max_threads at every instant; from the return of start() until stop() at least min_threads workers serve the queue; constructor rejects max < 1 and clamps min into [0, max]; growth: unfinished items <= workers still taking items + committed thread creations, or max_threads reached (every reachable state). Lock-step correspondence with the real pool under a controlled scheduler; the oracle checks both bounds per step and that dependent (gate-blocked) workloads of <= max_threads tasks never stall.',
    "note": "Proved for ALL schedules/programs/pool sizes about Model/Pool.v (24 worker labels, 48 client labels, RLock, queue with its mutex and all_tasks_done condition); time-outs may fire at any moment in the theorems. Modelled, not verified: queue.Queue / threading primitives as atomic operations, CPython's atomicity of one source line, thread creation succeeds, unbounded queue, start()/stop() from one controlling thread. The growth clause is proved in its safety form (C10_growth, C10_growth_at_rest, C10_growth_progress: in every reachable state of a running pool the unfinished items never exceed the workers that will still take one plus the threads start()/enqueue() are committed to create, unless max_threads workers exist). PARTIAL: that such a worker is eventually scheduled and that Queue.get hands a queued item to a blocked getter (fairness, the queue's contract) are not theorems; the oracle checks that dependent tasks never stall on the explored schedules only. int() conversion of constructor arguments is Python's.",
    "technique": "Coq proof of invariants over all schedules of a line-granularity interleaving model + lock-step correspondence under a controlled scheduler + property oracle",
    "design_ref": "DESIGN.md 4/C10 and 'The thread-pool model shared by C09, C10, C11'",
}


class Lockstep(C.PoolStream):
    oracle_fn = staticmethod(C.oracle_c10)


class Bounded(C.BoundedStream):
    oracle_fn = staticmethod(C.oracle_c10)


class Ctor(pipeline.Stream):
    """ThreadPool constructor: validation and clamping"""
    name = "ctor"
    model_imports = "PoolObs"
    case_type = "Z * Z * option (Z * Z)"
    check_fn = "ctor_check"

    def setup(self):
        import jsonrpclib.threadpool as T
        self.T = T

    def gen(self, tier, rng):
        vals = [-3, -1, 0, 1, 2, 3, 7, 10 ** 12, True, False, 2.7, 0.4, -0.5, "3", " 2 ", "x", "", None, [1], 1e300]
        cases = [{"max": a, "min": b} for a in vals for b in vals]
        for _ in range(200 if tier == "quick" else 5000):
            cases.append({"max": rng.randint(-5, 40), "min": rng.randint(-5, 45)})
        return cases

    def run_impl(self, case):
        try:
            p = self.T.ThreadPool(case["max"], case["min"])
            return ("ok", p._max_threads, p._min_threads)
        except ValueError:
            return ("ValueError",)
        except Exception as ex:      # noqa
            return ("other", type(ex).__name__)

    @staticmethod
    def _int(x):
        try:
            return int(x)
        except (TypeError, ValueError, OverflowError):
            return None

    def oracle(self, case, obs):
        mx, mn = self._int(case["max"]), self._int(case["min"])
        if isinstance(case["max"], float) and case["max"] == 1e300:
            mx = int(case["max"])
        reject = mx is None or mx < 1 or mn is None
        if reject:
            if obs != ("ValueError",):
                return ("C10:ctor-accepts-invalid", "ThreadPool(%r, %r) -> %r, expected ValueError" % (case["max"], case["min"], obs))
            return None
        want = ("ok", mx, min(max(mn, 0), mx))
        if obs != want:
            return ("C10:ctor-clamping", "ThreadPool(%r, %r) -> %r, expected %r" % (case["max"], case["min"], obs, want))
        return None

    def encode(self, case, obs):
        if type(case["max"]) is not int or type(case["min"]) is not int:
            return None
        o = "None" if obs[0] != "ok" else "(Some (%d, %d))" % (obs[1], obs[2])
        return "((%d), (%d), %s)" % (case["max"], case["min"], o)

    def kind(self, case, obs):
        return "ctor %s/%s -> %s" % (type(case["max"]).__name__, type(case["min"]).__name__, obs[0])

    def nontrivial(self, case, obs):
        return True

    def describe(self, case, obs):
        return {"max": repr(case["max"]), "min": repr(case["min"]), "outcome": list(obs)}

    def to_replay(self, case):
        from harness.core import ser
        return ser.to_json(case)

    def from_replay(self, j):
        from harness.core import ser
        return ser.from_json(j)


def streams():
    return [Lockstep(), Bounded(), Ctor()]
