"""C06 -- the client never swallows or mistypes a server-reported error."""
import itertools
import copy
import json

from harness.core import pipeline, gallina as G, values as V, env

PROP_ID = "C06"
MANIFEST_ENTRY = {
    "text": ("Theorems over all reply values (Coq, closed under the global context) about a Gallina model of check_for_errors / "
             "proxy result extraction / MultiCall access; the model is checked against the real code on the exhaustive "
             "error x envelope x result x access-path product on every run."),
    "note": ("CPython truthiness/in/dict lookup/float() and the json round trip of the reply text are modelled, not verified; "
             "envelope domain: 'jsonrpc' absent or <= 2.0."),
    "technique": "Coq proof over a hand-written executable model + differential correspondence check (vm_compute) + property oracle",
    "design_ref": "DESIGN.md 4/C06",
}
ANCHOR_RANGES = [("jsonrpclib/jsonrpc.py", 1352, 1409), ("jsonrpclib/jsonrpc.py", 900, 924), ("jsonrpclib/jsonrpc.py", 630, 632)]
RULE = ("exhaustive product of error values (objects with every subset of code/message/trace/data x 18 codes around both "
        "range boundaries, numeric and not; codeless objects; strings, numbers, booleans, arrays) x envelope form x result "
        "member x access path (check_for_errors, proxy call over a loopback transport, MultiCall results[i], iteration); "
        "thorough adds random nested JSON errors. Non-trivial: error truthy, or result falsy. Distinct by canonical hash of the case.")
EXHAUSTIVE = "the finite error/envelope/result/path product described in `rule` (not the unbounded property: that is the theorems' job)"
TRUSTED = ["modelled, not verified: CPython truthiness, `in`, dict lookup, float() on the version marker, json round trip of the reply text",
           "loopback transport object standing for the network (the reply text is handed to ServerProxy unchanged)"]
ASSUMPTIONS = ["envelope domain: 'jsonrpc' absent or float()-able and <= 2.0 (other markers are a different error path)",
               "replies are JSON values without '__jsonclass__' members"]

CODES = [-32701, -32700, -32699, -32001, -32000, -31999, -32000.5, -32700.0, -32700.5, -31999.5, 0, 1, 2 ** 60,
         "abc", "", None, True, [1], {"a": 1}]
RESULTS_QUICK = ["<absent>", None, 0, [7]]
RESULTS_ALL = ["<absent>", None, 0, False, "", [], {}, 1, {"a": [1, 2.5]}, [7], [[]], [None], [{"a": 1}], [[1, 2]], [0]]
ENVELOPES = ["v1", "v2s", "v2f", "v2i"]


def error_pool():
    out = []
    for code in CODES:
        for r in range(4):
            for extra in itertools.combinations(["message", "trace", "data"], r):
                e = {"code": code}
                for k in extra:
                    e[k] = {"message": "msg", "trace": "tré", "data": {"d": [1, None]}}[k]
                out.append(e)
    # codeless objects
    out += [{"reason": "x"}, {"message": "only"}, {"trace": "t"}, {"data": 1}, {"reason": None}, {"reason": 0},
            {"message": "m", "data": 2}, {"a": 1, "b": 2, "c": 3}, {"Code": -32700}, {"codes": 1}]
    # non-objects
    out += ["boom", "bad code here", "code", "c", 5, -32700, 1.5, True, [1, 2], ["code"], ["code", 1], [["code"]], [None]]
    # falsy errors (no error at all)
    out += [None, "", 0, 0.0, False, [], {}, "<absent>"]
    return out


def build_reply(env_form, error, result):
    r = {}
    if env_form == "v2s":
        r["jsonrpc"] = "2.0"
    elif env_form == "v2f":
        r["jsonrpc"] = 2.0
    elif env_form == "v2i":
        r["jsonrpc"] = 2
    elif env_form != "v1":
        r["jsonrpc"] = env_form[1]      # ("raw", value)
    if result != "<absent>":
        r["result"] = result
    if error != "<absent>":
        r["error"] = error
    r["id"] = 7
    return r


class LoopbackReply(object):
    """transport= object that answers every request with a fixed text"""

    def __init__(self, text):
        self.text = text

    def push_headers(self, headers):
        pass

    def pop_headers(self, headers):
        pass

    def request(self, host, handler, request_body, verbose=0):
        return self.text

    def close(self):
        pass


OKREPLY = {"jsonrpc": "2.0", "result": 11, "id": 1}


def outcome(fn):
    try:
        return ("ok", fn())
    except Exception as ex:      # noqa
        return ("raise", ex)


class Main(pipeline.Stream):
    name = "main"
    model_imports = "Client"
    case_type = "c06_path * val * list (res val)"
    check_fn = "c06_check"

    def setup(self):
        import jsonrpclib
        import jsonrpclib.jsonrpc as J
        self.J = J

    def gen(self, tier, rng):
        cases = []
        errors = error_pool()
        results = RESULTS_QUICK if tier == "quick" else RESULTS_ALL
        # "...2": the same reply looked at a second time (the same reply object checked again, the same position of the batch
        # results read again, the results iterated again): the statement holds for every look, the outcome judged is the second
        paths = [("check",), ("proxy",), ("notify",), ("multi", 0, 0), ("multi", 2, 1), ("iter", 1, 1),
                 ("check2",), ("multi2", 1, 1), ("iter2", 1, 0)]
        for e, env_form, res in itertools.product(errors, ENVELOPES, results):
            reply = build_reply(env_form, e, res)
            for p in paths:
                cases.append({"path": p, "reply": reply})
        # other version markers and non-object replies (correspondence only; the property is silent)
        for marker in ["1.0", 1.0, "2.5", "3.0", 3, 2.5, None, [2], True]:
            for e in [{"code": 1, "message": "m"}, None, "<absent>"]:
                cases.append({"path": ("check",), "reply": build_reply(("raw", marker), e, 1)})
        for reply in [None, 0, "", [], {}, [1], "text", 5, True, {"id": 1}, {"jsonrpc": "2.0", "id": 1}]:
            for p in [("check",), ("proxy",), ("multi", 1, 0)]:
                cases.append({"path": p, "reply": reply})
        n_rand = 300 if tier == "quick" else 6000
        for _ in range(n_rand):
            e = V.rand_json(rng, depth=3, width=3, leaves=V.LEAVES + CODES[:10], keys=("code", "message", "trace", "data", "x", ""))
            reply = build_reply(rng.choice(ENVELOPES), e, rng.choice(RESULTS_ALL))
            cases.append({"path": rng.choice(paths), "reply": reply})
        return cases

    def run_impl(self, case):
        J = self.J
        p, reply = case["path"], copy.deepcopy(case["reply"])
        again = p[0].endswith("2")
        if p[0] == "check":
            return [outcome(lambda: J.check_for_errors(reply))]
        if p[0] == "check2":
            outcome(lambda: J.check_for_errors(reply))
            return [outcome(lambda: J.check_for_errors(reply))]
        if p[0] == "proxy":
            proxy = J.ServerProxy("http://localhost/", transport=LoopbackReply(json.dumps(reply)))
            return [outcome(lambda: proxy.some_method(1, 2))]
        if p[0] == "notify":
            # a notification call: a server may still answer it (a 1.0 server, a foreign server): an error in that
            # answer must surface like any other
            proxy = J.ServerProxy("http://localhost/", transport=LoopbackReply(json.dumps(reply)))
            return [outcome(lambda: proxy._notify.some_method(1, 2))]
        pre, post = p[1], p[2]
        batch = [OKREPLY] * pre + [reply] + [OKREPLY] * post
        proxy = J.ServerProxy("http://localhost/", transport=LoopbackReply(json.dumps(batch)))
        mc = J.MultiCall(proxy)
        for _ in batch:
            mc.m(1)
        results = mc()
        if p[0] in ("multi", "multi2"):
            if again:
                outcome(lambda: results[pre])
            return [outcome(lambda: results[pre])]
        for _ in range(2 if again else 1):
            out = []
            it = iter(results)
            while True:
                try:
                    out.append(("ok", next(it)))
                except StopIteration:
                    break
                except Exception as ex:   # noqa
                    out.append(("raise", ex))
                    break
        return out

    # ---------------------------------------------------------------- oracle (from the statement)
    def _envelope_ok(self, reply):
        if "jsonrpc" not in reply:
            return True
        j = reply["jsonrpc"]
        return (isinstance(j, str) and j in ("2.0", "1.0", "2")) or (isinstance(j, (int, float)) and not isinstance(j, bool) and j <= 2.0)

    def masked(self, case, obs):
        reply = case["reply"]
        return not (isinstance(reply, dict) and self._envelope_ok(reply))

    def oracle(self, case, obs):
        J = self.J
        reply, p = case["reply"], (case["path"][0].rstrip("2"),) + tuple(case["path"][1:])
        if p[0] == "iter":
            if len(obs) <= p[1]:
                return ("C06:iteration-stops-early", "iteration stopped before position %d" % p[1])
            o = obs[p[1]]
        else:
            o = obs[0]
        err = reply.get("error")
        if "error" in reply and err:
            if o[0] != "raise":
                return ("C06:error-swallowed", "non-empty error %r but a value was returned: %r" % (err, o[1]))
            ex = o[1]
            if not isinstance(ex, J.ProtocolError):
                return ("C06:wrong-exception-type", "non-empty error %r raised %s instead of ProtocolError" % (err, type(ex).__name__))
            if isinstance(err, dict) and "code" in err:
                code = err["code"]
                msg = err["message"] if "message" in err else err.get("trace")
                numeric = isinstance(code, (int, float))
                if numeric and -32700 <= code <= -32000:
                    if type(ex) is not J.ProtocolError:
                        return ("C06:reserved-code-not-plain", "code %r raised %s" % (code, type(ex).__name__))
                    a = ex.args[0]
                    if not (isinstance(a, tuple) and len(a) == 2 and V.same(a[0], code) and (msg is None and "message" not in err and "trace" not in err or V.same(a[1], msg))):
                        return ("C06:wrong-args", "ProtocolError args %r for error %r" % (ex.args, err))
                else:
                    if type(ex) is not J.AppError:
                        return ("C06:app-code-not-apperror", "code %r raised %s" % (code, type(ex).__name__))
                    a = ex.args[0]
                    if not (isinstance(a, tuple) and len(a) == 3 and V.same(a[0], code) and V.same(a[2], err.get("data"))
                            and (msg is None and "message" not in err and "trace" not in err or V.same(a[1], msg))):
                        return ("C06:wrong-args", "AppError args %r for error %r" % (ex.args, err))
                    if not V.same(ex.data(), err.get("data")):
                        return ("C06:wrong-data", "AppError.data() = %r" % (ex.data(),))
            return None
        if ("error" not in reply or err is None) and "result" in reply:
            if o[0] != "ok":
                return ("C06:result-not-returned", "no error, result %r, but %s raised" % (reply["result"], type(o[1]).__name__))
            want = reply if p[0] == "check" else (None if p[0] == "notify" else reply["result"])
            if not V.same(o[1], want):
                return ("C06:result-changed", "result %r came back as %r" % (want, o[1]))
        return None

    def encode(self, case, obs):
        p, reply = (case["path"][0].rstrip("2"),) + tuple(case["path"][1:]), case["reply"]
        if isinstance(reply, dict) and "jsonrpc" in reply:
            j = reply["jsonrpc"]
            if isinstance(j, str) and not j.replace(".", "", 1).isdigit():
                return None
        ok = G.g_val(OKREPLY)
        if p[0] == "check":
            gp = "PCheck"
        elif p[0] == "proxy":
            gp = "PProxy"
        elif p[0] == "notify":
            gp = "PNotify"
        else:
            gp = "(%s %s %s)" % ("PMulti" if p[0] == "multi" else "PIter", G.g_list([ok] * p[1]), G.g_list([ok] * p[2]))
        return "(%s, %s, %s)" % (gp, G.g_val(reply), G.g_list([G.g_res(o) for o in obs]))

    def nontrivial(self, case, obs):
        reply = case["reply"]
        if not isinstance(reply, dict):
            return False
        return bool(reply.get("error")) or ("result" in reply and not reply["result"])

    def kind(self, case, obs):
        reply = case["reply"]
        if not isinstance(reply, dict):
            return "non-object reply"
        e = reply.get("error", "<absent>")
        if not e or e == "<absent>":
            k = "no error"
        elif isinstance(e, dict):
            k = "error object with code" if "code" in e else "codeless error object"
        else:
            k = "non-object error (%s)" % type(e).__name__
        return "%s / %s / -> %s" % (case["path"][0], k, "raise " + type(obs[-1][1]).__name__ if obs and obs[-1][0] == "raise" else "value")

    def describe(self, case, obs):
        return {"path": list(case["path"]), "reply": case["reply"],
                "outcome": [("value", repr(o[1])) if o[0] == "ok" else (type(o[1]).__name__, repr(o[1].args)) for o in obs]}

    def to_replay(self, case):
        from harness.core import ser
        return {"path": list(case["path"]), "reply": ser.to_json(case["reply"])}

    def from_replay(self, j):
        from harness.core import ser
        return {"path": tuple(j["path"]), "reply": ser.from_json(j["reply"])}

    def shrink(self, case):
        reply = case["reply"]
        if case["path"][0] != "check":
            yield {"path": ("check",), "reply": reply}
        if isinstance(reply, dict):
            for k in list(reply):
                if k != "error":
                    r2 = dict(reply)
                    del r2[k]
                    yield {"path": case["path"], "reply": r2}
            e = reply.get("error")
            if isinstance(e, dict):
                for k in list(e):
                    e2 = dict(e)
                    del e2[k]
                    yield {"path": case["path"], "reply": dict(reply, error=e2)}
            if isinstance(e, list) and len(e) > 1:
                yield {"path": case["path"], "reply": dict(reply, error=e[:1])}


def streams():
    return [Main()]
