"""C05 -- failures get the standard error codes and rejected requests run nothing."""
import itertools
import json

from harness.dispatch_support import core as K, gen as GN, stream as S

PROP_ID = "C05"
MANIFEST_ENTRY = {
    "text": ("Theorems (Coq, closed under the global context) over all registries, attribute trees, dotted names, signatures, argument "
             "lists/maps and exception classes about a Gallina model of _marshaled_dispatch / validate_request / _dispatch / "
             "resolve_dotted_attribute whose output includes the invocation log: -32700 / -32600 / -32601 (incl. every name with an "
             "underscore segment, by induction over the segment list) with an empty log, -32602 with the body not entered, -32603 "
             "whose message contains type name and text; each code surfaces as ProtocolError((code, message)) in the C06 client "
             "model. Model and real dispatcher (codes, ids, invocation logs, message flags) are compared on every run."),
    "note": ("known finding F13 (a TypeError raised inside the method body is reported as -32602) is probed in its own stream and "
             "stated as theorem C05_known_F13_type_error_in_body; CPython argument binding is modelled (call_binds: positional-or-"
             "keyword parameters, defaults, *args, keyword-only, **kwargs) and cross-checked against real functions on every case; "
             "traceback.format_exception's last line is a modelled component (the message is rendered structurally); dotted names "
             "resolving to non-callable attributes are outside the property (correspondence only)."),
    "technique": "Coq proof over a hand-written executable model + differential correspondence check (vm_compute) + property oracle",
    "design_ref": "DESIGN.md 4/C05",
}
ANCHOR_RANGES = [("jsonrpclib/SimpleJSONRPCServer.py", 98, 185), ("jsonrpclib/SimpleJSONRPCServer.py", 225, 330),
                 ("jsonrpclib/SimpleJSONRPCServer.py", 400, 480), ("jsonrpclib/jsonrpc.py", 1379, 1407)]
RULE = ("names: all 258 dotted names of <= 3 segments over {im, sub, deep, _p, __d, nope} (+ trailing / double dots) against 5 "
        "registries (functions only, instance tree with public / _private / __dunder / nested attributes, instance with a "
        "_dispatch that returns / raises / declines); arity: 120 signatures (0-3 positionals x defaults x *args x keyword-only "
        "required/optional x **kwargs) x argument lists of length 0-4 and maps over {a,b,c,k,z} (quick: sampled), as function and "
        "as instance attribute; exceptions: 18 classes x 3 single-line texts x 4 call paths; malformed: truncations / deletions / "
        "substitutions of valid requests, structurally invalid objects, translator-rejected payloads; each single reply is also fed to "
        "a ServerProxy. Non-trivial: the reply is an error. Distinct by case hash."
        " Added after the seeded rounds: raw control characters inserted at every position of valid texts; methods raising SystemExit / KeyboardInterrupt / a BaseException subclass (registered functions and instance methods only); a `registry` stream of C01's histories judged on the -32601 clause (a name that was served and stops existing).")
TRUSTED = ["modelled, not verified: CPython argument binding (call_binds), getattr on plain objects, traceback.format_exception, "
           "json.loads / class translator (model input = outcome of jsonrpclib.loads)",
           "loopback transport object standing for the network on the client side"]
ASSUMPTIONS = ["single-line exception messages, no notes, no SyntaxError-style rendering", "server Config.version in {1.0, 2.0}",
               "dotted names resolving to non-callable attributes are not constrained"]

SEGS = ["im", "sub", "deep", "_p", "__d", "nope"]
EXC_CLASSES = ["ValueError", "KeyError", "IndexError", "ZeroDivisionError", "RuntimeError", "OSError", "AttributeError", "LookupError",
               "ArithmeticError", "AssertionError", "NotImplementedError", "NameError", "OverflowError", "StopIteration",
               "UnicodeError", "EOFError", "Exception", "CustomError"]
# exceptions that do not derive from Exception (sys.exit() in a method, ...): "any other exception raised by the method" covers
# them for registered functions and instance methods (the library contains them with a bare `except:`); for a dispatch FUNCTION
# the library deliberately lets them through (`except Exception`), which is read as outside "raised by the method"
BASE_EXC_CLASSES = ["SystemExit", "KeyboardInterrupt", "MethodAborted"]
TEXTS = ["boom-17", "msg with spaces & \"quotes\"", "ünï-текст"]


class LoopbackReply(object):
    def __init__(self, text):
        self.text = text

    def push_headers(self, headers):
        pass

    def pop_headers(self, headers):
        pass

    def request(self, host, handler, request_body, verbose=0):
        return self.text

    def close(self):
        pass


def resolve_public(tree, name):
    """('call', cid) | ('other',) | None (does not resolve / private)"""
    node = ["obj", tree]
    for seg in name.split("."):
        if seg.startswith("_") or node[0] != "obj" or seg not in node[1]:
            return None
        node = node[1][seg]
    return node


def binds(sig, params):
    check = K.build_check(sig)
    try:
        if isinstance(params, list):
            check(*params)
        else:
            check(**params)
        return True
    except TypeError:
        return False


class Base(S.DispatchStream):
    """common observation (adds the client's view of a single reply) and the class-by-class oracle"""

    def run_impl(self, case):
        obs = S.DispatchStream.run_impl(self, case)
        obs["client"] = None
        if obs["raised"] is None and obs["text"] and not obs["text"].lstrip().startswith("["):
            proxy = self.J.ServerProxy("http://localhost/", transport=LoopbackReply(obs["text"]))
            try:
                obs["client"] = ("ok", proxy.anything())
            except Exception as ex:   # noqa
                obs["client"] = ("raise", ex)
        return obs

    def expected(self, case, obs):
        """(code | 'result' | None (unconstrained), cids allowed to run exactly once | None (unconstrained), (cls, text) | None)
        for a single-request body — decided from the statement's five classes"""
        # malformed JSON is decided on the text by the standard-library parser (not by the code under test)
        if case["body"] == "":
            return -32600, [], None
        try:
            e = json.loads(case["body"])
        except ValueError:
            return -32700, [], None
        if obs["po"][0] == "error":
            return -32700, [], None           # the class translator rejected the payload
        if isinstance(e, list) and e:
            return None, None, None
        if not S.is_wellformed_request(e) or not K.is_plain_json(K.to_model_val(obs["po"][1])):
            return (-32600 if not self.translated_away(obs) else None), [], None
        if S.has_no_id(e):
            return "silent", None, None
        method, params = e["method"], e.get("params", [])
        if case.get("dm") is not None:
            return self.of_callable(case, case["dm"], None, True)
        if method in case.get("funcs", {}):
            return self.of_callable(case, case["funcs"][method], params)
        inst = case.get("inst")
        if inst is None:
            return -32601, [], None
        if inst.get("dispatch") is not None:
            d = inst["dispatch"]
            beh = case["table"][d]["beh"]
            if beh[0] == "raise" and beh[1] == "AttributeError":
                if any(seg.startswith("_") for seg in method.split(".")):
                    return -32601, [d], None
                return None, None, None
            return self.of_callable(case, d, None, True)
        node = resolve_public(inst["attrs"], method)
        if node is None:
            return -32601, [], None
        if node[0] != "call":
            return None, [], None          # non-callable attribute: outside the property, but nothing may run
        return self.of_callable(case, node[1], params)

    def translated_away(self, obs):
        return False

    def of_callable(self, case, c, params, is_dispatcher=False):
        d = case["table"][c]
        if not is_dispatcher and not binds(d["sig"], params):
            return -32602, [], None
        beh = d["beh"]
        if beh[0] == "raise":
            return -32603, [c], (beh[1], beh[2])
        if beh[0] == "typeerr":
            return -32603, [c], ("TypeError", beh[1])
        if beh[0] == "opaque":
            return (-32603 if case.get("jsonclass", True) else None), [c], None
        return "result", [c], None

    def oracle(self, case, obs):
        code, may_run, exc = self.expected(case, obs)
        if obs["raised"] is not None:
            if code is None:
                return None
            return ("C05:dispatcher-raised", "dispatcher raised %s" % type(obs["raised"]).__name__)
        calls = [e for e in obs["log"] + obs["drained"] if e[0] == "call"]
        if may_run is not None:
            ran = sorted(c[1] for c in calls)
            if ran != sorted(may_run):
                if not may_run:
                    return ("C05:rejected-request-ran-callable", "expected code %s with nothing invoked, but callables %r ran (body %r)" % (code, ran, case["body"][:120]))
                return ("C05:wrong-invocations", "callables %r ran, expected %r" % (ran, may_run))
        if code is None:
            return None
        pr = K.parse_reply(obs["text"])
        if code == "silent":
            return None if pr[0] == "empty" else ("C05:notification-answered", "reply %r" % obs["text"][:120])
        if pr[0] != "value" or not isinstance(pr[1], dict):
            return ("C05:no-single-error-object", "expected a single object, got %r" % (obs["text"][:160],))
        o = pr[1]
        err = o.get("error")
        if code == "result":
            if err is not None:
                return ("C05:error-for-successful-call", "call should succeed, got %r" % (err,))
            return None
        if not isinstance(err, dict) or err.get("code") != code or isinstance(err.get("code"), bool):
            key = "C05:wrong-error-code"
            if exc is not None and exc[0] == "TypeError" and isinstance(err, dict) and err.get("code") == -32602:
                key = "C05:callable-raises-TypeError-in-body"
            return (key, "expected code %s, got %r (body %r)" % (code, err, case["body"][:160]))
        if code == -32603 and exc is not None:
            msg = err.get("message")
            if not isinstance(msg, str) or exc[0] not in msg or exc[1] not in msg:
                return ("C05:message-does-not-name-exception", "message %r does not contain %r and %r" % (msg, exc[0], exc[1]))
        # the client surfaces the case as ProtocolError carrying that code
        cl = obs.get("client")
        if cl is not None:
            if cl[0] != "raise" or type(cl[1]).__name__ != "ProtocolError":
                return ("C05:client-does-not-raise-protocolerror", "client outcome %r" % (cl,))
            a = cl[1].args[0]
            if not (isinstance(a, tuple) and len(a) == 2 and a[0] == code):
                return ("C05:client-wrong-code", "ProtocolError args %r, expected code %s" % (cl[1].args, code))
        return None

    def nontrivial(self, case, obs):
        return '"error": {' in (obs["text"] or "")

    def describe(self, case, obs):
        d = S.DispatchStream.describe(self, case, obs)
        cl = obs.get("client")
        d["client"] = None if cl is None else ([cl[0], repr(cl[1])])
        return d


class Names(Base):
    name = "names"

    def gen(self, tier, rng):
        names = [".".join(t) for r in (1, 2, 3) for t in itertools.product(SEGS, repeat=r)]
        names += ["", ".", "im.", ".im", "sub..deep", "sub.deep.", "data", "data.real", "sub.inner.leaf", "sub.inner._q", "_psub.pub",
                  "im.__call__", "im.__name__", "sub.__class__", "__init__", "_dispatch", "sub.inner", "ok", "ok.x", "echo._x", "é.中"]
        regs = ["default", "default+instance", "instance-dispatch-returns", "instance-dispatch-raises", "instance-dispatch-attrerror"]
        cases = []
        for n, dk in itertools.product(names, regs):
            if tier == "quick" and dk not in ("default+instance",) and rng.random() < 0.6:
                continue
            c = GN.base_case(rng.choice([1.0, 2.0]), dk)
            c["body"] = json.dumps(GN.req(n, rng.choice([[], [1], {"a": 1}]), rng.choice(GN.REAL_IDS), rng.random() < 0.7))
            cases.append(c)
        # the same names with the instance as the only registry, and as notifications
        for n in names:
            c = GN.base_case(2.0, "default+instance", funcs=False)
            c["body"] = json.dumps([GN.req(n, [], 1), GN.req(n, [])])
            cases.append(c)
        return cases

    def kind(self, case, obs):
        e = self.entries(case)
        n = e[1][0].get("method", "") if e and isinstance(e[1][0], dict) else ""
        cls = "underscore segment" if isinstance(n, str) and any(s.startswith("_") for s in n.split(".")) else "public name"
        return "%s / %s" % (cls, case.get("kind"))


class Arity(Base):
    name = "arity"

    def gen(self, tier, rng):
        sigs = []
        for n in range(4):
            for ndef, va, kwo, vk in itertools.product(range(n + 1), [False, True], [[], [["k", False]], [["k", True]]], [False, True]):
                sigs.append(K.sig(pos=["a", "b", "c"][:n], ndef=ndef, varargs=va, kwonly=kwo, varkw=vk))
        lists = [[1] * n for n in range(5)]
        keys = ["a", "b", "c", "k", "z"]
        maps = [{k: 1 for k in ks} for r in range(5) for ks in itertools.combinations(keys, r)]
        maps += [{"": 1}, {"a b": 1}, {"a": 1, "é": 2}]
        combos = list(itertools.product(range(len(sigs)), lists + maps))
        if tier == "quick":
            combos = rng.sample(combos, 1200)
        cases = []
        for si, params in combos:
            on_instance = rng.random() < 0.3
            beh = rng.choice([["ret", 1], ["echo"], ["raise", "ValueError", "in-body"]])
            c = GN.base_case(rng.choice([1.0, 2.0]), "default")
            c["table"] = [{"sig": sigs[si], "beh": beh}]
            if on_instance:
                c["funcs"] = {}
                c["inst"] = {"dispatch": None, "attrs": {"f": ["call", 0], "o": ["obj", {"f": ["call", 0]}]}}
                c["kind"] = "instance attribute"
                m = rng.choice(["f", "o.f"])
            else:
                c["funcs"] = {"f": 0}
                c["kind"] = "function"
                m = "f"
            c["body"] = json.dumps(GN.req(m, params, rng.choice(GN.REAL_IDS), rng.random() < 0.7))
            cases.append(c)
        return cases

    def kind(self, case, obs):
        e = self.entries(case)[1][0]
        p = e.get("params", [])
        ok = binds(case["table"][0]["sig"], p)
        return "%s / %s / %s" % (case["kind"], "list" if isinstance(p, list) else "map", "binds" if ok else "mismatch")


class Exceptions(Base):
    name = "exceptions"

    def gen(self, tier, rng):
        cases = []
        for cls, text, path in itertools.product(EXC_CLASSES + BASE_EXC_CLASSES, TEXTS, ["function", "instance", "custom", "instance-dispatch"]):
            if cls == "AttributeError" and path == "instance-dispatch":
                continue       # a declining _dispatch is the fallback protocol, not a failure
            if cls in BASE_EXC_CLASSES and path in ("custom", "instance-dispatch"):
                continue
            c = GN.base_case(rng.choice([1.0, 2.0]), "default")
            role = "dispatch" if path in ("custom", "instance-dispatch") else None
            d = {"sig": K.ANY_SIG, "beh": ["raise", cls, text]}
            if role:
                d["role"] = role
            c["table"] = [d, {"sig": K.ANY_SIG, "beh": ["ret", 1]}]
            c["funcs"] = {"f": 0} if path == "function" else {"g": 1}
            if path == "instance":
                c["inst"] = {"dispatch": None, "attrs": {"m": ["call", 0], "s": ["obj", {"m": ["call", 0]}]}}
            elif path == "instance-dispatch":
                c["inst"] = {"dispatch": 0, "attrs": {"m": ["call", 1]}}
            if path == "custom":
                c["dm"] = 0
            c["kind"] = path
            m = {"function": "f", "instance": rng.choice(["m", "s.m"]), "custom": "g", "instance-dispatch": "whatever"}[path]
            c["body"] = json.dumps(GN.req(m, rng.choice([[], [1, 2], {"x": 1}]), rng.choice(GN.REAL_IDS), rng.random() < 0.7))
            cases.append(c)
        return cases

    def kind(self, case, obs):
        return "%s / %s" % (case["kind"], case["table"][0]["beh"][1])


class Malformed(Base):
    name = "malformed"

    def gen(self, tier, rng):
        from harness.props import c02
        cases = []

        def add(body, jc=True):
            c = GN.base_case(rng.choice([1.0, 2.0]), rng.choice(["default", "default+instance", "custom-returns", "instance-dispatch-returns"]), jsonclass=jc)
            c["body"] = body
            cases.append(c)

        alphabet = '"{}[],:\\ x0'
        for text in (c02.VALID[:2] if tier == "quick" else c02.VALID):
            for i in range(len(text)):
                add(text[:i])
                add(text[:i] + text[i + 1:])
            subs = [(i, ch) for i in range(len(text)) for ch in alphabet if text[i] != ch]
            for i, ch in (rng.sample(subs, 100) if tier == "quick" else subs):
                add(text[:i] + ch + text[i + 1:])
            # raw control characters: white space between tokens (tab, LF, CR) is fine, anywhere inside a string it is
            # malformed JSON (RFC 8259); the reference parser decides which
            ins = [(i, ch) for i in range(len(text) + 1) for ch in "\t\n\r\x00\x0c\x1f\x7f"]
            for i, ch in (rng.sample(ins, 60) if tier == "quick" else ins):
                add(text[:i] + ch + text[i:])
        for t in ["{", "}", "[", "nul", "tru", "'a'", "{'a': 1}", "{\"a\" 1}", "[1,]", "{\"a\":1,}", "01", "1.", ".5", "+1", "0x10", "\"\\x\"", "\"unterminated",
                  "{\"jsonrpc\": \"2.0\", \"method\": \"ok\", \"id\": 1} trailing", "[1 2]", "\ufeff{}", "{\"method\": \"ok\", \"id\": 1}}",
                  " ", "\n", "\r\n", "\t", "  \n\t ", "\x0b", "\x00"]:
            add(t)
        # structurally invalid objects
        for combo in itertools.product(c02.REPS, repeat=4):
            o = c02.member_object(combo)
            if S.is_wellformed_request(o):
                continue
            if tier == "quick" and rng.random() < 0.93:
                continue
            add(json.dumps(o))
        for v in [None, True, False, 0, 5, 1.5, "", "x", [], {}, {"foo": "bar"}, {"method": "ok"}, {"method": "ok", "params": []},
                  {"jsonrpc": "2.0", "method": "", "id": 1}, {"id": 1, "method": "ok", "params": "str"}, {"id": 1, "method": ["ok"]}]:
            add(json.dumps(v))
        # payloads the class translator rejects (and the same with translation off: ordinary data)
        for d, jc in itertools.product(c02.DESCRIPTORS, [True, False]):
            add(json.dumps(GN.req("ok", [d], 1)), jc)
            add(json.dumps(GN.req("echo", {"k": d}, 2)), jc)
            add(json.dumps(d), jc)
        return cases

    def translated_away(self, obs):
        # the class translator replaced part of the request by an object: the statement's classes are decided on the text
        return not K.is_plain_json(obs["po"][1]) if obs["po"][0] == "value" else False

    def expected(self, case, obs):
        exp = Base.expected(self, case, obs)
        if obs["po"][0] == "value" and not K.is_plain_json(obs["po"][1]):
            return None, None, None         # a descriptor of a real class was instantiated: outside this stream's classes
        return exp

    def kind(self, case, obs):
        po = obs["po"][0]
        if po == "error":
            try:
                json.loads(case["body"])
                return "rejected by translator"
            except ValueError:
                return "malformed JSON"
        if po == "empty":
            return "empty text"
        e = self.entries(case)
        if e and not e[0] and not S.is_wellformed_request(e[1][0]):
            return "structurally invalid"
        return "other"


class TypeErrorInBody(Base):
    """finding F13: TypeError raised by the method's own body (separate stream: it can neither mask nor cause other alarms)"""
    name = "typeerror_in_body"

    def gen(self, tier, rng):
        cases = []
        for text, path, ver in itertools.product(TEXTS, ["function", "instance"], [1.0, 2.0]):
            c = GN.base_case(ver, "default")
            c["table"] = [{"sig": K.ANY_SIG, "beh": ["typeerr", text]}]
            c["funcs"] = {"f": 0} if path == "function" else {}
            if path == "instance":
                c["inst"] = {"dispatch": None, "attrs": {"f": ["call", 0]}}
            c["kind"] = path
            c["body"] = json.dumps(GN.req("f", [1], 1, ver == 2.0))
            cases.append(c)
        return cases

    def kind(self, case, obs):
        return "TypeError in body / %s" % case["kind"]


from harness.props import c01 as C01     # noqa: E402


class Registry(C01.Registry):
    """the -32601 clause over the life of one server: a name that was served and then stops existing (the instance replaced by one
    without it, the attribute deleted) is an unknown method again -- -32601, surfaced as ProtocolError(-32601), nothing invoked.
    Same histories and same model function as C01's `registry` stream (one Dispatch.v case per call, under the registry of its moment)."""

    def oracle(self, case, obs):
        for i, c in enumerate(obs["calls"]):
            if C01.resolve(c["funcs"], c["tree"], c["name"]) is not None:
                continue
            where = "call %d of %r, unknown under the registrations in force (functions %r, instance attributes %r)" % (
                i, c["name"], sorted(c["funcs"]), None if c["tree"] is None else sorted(c["tree"]))
            ran = [e for e in c["log"] if e[0] == "call"]
            if ran:
                return ("C05:rejected-request-ran-callable", "%s: callables %r ran" % (where, [e[1] for e in ran]))
            d = c.get("detail")
            if c["out"] != ("exn", "ProtocolError") or not (isinstance(d, tuple) and d and d[0] == -32601):
                return ("C05:wrong-error-code", "%s: the client got %r %r instead of ProtocolError(-32601)" % (where, c["out"], d))
        return None

    def nontrivial(self, case, obs):
        return any(C01.resolve(c["funcs"], c["tree"], c["name"]) is None for c in obs["calls"])


def streams():
    return [Names(), Arity(), Exceptions(), Malformed(), TypeErrorInBody(), Registry()]
