"""C17 -- wire framing is exact and body reassembly is independent of chunking."""
import gzip as gzip_mod
import io
import itertools
import json
import shutil
import sys
import tempfile

from harness.core import pipeline, env
from harness.wire_support import support as S

PROP_ID = "C17"
MANIFEST_ENTRY = {
    "text": ("Theorems (Coq, closed under the global context) over a Gallina model of the byte-level framing: a concrete strict "
             "UTF-8 codec with a proved round trip; Content-Length/Content-Type of client requests, do_POST replies and CGI "
             "replies (exactly one of each, for every custom-header set); request target and scheme acceptance; client "
             "reassembly for every list of chunks and every read script, gzip included; the server's body loop for every "
             "chunk size and every script of short reads (repaired code; the pinned per-chunk decoding is refuted "
             "parametrically, finding F11). The model is checked against the real code on every run: codec vs CPython, "
             "every split point of small bodies through the real parser, do_POST over scripted short reads and real "
             "10 MiB + 1 bodies, bytes captured under the real http.client and by a raw socket peer, CGI with captured stdout."),
    "note": ("http.client / http.server line formatting, urlparse, gzip and socket delivery are modelled components "
             "(sampled, not verified); header names/values and URLs are ASCII; CGI encoding is the default UTF-8; "
             "requests carry no Content-Encoding."),
    "technique": "Coq proof over a hand-written executable model + differential correspondence check (vm_compute) + property oracle",
    "design_ref": "DESIGN.md 4/C17",
}
# line ranges of the anchored mechanisms in the REPAIRED tree (the F11 repair adds three lines to do_POST)
ANCHOR_RANGES = [("jsonrpclib/jsonrpc.py", 201, 235), ("jsonrpclib/jsonrpc.py", 388, 412), ("jsonrpclib/jsonrpc.py", 562, 604),
                 ("jsonrpclib/jsonrpc.py", 665, 673), ("jsonrpclib/utils.py", 79, 93),
                 ("jsonrpclib/SimpleJSONRPCServer.py", 476, 491), ("jsonrpclib/SimpleJSONRPCServer.py", 524, 535),
                 ("jsonrpclib/SimpleJSONRPCServer.py", 712, 728)]
RULE = ("streams: codec (boundary code points, surrogates, random strings; every single byte, lead x continuation boundary "
        "grid, truncations and mutations of valid encodings); feed (every split point, every pair of split points for short "
        "bodies, random multi-splits, empty chunks, of bodies <= 64 bytes through the real JSONParser/JSONTarget); parse "
        "(parse_response over scripted reads with 2/3/4-byte characters at every offset straddling the 1024-byte reads, "
        "gzip and corrupt gzip, plus a raw socket peer sending the response whole, cut, or one byte at a time); client "
        "(URL path x query x scheme x content type x custom headers x body, bytes captured under the real http.client and "
        "by a raw TCP / Unix socket peer); server (do_POST over fake rfile/wfile: bodies x every short-read script of a "
        "family x dispatcher outcome x content type; real 10 MiB + 1 bodies with a 2/3/4-byte character straddling the "
        "chunk boundary); cgi (handle_jsonrpc with captured stdout). Non-trivial: a multi-byte character is split by a "
        "read/chunk boundary, or the body is non-ASCII, or the URL has a query / empty path / unix scheme, or the scheme "
        "is rejected. Distinct by canonical hash of the case.")
TRUSTED = ["modelled, not verified: http.client (putrequest/putheader/endheaders/send line formatting), http.server "
           "(send_response/send_header/end_headers), urllib.parse.urlparse (the parsed components are the model's input), "
           "gzip (section variable with gunz (gz b) = Ok b; the real module's output is the model's input), kernel sockets",
           "CPython's UTF-8 codec is compared with the Gallina codec on generated strings only",
           "fake rfile/wfile, fake socket under the real http.client.HTTPConnection, raw recording socket peer (harness/wire_support)"]
ASSUMPTIONS = ["URLs, header names and values, content types are printable ASCII without CR/LF; no ';' parameters or '#' fragments",
               "requests carry no Content-Encoding header; CGI handler uses its default encoding UTF-8",
               "server reassembly theorem: every scripted read size is positive (an empty read is end of file) and the "
               "stream holds the declared Content-Length"]

BOUNDARY = [0, 0x7f, 0x80, 0x7ff, 0x800, 0xd7ff, 0xe000, 0xffff, 0x10000, 0x10ffff]
NEAR = [1, 0x41, 0x7e, 0x81, 0xe9, 0x3b1, 0x7fe, 0x801, 0x20ac, 0xd7fe, 0xe001, 0xfffd, 0xfffe, 0x10001, 0x1f600, 0x10fffe]
SURR = [0xd800, 0xdbff, 0xdc00, 0xdfff]
CHARS = ["é", "€", "\U0001f600"]           # 2, 3, 4 bytes
CTYPES = ["application/json-rpc", "application/json", "text/plain; charset=utf-8", "x/y"]
CHUNK = 10 * 1024 * 1024


def rand_text(rng, maxlen=12, surrogates=False):
    pool = BOUNDARY + NEAR + [0x61, 0x62, 0x7b, 0x22]
    if surrogates:
        pool = pool + SURR
    return "".join(chr(rng.choice(pool)) for _ in range(rng.randint(0, maxlen)))


def valid_utf8(b):
    try:
        return bytes(b).decode("utf-8")
    except UnicodeDecodeError:
        return None


def g_exn_name(name):
    return {"OSError": "EOS", "ValueError": "EValue", "TypeError": "EType"}.get(name, '(EOther "%s")' % name)


def exc_name(ex):
    """class name, with the IOError alias and subclasses of OSError folded the way the statement speaks"""
    if isinstance(ex, (UnicodeEncodeError, UnicodeDecodeError)):
        return type(ex).__name__
    if isinstance(ex, OSError):
        return "OSError"
    return type(ex).__name__


# ====================================================================== codec

class Codec(pipeline.Stream):
    name = "codec"
    model_imports = "Wire"
    case_type = "codec_case"
    check_fn = "codec_check"
    shard = 400

    def setup(self):
        import jsonrpclib.utils as U
        self.U = U

    def gen(self, tier, rng):
        cases = []
        for c in BOUNDARY + NEAR + SURR:
            cases.append(("enc", chr(c)))
        cases.append(("enc", ""))
        cases.append(("enc", "".join(chr(c) for c in BOUNDARY)))
        for a, b in itertools.product(BOUNDARY, repeat=2):
            cases.append(("enc", chr(a) + chr(b)))
        for _ in range(150 if tier == "quick" else 3000):
            cases.append(("enc", rand_text(rng, 12, surrogates=rng.random() < 0.15)))
        # pass-through branches: to_bytes of bytes, from_bytes of str
        for b in [b"", b"abc", "é".encode(), b"\xff\xc3"]:
            cases.append(("encb", b))
        for t in ["", "abc", "é€\U0001f600", "\ud800"]:
            cases.append(("decs", t))
        # decoding: valid encodings
        for c in BOUNDARY + NEAR:
            cases.append(("dec", chr(c).encode("utf-8")))
        # every single byte
        for b in range(256):
            cases.append(("dec", bytes([b])))
        # lead x second-byte boundary grid, tails filled with continuation bytes
        leads = [0x7f, 0x80, 0xbf, 0xc0, 0xc1, 0xc2, 0xdf, 0xe0, 0xe1, 0xec, 0xed, 0xee, 0xef, 0xf0, 0xf1, 0xf3, 0xf4, 0xf5, 0xf7, 0xf8, 0xff]
        seconds = [0x00, 0x7f, 0x80, 0x8f, 0x90, 0x9f, 0xa0, 0xbf, 0xc0, 0xff]
        for l, s2 in itertools.product(leads, seconds):
            for tail in ([], [0x80], [0xbf], [0x80, 0x80], [0xbf, 0xbf], [0x80, 0x7f], [0xc0, 0x80]):
                cases.append(("dec", bytes([l, s2] + tail)))
                if tier == "thorough":
                    cases.append(("dec", bytes([0x61, l, s2] + tail + [0x62])))
        # truncations and mutations of valid strings
        for _ in range(200 if tier == "quick" else 4000):
            b = bytearray(rand_text(rng, 8).encode("utf-8"))
            if b and rng.random() < 0.8:
                k = rng.randrange(len(b))
                op = rng.randrange(3)
                if op == 0:
                    del b[k]
                elif op == 1:
                    b[k] = rng.choice([0x80, 0xbf, 0xc0, 0xe0, 0xed, 0xf0, 0xf4, 0xff, 0x41, rng.randrange(256)])
                else:
                    b = b[:k]
            cases.append(("dec", bytes(b)))
        return cases

    def run_impl(self, case):
        op, x = case
        try:
            return ("ok", self.U.to_bytes(x) if op in ("enc", "encb") else self.U.from_bytes(x))
        except Exception as ex:   # noqa
            return ("raise", exc_name(ex))

    def oracle(self, case, obs):
        op, x = case
        if op == "enc" and not any(0xd800 <= ord(c) <= 0xdfff for c in x):
            if obs[0] != "ok" or not isinstance(obs[1], bytes):
                return ("C17:to_bytes-fails", "to_bytes(%r) -> %r" % (x, obs))
            try:
                back = self.U.from_bytes(obs[1])
            except Exception as ex:   # noqa
                back = ex
            if back != x:
                return ("C17:codec-round-trip", "from_bytes(to_bytes(%r)) = %r" % (x, back))
        return None

    def encode(self, case, obs):
        op, x = case
        if obs[0] == "ok" and not isinstance(obs[1], bytes if op in ("enc", "encb") else str):
            return "(CEnc [0]%N (Ok [1]%N))"          # wrong result type: a disagreement
        if op in ("enc", "encb"):
            o = "(Ok %s)" % S.g_bytes(obs[1]) if obs[0] == "ok" else "(Raise %s)" % g_exn_name(obs[1])
            return "(CEnc %s %s)" % (S.g_text(x), o) if op == "enc" else "(CEncB %s %s)" % (S.g_bytes(x), o)
        o = "(Ok %s)" % S.g_text(obs[1]) if obs[0] == "ok" else "(Raise %s)" % g_exn_name(obs[1])
        return "(CDec %s %s)" % (S.g_bytes(x), o) if op == "dec" else "(CDecS %s %s)" % (S.g_text(x), o)

    def nontrivial(self, case, obs):
        op, x = case
        return any(c > 127 for c in (x if op in ("dec", "encb") else map(ord, x)))

    def kind(self, case, obs):
        return "%s -> %s" % (case[0], "ok" if obs[0] == "ok" else obs[1])

    def describe(self, case, obs):
        return {"op": case[0], "input": self.to_replay(case)["x"], "outcome": obs[0],
                "value": (obs[1].hex() if isinstance(obs[1], bytes) else [ord(c) for c in obs[1]]) if obs[0] == "ok" else obs[1]}

    def to_replay(self, case):
        op, x = case
        return {"op": op, "x": [ord(c) for c in x] if op in ("enc", "decs") else x.hex()}

    def from_replay(self, j):
        return (j["op"], "".join(chr(c) for c in j["x"]) if j["op"] in ("enc", "decs") else bytes.fromhex(j["x"]))

    def shrink(self, case):
        op, x = case
        for i in range(len(x)):
            yield (op, x[:i] + x[i + 1:])


# ====================================================================== client reassembly through the real parser

FEED_BODIES = [
    b"", b"a", b'{"jsonrpc": "2.0", "result": 1, "id": 1}',
    '{"r": "é"}'.encode(), '"€é\U0001f600"'.encode(), "\U0001f600".encode(), "ééé".encode(),
    ('{"jsonrpc":"2.0","result":"' + "é€\U0001f600" * 3 + '","id":"x"}').encode(),
    "".join(chr(c) for c in BOUNDARY).encode(),
    b"a\xc3", b"\xc3(", b"ab\xe2\x82", b"\xed\xa0\x80", b"\xff", b"\xf0\x9f\x98",        # invalid as a whole
]


class Feed(pipeline.Stream):
    name = "feed"
    model_imports = "Wire"
    case_type = "list bytes * pydata"
    check_fn = "feed_check"
    shard = 300

    def setup(self):
        import jsonrpclib.jsonrpc as J
        import jsonrpclib.config as C
        self.J = J
        self.transport = J.Transport(C.Config())

    def gen(self, tier, rng):
        cases = [[]]
        for body in FEED_BODIES:
            n = len(body)
            cases.append([body])
            for i in range(n + 1):                       # every split point
                cases.append([body[:i], body[i:]])
            if n <= (16 if tier == "quick" else 40):    # every pair of split points
                for i in range(n + 1):
                    for j in range(i, n + 1):
                        cases.append([body[:i], body[i:j], body[j:]])
            cases.append([bytes([b]) for b in body])     # one byte at a time
        for _ in range(200 if tier == "quick" else 4000):
            body = rng.choice(FEED_BODIES[2:10]) if rng.random() < 0.6 else rand_text(rng, 20).encode()
            if rng.random() < 0.15 and body:
                b = bytearray(body)
                b[rng.randrange(len(b))] = rng.choice([0x80, 0xc3, 0xe2, 0xf0, 0xff])
                body = bytes(b)
            body = body[:64]
            k = rng.randint(0, 6)
            cases.append(S.cut(body, [rng.randint(0, len(body)) for _ in range(k)]) + ([b""] if rng.random() < 0.1 else []))
        return cases

    def run_impl(self, case):
        try:
            p, u = self.transport.getparser()
            for c in case:
                p.feed(c)
            p.close()
            r = u.close()
        except Exception as ex:   # noqa
            return ("raise", exc_name(ex))
        return ("bytes", r) if isinstance(r, bytes) else ("str", r)

    def oracle(self, case, obs):
        whole = b"".join(case)
        ref = valid_utf8(whole)
        if ref is not None and (obs[0] != "str" or obs[1] != ref):
            return ("C17:client-reassembly", "chunks %r reassembled to %s %r, the whole decodes to %r" % (case, obs[0], obs[1], ref))
        return None

    def encode(self, case, obs):
        if obs[0] == "raise":
            o = "(PBytes [255]%N)" if valid_utf8(b"".join(case)) is not None else "(PStr [0]%N)"     # the model never raises: disagree
        else:
            o = "(PStr %s)" % S.g_text(obs[1]) if obs[0] == "str" else "(PBytes %s)" % S.g_bytes(obs[1])
        return "([%s], %s)" % ("; ".join(S.g_bytes(c) for c in case), o)

    def _splits_char(self, case):
        whole = b"".join(case)
        pos = 0
        for c in case[:-1]:
            pos += len(c)
            if 0 < pos < len(whole) and (whole[pos] & 0xc0) == 0x80:
                return True
        return False

    def nontrivial(self, case, obs):
        return self._splits_char(case)

    def kind(self, case, obs):
        return "%d chunks / %s / %s" % (min(len(case), 4), "splits a character" if self._splits_char(case) else "clean", obs[0])

    def describe(self, case, obs):
        return {"chunks": [c.hex() for c in case], "result": obs[0], "value": obs[1].hex() if obs[0] == "bytes" else obs[1]}

    def masked(self, case, obs):
        return False

    def to_replay(self, case):
        return [c.hex() for c in case]

    def from_replay(self, j):
        return [bytes.fromhex(c) for c in j]

    def shrink(self, case):
        for i in range(len(case) - 1):
            yield case[:i] + [case[i] + case[i + 1]] + case[i + 2:]
        whole = b"".join(case)
        for i in range(len(whole)):
            w = whole[:i] + whole[i + 1:]
            yield [w[:len(case[0])], w[len(case[0]):]]


# ====================================================================== parse_response (scripted reads, gzip, socket peer)

def straddle_bodies(tier):
    out = []
    for ch in CHARS:
        k = len(ch.encode())
        for boundary in ([1024] if tier == "quick" else [1024, 2048]):
            for off in range(1, k):                   # the character starts `off` bytes before the boundary
                out.append("a" * (boundary - off) + ch + "b" * 3)
    return out


class Parse(pipeline.Stream):
    name = "parse"
    model_imports = "Wire"
    case_type = "res bytes * list N * res pydata"
    check_fn = "parse_check"
    shard = 60

    def setup(self):
        import jsonrpclib.jsonrpc as J
        import jsonrpclib.config as C
        self.J = J
        self.cfg = C.Config()

    def gen(self, tier, rng):
        cases = []
        texts = ["", "a", '{"result": "é"}', "€" * 5, "x" * 1023, "x" * 1024, "x" * 1025, "y" * 4096,
                 "é" * 1024, "\U0001f600" * 300 + "z"] + straddle_bodies(tier)
        for t in texts:
            b = t.encode()
            cases.append({"mode": "fake", "body": b, "gzip": False, "sizes": []})
            cases.append({"mode": "fake", "body": b, "gzip": True, "sizes": []})
            if len(b) > 1:
                cases.append({"mode": "fake", "body": b, "gzip": False, "sizes": [1023, 1, 1024, 2]})
        # short reads cutting small multi-byte bodies everywhere
        small = ('{"r":"' + "é€\U0001f600" + '"}').encode()
        for i in range(1, len(small)):
            cases.append({"mode": "fake", "body": small, "gzip": False, "sizes": [i]})
        cases.append({"mode": "fake", "body": small, "gzip": False, "sizes": [1] * len(small)})
        cases.append({"mode": "fake", "body": small, "gzip": False, "sizes": [0, 0, 2000, 1]})
        # not valid UTF-8 / not gzip
        cases.append({"mode": "fake", "body": b"ab\xc3", "gzip": False, "sizes": [2]})
        cases.append({"mode": "fake", "body": b"ab\xc3", "gzip": True, "sizes": []})
        cases.append({"mode": "fake", "body": b"plainly not gzip", "gzip": "corrupt", "sizes": []})
        # real sockets: whole, cut inside characters, one byte at a time; identity and gzip
        sock_texts = ['{"jsonrpc": "2.0", "result": "é€\U0001f600", "id": 1}', "\U0001f600" * 4, "a" * 1023 + "é" + "bb"]
        for t in sock_texts:
            b = t.encode()
            cases.append({"mode": "sock", "body": b, "gzip": False, "cuts": []})
            cases.append({"mode": "sock", "body": b, "gzip": True, "cuts": []})
            if len(b) <= 64:
                cases.append({"mode": "sock", "body": b, "gzip": False, "cuts": "bytewise"})
                cases.append({"mode": "sock", "body": b, "gzip": True, "cuts": "bytewise"})
            cases.append({"mode": "sock", "body": b, "gzip": False, "cuts": [len(b) - 3, len(b) - 1]})
        n_rand = 30 if tier == "quick" else 400
        for _ in range(n_rand):
            t = rand_text(rng, 30) * rng.choice([1, 1, 40])
            b = t.encode()
            mode = "sock" if rng.random() < (0.2 if tier == "quick" else 0.1) else "fake"
            c = {"mode": mode, "body": b, "gzip": rng.random() < 0.4}
            if mode == "fake":
                c["sizes"] = [rng.choice([0, 1, 2, 3, 5, 1023, 1024, 5000]) for _ in range(rng.randint(0, 8))]
            else:
                c["cuts"] = [rng.randint(0, len(b)) for _ in range(rng.randint(0, 4))]
            cases.append(c)
        return cases

    def _wire(self, case):
        if case["gzip"] == "corrupt":
            return case["body"]
        return gzip_mod.compress(case["body"]) if case["gzip"] else case["body"]

    def run_impl(self, case):
        J = self.J
        t = J.Transport(self.cfg)
        wire = self._wire(case)
        try:
            if case["mode"] == "fake":
                r = t.parse_response(S.FakeResponse(wire, case["sizes"], bool(case["gzip"])))
            else:
                resp = S.http_response(wire, bool(case["gzip"]))
                head_len = len(resp) - len(wire)
                if case["cuts"] == "bytewise":
                    pieces = [resp[:head_len]] + [bytes([b]) for b in wire]
                else:
                    pieces = S.cut(resp, [head_len + c for c in case["cuts"]])
                peer = S.RecordingPeer("tcp")
                peer.start(pieces)
                try:
                    r = t.request("127.0.0.1:%d" % peer.port, "/", "{}")
                finally:
                    t.close()
                    peer.finish()
            return ("ok", ("bytes", r) if isinstance(r, bytes) else ("str", r))
        except Exception as ex:   # noqa
            return ("raise", exc_name(ex))

    def oracle(self, case, obs):
        if case["gzip"] == "corrupt":
            return None
        ref = valid_utf8(case["body"])
        if ref is not None and obs != ("ok", ("str", ref)):
            return ("C17:response-reassembly%s" % ("-gzip" if case["gzip"] else ""),
                    "response body of %d bytes (%s, %s) parsed to %r instead of the decoding of the whole" % (
                        len(case["body"]), case["mode"], "gzip" if case["gzip"] else "identity", obs if obs[0] == "raise" else obs[1][1][:60]))
        return None

    def encode(self, case, obs):
        if case["gzip"] == "corrupt":
            stream = "(Raise EOS)"
        else:
            # what the gzip layer (a modelled component) delivers: the real module's output
            plain = gzip_mod.decompress(self._wire(case)) if case["gzip"] else case["body"]
            stream = "(Ok %s)" % S.g_bytes(plain)
        if obs[0] == "ok":
            k, v = obs[1]
            o = "(Ok (PStr %s))" % S.g_text(v) if k == "str" else "(Ok (PBytes %s))" % S.g_bytes(v)
        else:
            o = "(Raise %s)" % g_exn_name(obs[1])
        sizes = case.get("sizes", [])
        return "(%s, [%s]%%N, %s)" % (stream, ";".join(map(str, sizes)), o)

    def nontrivial(self, case, obs):
        return any(b > 127 for b in case["body"])

    def kind(self, case, obs):
        n = len(case["body"])
        return "%s / %s / %s / %s" % (case["mode"], "gzip" if case["gzip"] else "identity",
                                      "<=64B" if n <= 64 else "<=1024B" if n <= 1024 else ">1024B",
                                      "raise " + obs[1] if obs[0] == "raise" else obs[1][0])

    def describe(self, case, obs):
        d = self.to_replay(case)
        d["body"] = d["body"][:120]
        d["outcome"] = obs[0] if obs[0] == "raise" else obs[1][0]
        return d

    def to_replay(self, case):
        d = dict(case)
        d["body"] = case["body"].hex()
        return d

    def from_replay(self, j):
        d = dict(j)
        d["body"] = bytes.fromhex(j["body"])
        return d

    def shrink(self, case):
        b = case["body"]
        if len(b) > 8:
            for cand in (b[len(b) // 2:], b[:len(b) // 2]):
                yield dict(case, body=cand)
        if case.get("sizes"):
            yield dict(case, sizes=case["sizes"][:-1])


# ====================================================================== client requests

PATHS = ["", "/", "/RPC2", "/a/b%20c/d", "/x.php", "//double", "/a%2Fb", "/p=1&q", "/~user/rpc"]
QUERIES = ["", "a=1", "a=1&b=2", "q=%C3%A9%20x", "=", "&", "a==b&&c", "x=%3F%26", "?", "a=1?b=2", "/"]
SCHEMES = ["http", "https", "unix+http", "unix+https", "ftp", "ws", "", "file", "unix", "unix+", "unix+ftp", "unix+unix+http",
           "httpx", "http+unix", "HTTP", "Unix+Http", "gopher", "h"]
CUSTOMS = [{}, {"X-Test": "1"}, {"Content-Length": "999"}, {"content-type": "text/evil", "X-A": "b"},
           {"CONTENT-LENGTH": "1", "Content-Type": "a/b", "User-Agent": "me"}, {"Accept": "x", "content-LENGTH": "0"}]
BODIES = ["", "{}", '{"jsonrpc": "2.0", "method": "m", "params": [1], "id": 1}', '{"p": "é"}', "€\U0001f600" * 3,
          "a" * 1025, "\ud800"]


def make_url(scheme, path, query, netloc):
    u = (scheme + ":" if scheme else "") + "//" + netloc + path
    if query:
        u += "?" + query
    return u


class Client(pipeline.Stream):
    name = "client"
    model_imports = "Wire"
    case_type = "string * string * string * string * string * bool * list header * pydata * client_obs"
    check_fn = "client_check"
    shard = 250

    def setup(self):
        import jsonrpclib.jsonrpc as J
        import jsonrpclib.config as C
        self.J = J
        self.C = C
        self.tmp = tempfile.mkdtemp(prefix="c17-")

    def teardown(self):
        shutil.rmtree(self.tmp, ignore_errors=True)

    def gen(self, tier, rng):
        cases = []

        def add(mode, scheme, path, query, ct=CTYPES[0], custom=None, body=BODIES[2], transport=False):
            cases.append({"mode": mode, "scheme": scheme, "path": path, "query": query, "ct": ct,
                          "custom": custom or {}, "body": body, "transport": transport})
        # schemes x caller-supplied transport x (path, query)
        for scheme, tr in itertools.product(SCHEMES, [False, True]):
            for path, query in [("", ""), ("/p", "a=1"), ("/tmp/x.sock", "")]:
                add("conn", scheme, path, query, transport=tr)
        # paths x queries for the accepted schemes
        for scheme in ["http", "https", "unix+http"]:
            for path, query in itertools.product(PATHS, QUERIES):
                if scheme != "http" and tier == "quick" and (len(cases) % 3):
                    continue
                add("conn", scheme, path, query)
        add("conn", "unix+https", "/s.sock", "q=1", transport=True)
        # framing: content types x custom headers x bodies
        for ct, custom, body in itertools.product(CTYPES, CUSTOMS, BODIES):
            if tier == "quick" and (len(cases) % 2):
                continue
            add("conn", "http", "/", "", ct=ct, custom=custom, body=body)
        # real sockets
        for path, query, body, ct in [("", "", BODIES[2], CTYPES[0]), ("/RPC2", "a=1&b=%20", BODIES[3], CTYPES[1]),
                                      ("/a/b", "", BODIES[4], CTYPES[2]), ("/", "x", BODIES[5], CTYPES[3]), ("/e", "", "", CTYPES[0])]:
            add("tcp", "http", path, query, ct=ct, body=body, custom={"Content-Length": "3"})
            add("unix", "unix+http", "<sock>", query, ct=ct, body=body)
        for _ in range(40 if tier == "quick" else 1500):
            mode = rng.choice(["conn"] * 8 + ["tcp", "unix"]) if tier == "quick" else rng.choice(["conn"] * 20 + ["tcp", "unix"])
            scheme = {"tcp": "http", "unix": "unix+http"}.get(mode) or rng.choice(["http", "https", "unix+http", "unix+https"] + SCHEMES)
            path = "<sock>" if mode == "unix" else rng.choice(PATHS + ["/" + "".join(rng.choice("ab/%20._-~=&") for _ in range(rng.randint(1, 8)))])
            query = rng.choice(QUERIES + ["".join(rng.choice("ab=&%3D+/?") for _ in range(rng.randint(1, 8)))])
            body = rng.choice(BODIES[:6] + [rand_text(rng, 10)])
            add(mode, scheme, path, query, ct=rng.choice(CTYPES), custom=rng.choice(CUSTOMS), body=body,
                transport=(mode == "conn" and rng.random() < 0.3))
        return cases

    # ---- run
    OKRESP = b'{"jsonrpc": "2.0", "result": 1, "id": 1}'

    def run_impl(self, case):
        J = self.J
        # in a third of the cases the content type is configured AFTER the proxy (and its transport) exist: what is
        # declared is the configuration's value when the message is emitted
        late = (len(case["body"]) + len(case["ct"]) + len(case["path"])) % 3 == 0
        cfg = self.C.Config(content_type=("application/x-set-before" if late else case["ct"]), user_agent="verif-agent")
        mode = case["mode"]
        peer = None
        path = case["path"]
        netloc = "host.example:80"
        if mode == "tcp":
            peer = S.RecordingPeer("tcp")
            netloc = "127.0.0.1:%d" % peer.port
        elif mode == "unix":
            peer = S.RecordingPeer("unix", self.tmp)
            netloc = ""
            path = peer.path
        elif case["scheme"].lower().startswith("unix+"):
            netloc = ""
        url = make_url(case["scheme"], path, case["query"], netloc)
        try:
            try:
                proxy = J.ServerProxy(url, config=cfg, headers=dict(case["custom"]),
                                      transport=(J.Transport(cfg) if case["transport"] else None))
            except Exception as ex:   # noqa
                return ("rejected", exc_name(ex))
            t = proxy._ServerProxy__transport
            if late:
                cfg.content_type = case["ct"]
            conn = None
            if peer is None:
                conn = S.CapturingConnection(S.http_response(self.OKRESP))
                t.make_connection = lambda host, conn=conn: conn
            else:
                peer.start([S.http_response(self.OKRESP)])
            err = None
            try:
                proxy._run_request(case["body"])
            except Exception as ex:   # noqa
                err = ex
                if peer is not None:
                    peer.unblock()
            finally:
                try:
                    t.close()
                except Exception:   # noqa
                    pass
            raw = conn.captured() if peer is None else peer.finish()
            peer = None
            if err is not None and not raw:
                return ("send-raise", exc_name(err))
            start, headers, body = S.split_http(raw)
            parts = start.split(" ")
            target = parts[1] if len(parts) == 3 else start
            ct, cl = S.framing_of(headers)
            return ("sent", target, ct, cl, body, exc_name(err) if err is not None else None)
        finally:
            if peer is not None:
                peer.lsock.close()

    # ---- oracle, from the statement
    def oracle(self, case, obs):
        scheme = case["scheme"].lower()           # URL schemes are case-insensitive (RFC 3986)
        ok_scheme = scheme in ("http", "https", "unix+http") or (scheme == "unix+https" and case["transport"])
        if not ok_scheme:
            if obs[0] != "rejected":
                return ("C17:unsupported-scheme-accepted", "scheme %r was not rejected when the proxy was built" % case["scheme"])
            if obs[1] != "OSError":
                return ("C17:unsupported-scheme-wrong-exception", "scheme %r raised %s, not IOError" % (case["scheme"], obs[1]))
            return None
        if obs[0] == "rejected":
            return ("C17:supported-scheme-rejected", "scheme %r (transport supplied: %s) raised %s" % (case["scheme"], case["transport"], obs[1]))
        if any(0xd800 <= ord(c) <= 0xdfff for c in case["body"]):
            return None                                   # not encodable: the property is silent
        if obs[0] != "sent":
            return ("C17:request-not-sent", "sending raised %s" % obs[1])
        _, target, ct, cl, body, err = obs
        if scheme.startswith("unix+"):
            base = "/"
        else:
            base = case["path"] or "/"
        want = base + ("?" + case["query"] if case["query"] else "")
        if target != want:
            return ("C17:request-target", "URL path %r query %r (%s): target %r, expected %r" % (case["path"], case["query"], scheme, target, want))
        sent = case["body"].encode("utf-8")
        if body != sent:
            return ("C17:request-body-bytes", "%d body bytes on the wire, the body encodes to %d bytes" % (len(body), len(sent)))
        if len(cl) != 1 or not cl[0].isdigit() or int(cl[0]) != len(body):
            return ("C17:request-content-length", "Content-Length values %r for a body of %d bytes" % (cl, len(body)))
        if ct != [case["ct"]]:
            return ("C17:request-content-type", "Content-Type values %r, configured %r" % (ct, case["ct"]))
        return None

    def masked(self, case, obs):
        return False

    def encode(self, case, obs):
        from urllib.parse import urlparse
        # urlparse is a modelled component: its components are the model's input
        su = urlparse(make_url(case["scheme"], "/SOCK" if case["path"] == "<sock>" else case["path"], case["query"],
                               "" if case["scheme"].lower().startswith("unix+") else "host.example:80"))
        path = su.path
        if obs[0] == "rejected":
            o = "CRejected"
        elif obs[0] == "send-raise":
            o = "(CSendRaise %s)" % g_exn_name(obs[1])
        else:
            _, target, ct, cl, body, err = obs
            o = "(CSent %s ([%s], [%s]) %s)" % (S.g_string(target), "; ".join(S.g_string(x) for x in ct),
                                                "; ".join(S.g_string(x) for x in cl), S.g_bytes(body))
        custom = "[%s]" % "; ".join("(%s, %s)" % (S.g_string(k), S.g_string(v)) for k, v in case["custom"].items())
        return "(%s, %s, %s, %s, %s, %s, %s, (PStr %s), %s)" % (
            S.g_string(case["ct"]), S.g_string("verif-agent"), S.g_string(su.scheme), S.g_string(path), S.g_string(su.query),
            "true" if case["transport"] else "false", custom, S.g_text(case["body"]), o)

    def nontrivial(self, case, obs):
        return bool(case["query"]) or not case["path"] or case["scheme"] != "http" or any(ord(c) > 127 for c in case["body"]) or bool(case["custom"])

    def kind(self, case, obs):
        return "%s / %s / %s" % (case["mode"], case["scheme"] if case["scheme"] in ("http", "https", "unix+http", "unix+https") else "other scheme",
                                 obs[0] if obs[0] != "sent" else ("sent" + (" non-ascii" if any(ord(c) > 127 for c in case["body"]) else "")))

    def describe(self, case, obs):
        d = self.to_replay(case)
        d["body"] = d["body"][:40]
        if obs[0] == "sent":
            d["observed"] = {"target": obs[1], "content-type": obs[2], "content-length": obs[3], "body_bytes": len(obs[4]), "error": obs[5]}
        else:
            d["observed"] = list(obs)
        return d

    def to_replay(self, case):
        d = dict(case)
        d["body"] = [ord(c) for c in case["body"]]
        return d

    def from_replay(self, j):
        d = dict(j)
        d["body"] = "".join(chr(c) for c in j["body"])
        return d

    def shrink(self, case):
        if case["custom"]:
            yield dict(case, custom={})
        if len(case["body"]) > 2:
            yield dict(case, body=case["body"][:len(case["body"]) // 2])
        if case["mode"] != "conn" and case["path"] != "<sock>":
            yield dict(case, mode="conn")
        if case["ct"] != CTYPES[0]:
            yield dict(case, ct=CTYPES[0])


# ====================================================================== server: do_POST over fake files

class FakeServer(object):
    logRequests = False

    def __init__(self, cfg, disp):
        self.json_config = cfg
        self.disp = disp
        self.seen = []

    def _marshaled_dispatch(self, data, dispatch_method=None, path=None):
        self.seen.append(data)
        if self.disp[0] == "raise":
            raise RuntimeError("scripted dispatcher failure")
        if self.disp[0] == "none":
            return None
        return self.disp[1]


_SMALL = {}


def handler_class(mod, M):
    """The real request handler class; for M != None a subclass whose do_POST is the real function's
    code object with the single constant 10485760 (max_chunk_size, a local constant of do_POST) replaced
    by M, so that the real loop crosses chunk boundaries on small bodies.  None when the constant is not
    found (the code was restructured): the small-chunk cases are then skipped, not failed."""
    H = mod.SimpleJSONRPCRequestHandler
    if M is None:
        return H
    key = (id(H), M)
    if key not in _SMALL:
        import types
        f = H.do_POST
        code = f.__code__
        if sum(1 for c in code.co_consts if type(c) is int and c == CHUNK) != 1:
            _SMALL[key] = None
        else:
            consts = tuple(M if (type(c) is int and c == CHUNK) else c for c in code.co_consts)
            g = types.FunctionType(code.replace(co_consts=consts), f.__globals__, f.__name__, f.__defaults__, f.__closure__)
            _SMALL[key] = type("SmallChunkHandler%d" % M, (H,), {"do_POST": g})
    return _SMALL[key]


class _NoPool(object):
    def enqueue(self, *a, **k):
        raise AssertionError("no request is queued in this stream")

    def stop(self):
        pass


def real_server(mod, host, cfg, disp):
    """a real server object of the library (never bound to a port) whose dispatch entry point is the scripted one: what
    do_POST reads from `self.server` (the configuration above all) is what the constructor really stored there"""
    kw = dict(logRequests=False, bind_and_activate=False, config=cfg)
    if host == "pooled":
        srv = mod.PooledJSONRPCServer(("127.0.0.1", 0), thread_pool=_NoPool(), **kw)
    else:
        srv = mod.SimpleJSONRPCServer(("127.0.0.1", 0), **kw)
    fake = FakeServer(cfg, disp)
    srv._marshaled_dispatch = fake._marshaled_dispatch
    srv.seen = fake.seen
    return srv


def run_do_post(mod, cfg, body, clen, caps, disp, M=None, host=None):
    import http.client
    H = handler_class(mod, M)
    h = H.__new__(H)
    srv = FakeServer(cfg, disp) if not host else real_server(mod, host, cfg, disp)
    try:
        return _run_do_post(h, srv, body, clen, caps)
    finally:
        if host:
            srv.server_close()


def _run_do_post(h, srv, body, clen, caps):
    import http.client
    h.server = srv
    h.headers = http.client.parse_headers(io.BytesIO(b"Content-Length: %d\r\n\r\n" % clen))
    h.path = "/"
    h.command = "POST"
    h.request_version = "HTTP/1.1"
    h.requestline = "POST / HTTP/1.1"
    h.client_address = ("127.0.0.1", 0)
    h.close_connection = True
    h.rfile = S.FakeRFile(body, caps)
    h.wfile = io.BytesIO()
    h.do_POST()
    raw = h.wfile.getvalue()
    start, headers, rbody = S.split_http(raw)
    status = int(start.split(" ")[1])
    ct, cl = S.framing_of(headers)
    return srv.seen, status, ct, cl, rbody


SERVER_BODIES = ["", "a", '{"jsonrpc": "2.0", "method": "m", "params": ["é"], "id": 1}', "aé", "€", "\U0001f600",
                 "abé€\U0001f600cd", "é" * 5]


class Server(pipeline.Stream):
    name = "server"
    model_imports = "Wire"
    case_type = "N * string * N * bytes * list N * disp * text * option server_obs"
    check_fn = "server_check"
    shard = 300

    def setup(self):
        import jsonrpclib.SimpleJSONRPCServer as M
        import jsonrpclib.config as C
        self.M = M
        self.C = C

    def gen(self, tier, rng):
        cases = []

        def add(body, caps, clen=None, ct=CTYPES[0], disp=("text", '{"jsonrpc": "2.0", "result": "é", "id": 1}'), M=None, host=None):
            b = body if isinstance(body, bytes) else body.encode()
            if M is not None and handler_class(self.M, M) is None:
                return
            cases.append({"body": b, "clen": len(b) if clen is None else clen, "caps": list(caps), "ct": ct, "disp": disp, "M": M,
                          "host": host})
        # the real loop with the chunk-size constant replaced by a small one: every body x chunk size
        for t in SERVER_BODIES:
            for M in (1, 2, 3, 4, 5, 8):
                add(t, [], M=M)
                add(t, [3, 1], M=M)
        add("aébc", [], clen=3, M=2)
        add(b"a\xc3", [], M=1)
        for t in SERVER_BODIES:
            n = len(t.encode())
            add(t, [])
            for i in range(1, n):                       # one short read of every size, then full reads
                add(t, [i])
            add(t, [1] * n)                             # one byte at a time
            if n <= 12:
                for i in range(1, n):
                    for j in range(1, n - i):
                        add(t, [i, j])
        # dispatcher outcomes x content types (reply framing), multi-byte replies
        for ct in CTYPES:
            for disp in [("text", ""), ("text", "{}"), ("text", "é€\U0001f600"), ("text", "r" * 300 + "é"), ("none",), ("raise",)]:
                add(SERVER_BODIES[2], [5], ct=ct, disp=disp)
                # the same behind the library's real server objects (plain and thread-pooled) built with this configuration
                add(SERVER_BODIES[2], [5], ct=ct, disp=disp, host="simple")
                add(SERVER_BODIES[2], [], ct=ct, disp=disp, host="pooled")
        # bodies that are not UTF-8, declared lengths shorter / longer than the stream, end of file in the middle
        add(b"ab\xc3", [])
        add(b"\xc3(", [1])
        add(b"\xff", [])
        add("aébc", [], clen=3)
        add("aébc", [2], clen=3)
        add("aébc", [], clen=2)
        add("aé", [], clen=10)
        add("aé", [1, 0], clen=3)
        add("abc", [0])
        n_rand = 150 if tier == "quick" else 4000
        for _ in range(n_rand):
            t = rng.choice(SERVER_BODIES[2:]) if rng.random() < 0.5 else rand_text(rng, 16)
            b = t.encode()
            if rng.random() < 0.1 and b:
                bb = bytearray(b)
                bb[rng.randrange(len(bb))] = rng.choice([0x80, 0xc3, 0xe2, 0xf0, 0xff])
                b = bytes(bb)
            caps = [rng.choice([1, 1, 2, 3, 4, 7, 100] + ([0] if rng.random() < 0.05 else [])) for _ in range(rng.randint(0, 10))]
            clen = len(b) if rng.random() < 0.9 else max(0, len(b) + rng.choice([-2, -1, 1, 5]))
            disp = rng.choice([("text", rand_text(rng, 12)), ("text", '{"id": 1}'), ("none",), ("raise",)])
            add(b, caps, clen=clen, ct=rng.choice(CTYPES), disp=disp, M=rng.choice([None, None, 1, 2, 3, 4, 6]))
        return cases

    def run_impl(self, case):
        cfg = self.C.Config(content_type=case["ct"])
        try:
            seen, status, ct, cl, rbody = run_do_post(self.M, cfg, case["body"], case["clen"], case["caps"], case["disp"], case.get("M"),
                                                      case.get("host"))
        except Exception as ex:   # noqa
            return ("raise", exc_name(ex))
        return ("reply", seen, status, ct, cl, rbody)

    def oracle(self, case, obs):
        if obs[0] != "reply":
            if case["disp"][0] == "text" and any(0xd800 <= ord(c) <= 0xdfff for c in case["disp"][1]):
                return None                               # reply text that cannot be encoded: the property is silent
            return ("C17:do_POST-raises", "do_POST raised %s" % obs[1])
        _, seen, status, ct, cl, rbody = obs
        if len(cl) != 1 or not cl[0].isdigit() or int(cl[0]) != len(rbody):
            return ("C17:reply-content-length", "status %d: Content-Length values %r for a reply body of %d bytes" % (status, cl, len(rbody)))
        if ct != [case["ct"]]:
            return ("C17:reply-content-type", "Content-Type values %r, configured %r" % (ct, case["ct"]))
        b, clen, caps = case["body"], case["clen"], case["caps"]
        if clen <= len(b) and all(c > 0 for c in caps):
            ref = valid_utf8(b[:clen])
            if ref is not None:
                if seen != [ref]:
                    how = "short reads %r" % caps if caps else "full reads"
                    if case.get("M"):
                        how += " with the chunk-size constant set to %d" % case["M"]
                    return ("C17:server-reassembly-short-read" if caps else "C17:server-reassembly",
                            "body of %d valid UTF-8 bytes read by %s: dispatcher saw %r (status %d), the whole decodes to %r" % (
                                clen, how, seen, status, ref))
                if case["disp"][0] != "raise" and status != 200:
                    return ("C17:server-status", "status %d for a valid body" % status)
                if case["disp"][0] == "text" and not any(0xd800 <= ord(c) <= 0xdfff for c in case["disp"][1]):
                    if rbody != case["disp"][1].encode("utf-8"):
                        return ("C17:reply-body-bytes", "reply bytes differ from the encoding of the dispatcher's reply")
        return None

    def encode(self, case, obs):
        if obs[0] != "reply":
            o = "None"
            fault = ""
        else:
            _, seen, status, ct, cl, rbody = obs
            if len(seen) > 1:
                return None
            fault = rbody.decode("utf-8", "replace") if status == 500 else ""
            o = "(Some (%s, %d%%N, ([%s], [%s]), %s))" % (
                "(Some %s)" % S.g_text(seen[0]) if seen else "None", status,
                "; ".join(S.g_string(x) for x in ct), "; ".join(S.g_string(x) for x in cl), S.g_bytes(rbody))
        d = case["disp"]
        disp = "DNone" if d[0] == "none" else "DRaise" if d[0] == "raise" else "(DText %s)" % S.g_text(d[1])
        return "(%s, %s, %d%%N, %s, [%s]%%N, %s, %s, %s)" % (
            "%d%%N" % case["M"] if case.get("M") else "max_chunk_size", S.g_string(case["ct"]), case["clen"], S.g_bytes(case["body"]), ";".join(map(str, case["caps"])), disp, S.g_text(fault), o)

    def _splits_char(self, case):
        # replay the read sizes: min(remaining, M, scripted size)
        b, pos, caps = case["body"], 0, list(case["caps"])
        rem, M = case["clen"], case.get("M") or CHUNK
        while rem > 0 and pos < len(b):
            n = min(rem, M)
            if caps:
                n = min(n, caps.pop(0))
            n = min(n, len(b) - pos)
            if n <= 0:
                break
            pos += n
            rem -= n
            if rem > 0 and pos < len(b) and (b[pos] & 0xc0) == 0x80:
                return True
        return False

    def nontrivial(self, case, obs):
        return self._splits_char(case) or any(x > 127 for x in case["body"])

    def kind(self, case, obs):
        if obs[0] != "reply":
            return "raise"
        return "%s%s%s / dispatcher %s / status %d" % ("%s server object / " % case["host"] if case.get("host") else "",
                                                       "small chunk constant / " if case.get("M") else "",
                                                     "a read splits a character" if self._splits_char(case) else
                                                     "short reads" if case["caps"] else "full reads", case["disp"][0], obs[2])

    def describe(self, case, obs):
        d = self.to_replay(case)
        if obs[0] == "reply":
            d["observed"] = {"dispatcher_saw": obs[1], "status": obs[2], "content-type": obs[3], "content-length": obs[4], "reply_bytes": len(obs[5])}
        else:
            d["observed"] = list(obs)
        return d

    def to_replay(self, case):
        return {"body": case["body"].hex(), "clen": case["clen"], "caps": case["caps"], "ct": case["ct"], "disp": list(case["disp"]),
                "M": case.get("M"), "host": case.get("host")}

    def from_replay(self, j):
        return {"body": bytes.fromhex(j["body"]), "clen": j["clen"], "caps": j["caps"], "ct": j["ct"], "disp": tuple(j["disp"]),
                "M": j.get("M"), "host": j.get("host")}

    def shrink(self, case):
        if case["disp"] != ("text", "{}"):
            yield dict(case, disp=("text", "{}"))
        if case["ct"] != CTYPES[0]:
            yield dict(case, ct=CTYPES[0])
        caps = case["caps"]
        for i in range(len(caps)):
            yield dict(case, caps=caps[:i] + caps[i + 1:])
        b = case["body"]
        t = valid_utf8(b)
        if t is not None and case["clen"] == len(b):
            for i in range(len(t)):
                nb = (t[:i] + t[i + 1:]).encode()
                yield dict(case, body=nb, clen=len(nb))


class ServerBig(pipeline.Stream):
    """Real chunk-size crossings: bodies of about 10 MiB described by construction
    ('a' * pre + one character + 'b' * post), so replays stay small."""
    name = "server_big"
    model_imports = "Wire"
    case_type = "N * N * N * N * list N * bool"
    check_fn = "server_big_check"
    shard = 1

    def setup(self):
        import jsonrpclib.SimpleJSONRPCServer as M
        import jsonrpclib.config as C
        self.M = M
        self.C = C

    def gen(self, tier, rng):
        cases = []
        for ch in CHARS:
            k = len(ch.encode())
            offs = [1] if tier == "quick" else list(range(0, k + 1))
            for off in offs:                              # the character starts `off` bytes before the boundary
                cases.append({"pre": CHUNK - off, "ch": ord(ch), "post": 1 if off else 0, "caps": [], "coq": tier == "thorough" and off in (1, k)})
        if tier == "thorough":
            cases.append({"pre": CHUNK - 1, "ch": 0x61, "post": 0, "caps": [], "coq": False})        # exactly 10 MiB, ASCII
            cases.append({"pre": 2 * CHUNK - 2, "ch": 0x20ac, "post": 5, "caps": [], "coq": False})  # second boundary
            cases.append({"pre": CHUNK - 1, "ch": 0xe9, "post": 3, "caps": [CHUNK - 2, 2, 1], "coq": False})
        return cases

    def _body(self, case):
        return "a" * case["pre"] + chr(case["ch"]) + "b" * case["post"]

    def run_impl(self, case):
        text = self._body(case)
        b = text.encode("utf-8")
        cfg = self.C.Config()
        try:
            seen, status, ct, cl, rbody = run_do_post(self.M, cfg, b, len(b), case["caps"], ("text", "{}"))
        except Exception as ex:   # noqa
            return ("raise", exc_name(ex))
        return ("reply", seen == [text], status, len(b), cl, len(rbody))

    def oracle(self, case, obs):
        if obs[0] != "reply":
            return ("C17:do_POST-raises", "do_POST raised %s" % obs[1])
        _, seen_ok, status, n, cl, rlen = obs
        if not seen_ok or status != 200:
            return ("C17:server-reassembly-chunk-boundary",
                    "body of %d bytes = 'a' * %d + U+%04X + 'b' * %d (valid UTF-8, the character straddles the %d-byte read chunk): "
                    "status %d, dispatcher %s the text" % (n, case["pre"], case["ch"], case["post"], CHUNK, status,
                                                           "saw" if seen_ok else "did not see"))
        if cl != [str(rlen)]:
            return ("C17:reply-content-length", "Content-Length %r for %d reply bytes" % (cl, rlen))
        return None

    def encode(self, case, obs):
        if not case.get("coq") or obs[0] != "reply":
            return None
        return "(max_chunk_size, %d%%N, %d%%N, %d%%N, [%s]%%N, %s)" % (
            case["pre"], case["ch"], case["post"], ";".join(map(str, case["caps"])), "true" if obs[1] else "false")

    def kind(self, case, obs):
        return "U+%04X straddling / status %s" % (case["ch"], obs[2] if obs[0] == "reply" else obs[1])

    def describe(self, case, obs):
        d = dict(case)
        d["body"] = "'a' * pre + chr(ch) + 'b' * post, UTF-8 encoded"
        d["observed"] = {"dispatcher_saw_the_text": obs[1], "status": obs[2], "body_bytes": obs[3]} if obs[0] == "reply" else list(obs)
        return d

    def to_replay(self, case):
        return dict(case)

    def from_replay(self, j):
        return dict(j)

    def widen(self, rng):
        return self.gen("quick", rng)


# ====================================================================== CGI

class Cgi(pipeline.Stream):
    name = "cgi"
    model_imports = "Wire"
    case_type = "string * text * option ((list string * list string) * bytes)"
    check_fn = "cgi_check"
    shard = 300

    def setup(self):
        import jsonrpclib.SimpleJSONRPCServer as M
        import jsonrpclib.config as C
        self.M = M
        self.C = C

    def gen(self, tier, rng):
        cases = []
        replies = ["", "{}", '{"jsonrpc": "2.0", "result": 1, "id": 1}', '{"result": "é"}', "€\U0001f600" * 3, "x" * 5000 + "é",
                   "\ud800", "line\nbreak\r\n", "real:echo", "real:notification", "real:garbage"]
        for ct, r in itertools.product(CTYPES, replies):
            cases.append({"ct": ct, "reply": r})
        for _ in range(60 if tier == "quick" else 1500):
            cases.append({"ct": rng.choice(CTYPES), "reply": rand_text(rng, 14, surrogates=rng.random() < 0.05)})
        return cases

    def run_impl(self, case):
        cfg = self.C.Config(content_type=case["ct"])
        h = self.M.CGIJSONRPCRequestHandler(config=cfg)
        request = "{}"
        if case["reply"].startswith("real:"):
            # the real dispatcher produces the reply
            h.register_function(lambda x: x, "echo")
            request = {"echo": json.dumps({"jsonrpc": "2.0", "method": "echo", "params": ["é€"], "id": "\U0001f600"}, ensure_ascii=False),
                       "notification": json.dumps({"jsonrpc": "2.0", "method": "echo", "params": [1]}),
                       "garbage": "{not json é"}[case["reply"][5:]]
        else:
            h._marshaled_dispatch = lambda text, *a, **k: case["reply"]
        buf = io.BytesIO()
        out = io.TextIOWrapper(buf, encoding="utf-8", newline="\n", write_through=False)
        old = sys.stdout
        sys.stdout = out
        try:
            try:
                h.handle_jsonrpc(request)
            except Exception as ex:   # noqa
                return ("raise", exc_name(ex))
            finally:
                sys.stdout = old
            out.flush()
        finally:
            sys.stdout = old
        raw = buf.getvalue()
        head, sep, body = raw.partition(b"\n\n")
        headers = []
        for ln in head.split(b"\n"):
            k, _, v = ln.partition(b":")
            headers.append((k.decode("latin-1"), v.decode("latin-1").strip(" ")))
        ct, cl = S.framing_of(headers)
        return ("out", ct, cl, body, bool(sep))

    def oracle(self, case, obs):
        r = case["reply"]
        if any(0xd800 <= ord(c) <= 0xdfff for c in r):
            return None
        if obs[0] != "out":
            return ("C17:cgi-raises", "handle_jsonrpc raised %s" % obs[1])
        _, ct, cl, body, sep = obs
        if not sep:
            return ("C17:cgi-no-header-end", "no blank line after the CGI headers")
        if len(cl) != 1 or not cl[0].isdigit() or int(cl[0]) != len(body):
            return ("C17:cgi-content-length", "Content-Length values %r for a body of %d bytes" % (cl, len(body)))
        if ct != [case["ct"]]:
            return ("C17:cgi-content-type", "Content-Type values %r, configured %r" % (ct, case["ct"]))
        if not r.startswith("real:") and body != r.encode("utf-8"):
            return ("C17:cgi-body-bytes", "body bytes differ from the encoding of the reply")
        return None

    def encode(self, case, obs):
        r = case["reply"]
        if r.startswith("real:"):
            return None          # reply text produced by the real dispatcher: oracle only
        if obs[0] != "out":
            o = "None"
        else:
            _, ct, cl, body, sep = obs
            o = "(Some (([%s], [%s]), %s))" % ("; ".join(S.g_string(x) for x in ct), "; ".join(S.g_string(x) for x in cl), S.g_bytes(body))
        return "(%s, %s, %s)" % (S.g_string(case["ct"]), S.g_text(r), o)

    def nontrivial(self, case, obs):
        return any(ord(c) > 127 for c in case["reply"]) or case["reply"].startswith("real:")

    def kind(self, case, obs):
        return "%s / %s" % ("real dispatcher" if case["reply"].startswith("real:") else
                            "non-ascii reply" if any(ord(c) > 127 for c in case["reply"]) else "ascii reply", obs[0])

    def describe(self, case, obs):
        d = {"ct": case["ct"], "reply": [ord(c) for c in case["reply"][:60]]}
        d["observed"] = {"content-type": obs[1], "content-length": obs[2], "body_bytes": len(obs[3])} if obs[0] == "out" else list(obs)
        return d

    def to_replay(self, case):
        return {"ct": case["ct"], "reply": [ord(c) for c in case["reply"]]}

    def from_replay(self, j):
        return {"ct": j["ct"], "reply": "".join(chr(c) for c in j["reply"])}

    def shrink(self, case):
        r = case["reply"]
        if not r.startswith("real:"):
            for i in range(len(r)):
                yield dict(case, reply=r[:i] + r[i + 1:])


def streams():
    return [Codec(), Feed(), Parse(), Client(), Server(), ServerBig(), Cgi()]
