"""Shared generator vocabulary (DESIGN.md section 4): JSON value pools and type-exact comparison."""
import math

LEAVES = [None, True, False, 0, 1, -1, 2 ** 53, -(2 ** 53) + 1, 10 ** 30, 0.0, -0.0, 0.1, 1e308, 5e-324,
          -32000.5, "", "a", "code", "\x00", "q\"uo\\te", "é中", "\U0001f600", "x" * 40]
SMALL_LEAVES = [None, True, False, 0, 1, -1, 0.0, 1.5, "", "a"]


def same(a, b):
    """Type-exact structural equality (1 is not True is not 1.0; -0.0 is not 0.0; dict order ignored)."""
    if type(a) is not type(b):
        return False
    if isinstance(a, float):
        return a.hex() == b.hex()
    if isinstance(a, (list, tuple)):
        return len(a) == len(b) and all(same(x, y) for x, y in zip(a, b))
    if isinstance(a, dict):
        if len(a) != len(b):
            return False
        for k, x in a.items():
            hit = [kk for kk in b if same(k, kk)]
            if not hit or not same(x, b[hit[0]]):
                return False
        return True
    if isinstance(a, (set, frozenset)):
        return len(a) == len(b) and all(any(same(x, y) for y in b) for x in a)
    return a == b


def rand_json(rng, depth=2, width=3, leaves=LEAVES, keys=("a", "b", "ké", "", "id", "x y")):
    if depth <= 0 or rng.random() < 0.35:
        return rng.choice(leaves)
    if rng.random() < 0.5:
        return [rand_json(rng, depth - 1, width, leaves, keys) for _ in range(rng.randint(0, width))]
    ks = rng.sample(list(keys), rng.randint(0, min(width, len(keys))))
    return {k: rand_json(rng, depth - 1, width, leaves, keys) for k in ks}


def has_container(v):
    return isinstance(v, (list, dict, tuple, set, frozenset))


def interesting(v):
    """a container, or a non-ASCII / falsy / boundary leaf"""
    if has_container(v):
        return True
    if v is None or v is False or v == 0 or v == "":
        return True
    if isinstance(v, str):
        return any(ord(c) > 127 or ord(c) < 32 for c in v)
    if isinstance(v, int):
        return abs(v) >= 2 ** 31
    if isinstance(v, float):
        return True
    return False
