"""Lossless JSON serialisation of the Python values used in cases and replays."""
import math


def to_json(v):
    if v is None or isinstance(v, (bool, str)):
        return v
    if isinstance(v, int):
        return {"$int": str(v)} if abs(v) > 2 ** 53 else v
    if isinstance(v, float):
        return {"$float": v.hex()}
    if isinstance(v, list):
        return [to_json(x) for x in v]
    if isinstance(v, tuple):
        return {"$tuple": [to_json(x) for x in v]}
    if isinstance(v, frozenset):
        return {"$frozenset": [to_json(x) for x in v]}
    if isinstance(v, set):
        return {"$set": [to_json(x) for x in v]}
    if isinstance(v, dict):
        if all(isinstance(k, str) and not k.startswith("$") for k in v):
            return {k: to_json(x) for k, x in v.items()}
        return {"$dict": [[to_json(k), to_json(x)] for k, x in v.items()]}
    if isinstance(v, bytes):
        return {"$bytes": v.hex()}
    if hasattr(v, "to_json"):
        return v.to_json()
    return {"$repr": repr(v)}


def from_json(j):
    if isinstance(j, list):
        return [from_json(x) for x in j]
    if isinstance(j, dict):
        if len(j) == 1:
            (k, x), = j.items()
            if k == "$int":
                return int(x)
            if k == "$float":
                return float.fromhex(x)
            if k == "$tuple":
                return tuple(from_json(y) for y in x)
            if k == "$set":
                return set(from_json(y) for y in x)
            if k == "$frozenset":
                return frozenset(from_json(y) for y in x)
            if k == "$dict":
                return {from_json(a): from_json(b) for a, b in x}
            if k == "$bytes":
                return bytes.fromhex(x)
        return {k: from_json(x) for k, x in j.items()}
    return j


def finite(v):
    """True when the value contains no NaN/Infinity float."""
    if isinstance(v, float):
        return math.isfinite(v)
    if isinstance(v, (list, tuple, set, frozenset)):
        return all(finite(x) for x in v)
    if isinstance(v, dict):
        return all(finite(k) and finite(x) for k, x in v.items())
    return True
