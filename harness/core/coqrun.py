"""Evaluate the model inside Coq on generated cases (correspondence stage).

A cases file holds `Definition cases : list T := [...]` -- the inputs together with
the implementation's observations -- and one `Eval vm_compute in (failing check 0 cases)`.
Only the printed list of failing indices is parsed."""
import os
import re
import shutil
import subprocess
import fcntl
from concurrent.futures import ThreadPoolExecutor

from . import env

HEADER = """From JR Require Import Val PyOps %s.
From Coq Require Import Ascii.
Open Scope Z_scope. Open Scope string_scope. Open Scope list_scope.
"""


class CoqError(Exception):
    pass


def ensure_built(timeout=3000):
    """Full .vo build of the development (no-op when up to date).  `make -k`: a file that
    does not compile does not stop the others; the proof stage then fails only for the
    properties whose Props file (or a dependency of it) is affected."""
    lock = os.path.join(env.COQ_DIR, ".build.lock")
    with open(lock, "w") as lf:
        fcntl.flock(lf, fcntl.LOCK_EX)
        subprocess.run(["sh", os.path.join(env.COQ_DIR, "gen_project.sh")], check=True)
        mk = os.path.join(env.COQ_DIR, "Makefile")
        if not os.path.exists(mk) or os.path.getmtime(mk) < os.path.getmtime(os.path.join(env.COQ_DIR, "_CoqProject")):
            subprocess.run(["coq_makefile", "-f", "_CoqProject", "-o", "Makefile"], cwd=env.COQ_DIR,
                           check=True, stdout=subprocess.DEVNULL, stderr=subprocess.DEVNULL)
        p = subprocess.run(["timeout", str(timeout), "make", "-k", "-j%d" % env.NPROC], cwd=env.COQ_DIR,
                           stdout=subprocess.PIPE, stderr=subprocess.STDOUT, text=True)
        return p.returncode, p.stdout


def _run_one(path, timeout):
    p = subprocess.run(["timeout", str(timeout), "coqc", "-Q", env.THEORIES, "JR", "-w", "none", path],
                       cwd=os.path.dirname(path), stdout=subprocess.PIPE, stderr=subprocess.STDOUT, text=True)
    if p.returncode != 0:
        raise CoqError("coqc failed on %s (rc %d):\n%s" % (path, p.returncode, p.stdout[-3000:]))
    m = re.search(r"=\s*(\[.*?\])\s*:\s*list nat", p.stdout, re.S)
    if not m:
        raise CoqError("cannot parse coqc output for %s:\n%s" % (path, p.stdout[-2000:]))
    return [int(x) for x in re.findall(r"\d+", m.group(1))]


def run_cases(prop_id, model_imports, case_type, check_fn, encoded, shard=400, timeout=900, tag="cases", extra_defs=""):
    """Returns the sorted list of indices (into `encoded`) on which the model's
    observation differs from the implementation's."""
    d = os.path.join(env.BUILD, prop_id)
    os.makedirs(d, exist_ok=True)
    tag = re.sub(r"[^A-Za-z0-9_]", "_", tag)          # the file name is a Coq module name
    for f in os.listdir(d):
        if f.startswith(tag + "_"):
            os.remove(os.path.join(d, f))
    paths = []
    for k in range(0, len(encoded), shard):
        path = os.path.join(d, "%s_%d.v" % (tag, k // shard))
        with open(path, "w") as fh:
            fh.write(HEADER % model_imports)
            fh.write(extra_defs)
            fh.write("Definition cases : list (%s) := [\n" % case_type)
            fh.write(";\n".join(encoded[k:k + shard]))
            fh.write("\n].\n")
            fh.write("Eval vm_compute in (failing %s 0%%nat cases).\n" % check_fn)
        paths.append((k, path))
    failing = []
    with ThreadPoolExecutor(max_workers=env.NPROC) as ex:
        for (k, path), idxs in zip(paths, ex.map(lambda kp: _run_one(kp[1], timeout), paths)):
            failing.extend(k + i for i in idxs)
    return sorted(failing)


def eval_terms(prop_id, model_imports, terms, timeout=300, tag="dbg"):
    """Debug helper: evaluate terms with vm_compute and return coqc's raw output."""
    d = os.path.join(env.BUILD, prop_id)
    os.makedirs(d, exist_ok=True)
    path = os.path.join(d, tag + "_0.v")
    with open(path, "w") as fh:
        fh.write(HEADER % model_imports)
        for t in terms:
            fh.write("Eval vm_compute in (%s).\n" % t)
    p = subprocess.run(["timeout", str(timeout), "coqc", "-Q", env.THEORIES, "JR", "-w", "none", path],
                       cwd=d, stdout=subprocess.PIPE, stderr=subprocess.STDOUT, text=True)
    return p.stdout
