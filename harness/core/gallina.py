"""Python value -> Gallina literal of type JR.Val.val (and friends).

The encoder is part of the trusted tie (DESIGN.md 6.4); `selftest()` round-trips
the edge pool through an echo model at the start of every run."""
import math

_SAFE = set(range(32, 127)) - {ord('"')}


def g_str(s):
    b = s.encode("utf-8") if isinstance(s, str) else bytes(s)
    if all(c in _SAFE for c in b):
        return '"%s"' % b.decode("ascii")
    return "(sb [%s]%%N)" % ";".join(str(c) for c in b)


def g_Z(z):
    return "(%d)" % z if z < 0 else "%d" % z


def g_bool(b):
    return "true" if b else "false"


def g_list(items):
    return "[" + "; ".join(items) + "]"


def g_option(x, enc):
    return "None" if x is None else "(Some %s)" % enc(x)


def g_flt(x):
    if not math.isfinite(x):
        raise ValueError("non-finite float is outside the value universe")
    if x == 0.0 and math.copysign(1.0, x) < 0:
        return "FNegZero"
    n, d = x.as_integer_ratio()
    return "(F %s %d%%positive)" % (g_Z(n), d)


class Inst(object):
    """Descriptor of a class instance in generated cases (class id + ordered fields)."""

    def __init__(self, cls, fields):
        self.cls = cls
        self.fields = list(fields)


class Opaque(object):
    def __init__(self, tag):
        self.tag = tag


def g_val(v):
    if v is None:
        return "VNone"
    if isinstance(v, bool):
        return "(VBool %s)" % g_bool(v)
    if isinstance(v, int):
        return "(VInt %s)" % g_Z(v)
    if isinstance(v, float):
        return "(VFlt %s)" % g_flt(v)
    if isinstance(v, str):
        return "(VStr %s)" % g_str(v)
    if isinstance(v, list):
        return "(VList %s)" % g_list([g_val(x) for x in v])
    if isinstance(v, tuple):
        return "(VTuple %s)" % g_list([g_val(x) for x in v])
    if isinstance(v, frozenset):
        return "(VFrozen %s)" % g_list([g_val(x) for x in v])
    if isinstance(v, set):
        return "(VSet %s)" % g_list([g_val(x) for x in v])
    if isinstance(v, dict):
        return "(VDict %s)" % g_list(["(%s, %s)" % (g_val(k), g_val(x)) for k, x in v.items()])
    if isinstance(v, Inst):
        return "(VInst %s %s)" % (g_str(v.cls), g_list(["(%s, %s)" % (g_str(k), g_val(x)) for k, x in v.fields]))
    if isinstance(v, Opaque):
        return "(VOpaque %d%%N)" % v.tag
    raise TypeError("cannot encode %r as a Gallina val" % (type(v),))


# exception class name -> Gallina constructor (nullary ones)
_EXN = {
    "TypeError": "EType", "ValueError": "EValue", "KeyError": "EKey", "IndexError": "EIndex",
    "AttributeError": "EAttr", "NotImplementedError": "ENotImpl", "AssertionError": "EAssert",
    "OSError": "EOS", "TranslationError": "ETranslation", "ImportError": "EImport",
    "ModuleNotFoundError": "EImport",
}


def g_exn(ex):
    """Encode a caught exception object as a Gallina `exn`."""
    name = type(ex).__name__
    if name == "AppError":
        return "(EApp %s)" % g_val(ex.args[0])
    if name == "TransportError":
        return "(ETransport %s %s)" % (g_str(ex.url), g_Z(ex.errcode))
    if name == "ProtocolError":
        return "(EProtocol %s)" % g_val(ex.args[0] if ex.args else None)
    if name in _EXN:
        return _EXN[name]
    return "(EOther %s)" % g_str(name)


def g_res(outcome):
    """outcome = ('ok', value) | ('raise', exception object)"""
    kind, x = outcome
    if kind == "ok":
        return "(Ok %s)" % g_val(x)
    return "(Raise %s)" % g_exn(x)
