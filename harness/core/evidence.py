import json
import os

from . import env


def write(prop_id, tier, seed, coverage, assumptions, wall_s, violations):
    os.makedirs(env.EVIDENCE, exist_ok=True)
    doc = {
        "property_id": prop_id,
        "tier": tier,
        "seed": int(seed),
        "level": "proof",
        "coverage": coverage,
        "assumptions": assumptions,
        "wall_s": round(wall_s, 2),
        "violations": int(violations),
    }
    path = os.path.join(env.EVIDENCE, prop_id + ".json")
    tmp = path + ".tmp"
    with open(tmp, "w") as fh:
        json.dump(doc, fh, indent=1, sort_keys=True, default=str)
    os.replace(tmp, path)
    return path
