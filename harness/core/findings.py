"""known_findings.json: read-only at run time.

Entries: {"status": "known"|"fixed", "property": "Cnn", "key": "<stable id of the failing
input / call site / history>", "what": "...", "commit": "<fix commit, for fixed entries>"}.
Only `known` entries suppress a violation, and only the one whose key matches exactly."""
import json
import os

from . import env


def load():
    if not os.path.exists(env.KNOWN_FINDINGS):
        return []
    return json.load(open(env.KNOWN_FINDINGS)).get("findings", [])


def match_known(prop_id, key):
    for f in load():
        if f.get("status") == "known" and f.get("property") == prop_id and f.get("key") == key:
            return f
    return None
