"""The check pipeline (DESIGN.md 2.3): proof stage, correspondence stage, oracle stage, decision."""
import hashlib
import json
import os
import random
import sys
import threading
import time
import traceback

from . import env, coqrun, proofstage, findings, evidence, ser


class Stream(object):
    """One family of cases of a property: a generator, the implementation runner, the property
    oracle, and the Gallina encoding of (input, observation) checked by `check_fn` in Coq.

    gen(tier, rng)            -> list of cases (python values; corpus cases first)
    run_impl(case)            -> observation (python value)
    oracle(case, obs)         -> None, or (key, message) when the property fails on this case
    encode(case, obs)         -> Gallina term of type case_type, or None (case outside the model's domain)
    nontrivial(case, obs)     -> bool
    describe(case, obs)       -> JSON-able description (samples, replays)
    shrink(case)              -> iterable of strictly smaller candidate cases (optional)
    masked(case, obs)         -> True if the property is silent on this case: no oracle, no correspondence
    """
    name = "main"
    model_imports = ""
    case_type = ""
    check_fn = ""
    extra_defs = ""
    shard = 400

    def gen(self, tier, rng):
        raise NotImplementedError

    def run_impl(self, case):
        raise NotImplementedError

    def oracle(self, case, obs):
        return None

    def encode(self, case, obs):
        return None

    def nontrivial(self, case, obs):
        return True

    def describe(self, case, obs):
        return {"case": ser.to_json(case), "obs": ser.to_json(obs)}

    def shrink(self, case):
        return ()

    def kind(self, case, obs):
        """label used for the input distribution"""
        return "case"

    def to_replay(self, case):
        return ser.to_json(case)

    def from_replay(self, j):
        return ser.from_json(j)

    def widen(self, rng):
        """extra cases for the search stage (implementation + oracle only)"""
        return self.gen("thorough", rng)

    def setup(self):
        pass

    def teardown(self):
        pass


# ---------------------------------------------------------------- line coverage of anchored code

class LineCoverage(object):
    def __init__(self, ranges):
        # ranges: [(relative file, first, last)]
        self.ranges = [(os.path.join(env.REPO, f), a, b) for f, a, b in ranges]
        self.files = set(f for f, _, _ in self.ranges)
        self.hit = set()

    def _local(self, frame, event, arg):
        if event == "line":
            self.hit.add((frame.f_code.co_filename, frame.f_lineno))
        return self._local

    def _global(self, frame, event, arg):
        if frame.f_code.co_filename in self.files:
            self.hit.add((frame.f_code.co_filename, frame.f_lineno))
            return self._local
        return None

    def start(self):
        if self.ranges:
            threading.settrace(self._global)
            sys.settrace(self._global)

    def stop(self):
        if self.ranges:
            sys.settrace(None)
            threading.settrace(None)

    def report(self):
        out = {}
        for f, a, b in self.ranges:
            try:
                code = compile(open(f).read(), f, "exec")
            except Exception:
                continue
            lines = set()
            stack = [code]
            while stack:
                c = stack.pop()
                for _, _, ln in c.co_lines():
                    if ln is not None:
                        lines.add(ln)
                stack.extend(k for k in c.co_consts if hasattr(k, "co_lines"))
            execable = set(ln for ln in lines if a <= ln <= b)
            # def/class/docstring-only lines are executed at import time, not per call
            hit = set(ln for (ff, ln) in self.hit if ff == f and a <= ln <= b)
            key = "%s:%d-%d" % (os.path.relpath(f, env.REPO), a, b)
            out[key] = {"executable": len(execable), "hit": len(hit & execable),
                        "missed": sorted(execable - hit)[:40]}
        return out


# ---------------------------------------------------------------- helpers

def _hash(obj):
    return hashlib.sha1(json.dumps(obj, sort_keys=True, default=str).encode()).hexdigest()[:12]


def write_replay(prop_id, doc):
    os.makedirs(env.REPLAYS, exist_ok=True)
    path = os.path.join(env.REPLAYS, "%s-%s.json" % (prop_id, _hash(doc)))
    with open(path, "w") as fh:
        json.dump(doc, fh, indent=1, default=str)
    return path


def shrink_case(stream, case, fails, budget=300):
    """Greedy delta debugging: keep replacing the case by a smaller failing candidate."""
    steps = 0
    progress = True
    while progress and steps < budget:
        progress = False
        for cand in stream.shrink(case):
            steps += 1
            if steps >= budget:
                break
            try:
                if fails(cand):
                    case = cand
                    progress = True
                    break
            except Exception:
                continue
    return case


def load_corpus(prop_id, stream):
    path = os.path.join(env.VERIF, "harness", "corpus", "%s.json" % prop_id)
    if not os.path.exists(path):
        return []
    out = []
    for e in json.load(open(path)):
        if e.get("stream", "main") == stream.name:
            out.append(stream.from_replay(e["case"]))
    return out


# ---------------------------------------------------------------- main entry

def run_property(mod, tier, seed, verbose=False):
    t0 = time.time()
    prop_id = mod.PROP_ID
    env.use_repo()
    if hasattr(mod, "setup"):
        mod.setup()
    streams = mod.streams()
    violations = []        # (stream, case, obs, key, message)
    known_hits = {}        # key -> message
    no_input_found = []    # (what, detail)

    # ---- P: proof stage
    proof = proofstage.run(prop_id, thorough=(tier == "thorough"))
    for p in proof["problems"]:
        no_input_found.append(("proof", p))

    # ---- C + O
    cov = LineCoverage(getattr(mod, "ANCHOR_RANGES", []))
    evaluations = 0
    distinct = set()
    samples = []
    dist = {}
    disagreements = []   # (stream, case, obs)
    corr_checked = 0
    model_domain = 0
    per_stream = {}
    for st in streams:
        rng = random.Random((seed, prop_id, st.name).__repr__())
        st.setup()
        try:
            # A stream that cannot drive the implementation at all (the code was restructured under the harness: private
            # attribute gone, exploration budget blown by new yield points, ...) must not crash the check: the tie between
            # model and code is then NOT established, which is reported as such (no-failing-input-found) unless another
            # stream exhibits a failing input.
            try:
                cases = load_corpus(prop_id, st) + list(st.gen(tier, rng))
                observed = []
                cov.start()
                try:
                    for c in cases:
                        observed.append(st.run_impl(c))
                        if getattr(st, "fatal", None) and st.fatal(c, observed[-1]):
                            # the implementation left something behind that makes further runs in this process meaningless
                            # (threads spinning or blocked for ever): what was observed so far is judged, the rest is dropped
                            cases = cases[:len(observed)]
                            break
                finally:
                    cov.stop()
            except Exception as ex:      # noqa
                import traceback
                no_input_found.append(("corr:%s:%s (the harness could not drive the implementation)" % (prop_id, st.name),
                                       "%s: %s | %s" % (type(ex).__name__, ex, traceback.format_exc().strip().splitlines()[-3:])))
                per_stream[st.name] = {"cases": 0, "in_model_domain": 0, "nontrivial_distinct": 0, "error": type(ex).__name__}
                continue
            for pb in getattr(st, "problems", []) or []:
                no_input_found.append(("corr:%s:%s" % (prop_id, st.name), pb))
            encoded, enc_idx = [], []
            n_nontriv = 0
            for i, (c, o) in enumerate(zip(cases, observed)):
                evaluations += 1
                k = st.kind(c, o)
                dist[st.name + ":" + k] = dist.get(st.name + ":" + k, 0) + 1
                if getattr(st, "masked", None) and st.masked(c, o):
                    dist[st.name + ":masked"] = dist.get(st.name + ":masked", 0) + 1
                    continue
                if st.nontrivial(c, o):
                    h = _hash(st.to_replay(c))
                    if (st.name, h) not in distinct:
                        distinct.add((st.name, h))
                        n_nontriv += 1
                if len(samples) < 6 and (i % max(1, len(cases) // 3) == 0):
                    samples.append({"stream": st.name, **st.describe(c, o)})
                bad = st.oracle(c, o)
                if bad is not None:
                    key, msg = bad
                    if findings.match_known(prop_id, key):
                        known_hits[key] = msg
                    else:
                        violations.append((st, c, o, key, msg))
                        if len(violations) > 50:
                            break
                try:
                    e = st.encode(c, o)
                except Exception as ex:      # noqa  an observation the encoder cannot express (e.g. the implementation put objects
                    # where the model has plain data): the case cannot be compared; that is a broken tie, not a crash
                    e = None
                    if not any(w.startswith("corr:%s:%s (encoding" % (prop_id, st.name)) for (w, _) in no_input_found):
                        no_input_found.append(("corr:%s:%s (encoding of an observation failed)" % (prop_id, st.name),
                                               "%s: %s on case %r" % (type(ex).__name__, ex, st.to_replay(c))))
                if e is not None:
                    encoded.append(e)
                    enc_idx.append(i)
            model_domain += len(encoded)
            if encoded:
                try:
                    bad_idx = coqrun.run_cases(prop_id, st.model_imports, st.case_type, st.check_fn, encoded,
                                               shard=st.shard, tag=st.name, extra_defs=st.extra_defs)
                    corr_checked += len(encoded)
                    for j in bad_idx:
                        disagreements.append((st, cases[enc_idx[j]], observed[enc_idx[j]]))
                except coqrun.CoqError as ex:
                    no_input_found.append(("corr:%s:%s" % (prop_id, st.name), "model evaluation failed: %s" % ex))
            per_stream[st.name] = {"cases": len(cases), "in_model_domain": len(encoded), "nontrivial_distinct": n_nontriv}

            # ---- D3: search stage for disagreements without an oracle failure
            if (disagreements or no_input_found) and not violations:
                srng = random.Random((seed, prop_id, st.name, "search").__repr__())
                found = False
                seeds = [c for (s2, c, _) in disagreements if s2 is st][:10]
                cand = []
                for c in seeds:
                    cand.extend(list(st.shrink(c))[:50])
                cand.extend(st.widen(srng))
                for c in cand:
                    try:
                        o = st.run_impl(c)
                    except Exception:
                        continue
                    if getattr(st, "masked", None) and st.masked(c, o):
                        continue
                    bad = st.oracle(c, o)
                    if bad is not None and not findings.match_known(prop_id, bad[0]):
                        violations.append((st, c, o, bad[0], bad[1]))
                        found = True
                        break
        finally:
            st.teardown()

    # ---- D: decision
    lines = []
    exit_code = 0
    reported = set()
    for (st, c, o, key, msg) in violations:
        if key in reported:
            continue
        reported.add(key)

        def fails(cand, st=st, key=key):
            oo = st.run_impl(cand)
            b = st.oracle(cand, oo)
            return b is not None and b[0] == key
        small = shrink_case(st, c, fails)
        so = st.run_impl(small)
        path = write_replay(prop_id, {
            "property": prop_id, "stream": st.name, "key": key, "message": (st.oracle(small, so) or (key, msg))[1],
            "case": st.to_replay(small), "observed": st.describe(small, so), "seed": seed, "tier": tier,
            "replay_cmd": "./check %s --replay <this file>" % prop_id})
        lines.append("VIOLATION property=%s replay=%s" % (prop_id, path))
        exit_code = 1
    if not violations:
        for (st, c, o) in disagreements[:3]:
            path = write_replay(prop_id, {
                "property": prop_id, "stream": st.name, "no_failing_input_found": True,
                "broken": "corr:%s:%s (model %s.%s disagrees with the implementation on this case)" % (prop_id, st.name, st.model_imports, st.check_fn),
                "case": st.to_replay(c), "observed": st.describe(c, o), "seed": seed, "tier": tier})
            lines.append("VIOLATION property=%s replay=%s no-failing-input-found" % (prop_id, path))
            exit_code = 1
        for (what, detail) in no_input_found[:3]:
            path = write_replay(prop_id, {"property": prop_id, "no_failing_input_found": True,
                                          "broken": what, "detail": detail, "seed": seed, "tier": tier})
            lines.append("VIOLATION property=%s replay=%s no-failing-input-found" % (prop_id, path))
            exit_code = 1
    for key, msg in sorted(known_hits.items()):
        lines.append("KNOWN-FINDING: property=%s %s: %s" % (prop_id, key, msg))

    coverage = {
        "obligations": proof["obligations"],
        "discharged": proof["discharged"],
        "checker_cmd": "make -C coq (coq_makefile, full .vo build) && coqc -Q coq/theories JR coq/theories/Props/%s.v%s" % (
            prop_id, " && coqchk -o JR.Props.%s" % prop_id if tier == "thorough" else ""),
        "trusted_base": list(getattr(mod, "TRUSTED", [])) + [
            "Coq 8.16.1 kernel and its bytecode VM (vm_compute); no native_compute",
            "Print Assumptions per theorem: " + "; ".join("%s: %s" % t for t in proof["theorems"]),
            "hand-written Gallina model tied to /repo by the correspondence stage (generated cases only)",
            "Python->Gallina literal encoder (harness/core/gallina.py) and the parser of coqc's failing-index list",
        ],
        "evaluations": evaluations,
        "distinct_nontrivial": len(distinct),
        "rule": getattr(mod, "RULE", ""),
        "samples": samples,
        "input_distribution": dist,
        "streams": per_stream,
        "correspondence_cases_checked_in_coq": corr_checked,
        "disagreements_checked": len(disagreements),
        "anchored_line_coverage": cov.report(),
        "known_findings": sorted(known_hits),
        "proof_problems": proof["problems"],
    }
    if getattr(mod, "EXHAUSTIVE", None):
        coverage["exhaustive"] = True
        coverage["exhaustive_space"] = mod.EXHAUSTIVE
    evidence.write(prop_id, tier, seed, coverage, list(getattr(mod, "ASSUMPTIONS", [])), time.time() - t0, len(reported) if violations else (1 if exit_code else 0))
    for ln in lines:
        print(ln)
    print("%s tier=%s seed=%s: %d cases, %d in Coq, %d disagreements, %d violations, proof %d/%d, %.1fs" % (
        prop_id, tier, seed, evaluations, corr_checked, len(disagreements), len(reported), proof["discharged"], proof["obligations"], time.time() - t0))
    return exit_code


def replay(mod, path):
    env.use_repo()
    if hasattr(mod, "setup"):
        mod.setup()
    doc = json.load(open(path))
    if "case" not in doc:
        print(json.dumps(doc, indent=1))
        return 1
    st = [s for s in mod.streams() if s.name == doc.get("stream", "main")][0]
    st.setup()
    try:
        case = st.from_replay(doc["case"])
        obs = st.run_impl(case)
        bad = st.oracle(case, obs)
        print("case:     ", json.dumps(st.to_replay(case), default=str)[:2000])
        print("observed: ", json.dumps(st.describe(case, obs), default=str)[:2000])
        print("oracle:   ", "property FAILS: %s: %s" % bad if bad else "property holds on this case")
        e = st.encode(case, obs)
        if e is not None:
            idx = coqrun.run_cases(mod.PROP_ID, st.model_imports, st.case_type, st.check_fn, [e], tag="replay", extra_defs=st.extra_defs)
            print("model:    ", "disagrees with the implementation" if idx else "agrees with the implementation")
    finally:
        st.teardown()
    return 1 if bad else 0
