"""Proof stage: rebuild the development, re-check Props/<ID>.v, read Print Assumptions."""
import os
import re
import subprocess
import glob

from . import env, coqrun

# axioms of Coq's standard library that DESIGN.md section 6 names as acceptable
ALLOWED_AXIOMS = set()

FORBIDDEN = re.compile(r"\b(Admitted|admit|Axiom|Axioms|Parameter|Parameters|Conjecture|Unset\s+Guard|bypass_check|Admit\s+Obligations|type-in-type|impredicative-set)\b")


def _strip_comments(src):
    out, depth, i = [], 0, 0
    while i < len(src):
        if src.startswith("(*", i):
            depth += 1
            i += 2
        elif src.startswith("*)", i) and depth:
            depth -= 1
            i += 2
        else:
            if depth == 0:
                out.append(src[i])
            i += 1
    return "".join(out)


def scan_forbidden():
    hits = []
    listed = set()
    for lst in glob.glob(os.path.join(env.COQ_DIR, "project.d", "*.txt")):
        for line in open(lst):
            line = line.strip()
            if line and not line.startswith("#"):
                listed.add(os.path.join(env.COQ_DIR, line))
    # only the registered development is scanned: files still being written are not part of any build
    for path in sorted(listed):
        if not os.path.exists(path):
            hits.append("%s: listed in project.d but missing" % os.path.relpath(path, env.VERIF))
            continue
        body = _strip_comments(open(path).read())
        for m in FORBIDDEN.finditer(body):
            hits.append("%s: %s" % (os.path.relpath(path, env.VERIF), m.group(0)))
        if re.search(r"^\s*(Variable|Hypothesis|Variables|Hypotheses)\b", body, re.M):
            # allowed only inside sections: check nesting
            depth = 0
            for line in body.splitlines():
                s = line.strip()
                if re.match(r"Section\s+\w+", s):
                    depth += 1
                elif re.match(r"End\s+\w+", s) and depth:
                    depth -= 1
                elif re.match(r"(Variable|Hypothesis|Variables|Hypotheses)\b", s) and depth == 0:
                    hits.append("%s: %s outside a section" % (os.path.relpath(path, env.VERIF), s[:40]))
    return hits


def run(prop_id, thorough=False):
    """Returns a dict: ok, obligations, discharged, theorems [(name, assumptions)], problems [str]."""
    problems = []
    rc, out = coqrun.ensure_built()
    make_note = None
    if rc != 0:
        m = re.findall(r'File "([^"]+)", line (\d+)', out)
        make_note = "make -k reported errors (%s); Props/%s.v is re-checked on its own below" % (m[-1] if m else "?", prop_id)
    props = os.path.join(env.THEORIES, "Props", prop_id + ".v")
    src = open(props).read()
    names = re.findall(r"Print Assumptions\s+(\w+)\s*\.", src)
    obligations = len(names)
    theorems = []
    discharged = 0
    if True:
        d = os.path.join(env.BUILD, prop_id)
        os.makedirs(d, exist_ok=True)
        p = subprocess.run(["timeout", "600", "coqc", "-Q", env.THEORIES, "JR", "-o", os.path.join(d, prop_id + ".vo"), props],
                           cwd=env.COQ_DIR, stdout=subprocess.PIPE, stderr=subprocess.STDOUT, text=True)
        if p.returncode != 0:
            problems.append("Props/%s.v does not check:\n%s%s" % (prop_id, p.stdout[-1500:], "\n" + make_note if make_note else ""))
        else:
            # one block per Print Assumptions, in order
            blocks = re.split(r"(?m)^(?=Closed under the global context|Axioms:)", p.stdout)
            blocks = [b for b in blocks if b.startswith("Closed") or b.startswith("Axioms:")]
            if len(blocks) != obligations:
                problems.append("expected %d Print Assumptions results, got %d" % (obligations, len(blocks)))
            for name, b in zip(names, blocks):
                if b.startswith("Closed"):
                    theorems.append((name, "Closed under the global context"))
                    discharged += 1
                else:
                    axs = re.findall(r"(?m)^(\S+)\s*:", b[len("Axioms:"):])
                    theorems.append((name, "Axioms: " + ", ".join(axs)))
                    if set(axs) <= ALLOWED_AXIOMS:
                        discharged += 1
                    else:
                        problems.append("Props/%s.v:%s depends on axioms %s" % (prop_id, name, axs))
    # every Theorem in the Props file must be closed by `exact` and printed
    stated = re.findall(r"(?m)^Theorem\s+(\w+)", src)
    for t in stated:
        if t not in names:
            problems.append("Props/%s.v:%s has no Print Assumptions" % (prop_id, t))
    hits = scan_forbidden()
    if hits:
        problems.append("forbidden constructs: " + "; ".join(hits[:10]))
    chk = None
    if thorough and not problems:
        p = subprocess.run(["timeout", "1500", "coqchk", "-silent", "-o", "-Q", env.THEORIES, "JR", "JR.Props." + prop_id],
                           cwd=env.COQ_DIR, stdout=subprocess.PIPE, stderr=subprocess.STDOUT, text=True)
        chk = p.stdout[-2500:]
        if p.returncode != 0:
            problems.append("coqchk failed:\n" + chk)
    return {"ok": not problems, "obligations": obligations, "discharged": discharged if not problems else min(discharged, max(0, obligations - 1)),
            "theorems": theorems, "problems": problems, "coqchk": chk}
