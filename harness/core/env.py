"""Paths and run-time environment shared by every check."""
import os
import sys

VERIF = os.path.dirname(os.path.dirname(os.path.dirname(os.path.abspath(__file__))))
REPO = os.environ.get("VERIF_REPO", "/repo")
COQ_DIR = os.path.join(VERIF, "coq")
THEORIES = os.path.join(COQ_DIR, "theories")
# the three overrides below exist for the seeded-change self-test only (tools/run_seeded.py), so that a run
# against a scratch worktree neither clobbers nor is mistaken for the evidence of /repo itself
BUILD = os.environ.get("VERIF_BUILD", os.path.join(VERIF, "build"))
REPLAYS = os.environ.get("VERIF_REPLAYS", os.path.join(VERIF, "replays"))
EVIDENCE = os.environ.get("VERIF_EVIDENCE", os.path.join(VERIF, "evidence"))
KNOWN_FINDINGS = os.path.join(VERIF, "known_findings.json")
NPROC = int(os.environ.get("VERIF_JOBS", "16"))


def use_repo():
    """Make `import jsonrpclib` resolve to the working tree under REPO, never to a copy."""
    os.environ.setdefault("PYTHONDONTWRITEBYTECODE", "1")
    sys.dont_write_bytecode = True
    if REPO in sys.path:
        sys.path.remove(REPO)
    sys.path.insert(0, REPO)
    for name in list(sys.modules):
        if name == "jsonrpclib" or name.startswith("jsonrpclib."):
            del sys.modules[name]
    import jsonrpclib  # noqa
    got = os.path.dirname(os.path.dirname(os.path.abspath(jsonrpclib.__file__)))
    if os.path.realpath(got) != os.path.realpath(REPO):
        raise RuntimeError("jsonrpclib imported from %s, expected %s" % (got, REPO))
    import logging
    logging.disable(logging.CRITICAL)
    return jsonrpclib
