"""Base Stream of the dispatch group: builds the real dispatcher from a case, observes one
_marshaled_dispatch call, encodes (case, observation) for the Coq check `dispatch_check`."""
import json

from harness.core import pipeline, ser

from . import core as K


def log_json(log):
    """invocation log as JSON-able data (objects by repr)"""
    return json.loads(json.dumps([list(e) for e in log], default=repr))


class DispatchStream(pipeline.Stream):
    name = "main"
    model_imports = "Dispatch"
    case_type = "dcase"
    check_fn = "dispatch_check"
    shard = 250
    in_model = True          # False: oracle-only stream

    def setup(self):
        import jsonrpclib
        self.J = jsonrpclib
        self._cache = {}

    def teardown(self):
        for rt in self._cache.values():
            rt.close()
        self._cache = {}

    def runtime(self, case):
        if case.get("pool"):
            return K.Runtime(case), False
        key = json.dumps([case["ver"], case.get("jsonclass", True), case["table"], case.get("funcs"), case.get("inst"),
                          case.get("dm")], sort_keys=True, default=str)
        rt = self._cache.get(key)
        if rt is None:
            rt = self._cache[key] = K.Runtime(case)
        return rt, True

    def run_impl(self, case):
        rt, cached = self.runtime(case)
        try:
            obs = rt.run(case["body"])
            obs["po"] = K.parse_outcome(self.J, case["body"], rt.config)
        finally:
            if not cached:
                rt.close()
        return obs

    def echoed_object(self, case, obs):
        """an echoing callable was entered with an argument that is not JSON data (an instance built by
        the class translator): its result is a bean, which is the JsonClass model's business (C07)"""
        for ev in obs["log"] + obs["drained"]:
            if ev[0] == "call" and case["table"][ev[1]]["beh"][0] == "echo" and not K.is_plain_json(ev[2]):
                return True
        return False

    def encode(self, case, obs):
        if not self.in_model or self.echoed_object(case, obs):
            return None
        return K.encode_case(case, obs, obs["po"])

    # ---- bookkeeping
    def entries(self, case):
        """(is_batch, [entries]) of a body that parses as JSON, else None"""
        try:
            v = json.loads(case["body"])
        except ValueError:
            return None
        if isinstance(v, list) and v:
            return True, v
        return False, [v]

    def describe(self, case, obs):
        return {"server_version": case["ver"], "dispatch": case.get("kind"), "pool": case.get("pool", 0),
                "jsonclass": case.get("jsonclass", True), "body": case["body"],
                "raised": None if obs["raised"] is None else "%s: %s" % (type(obs["raised"]).__name__, obs["raised"]),
                "reply": obs["text"], "log": log_json(obs["log"]), "drained": log_json(obs["drained"])}

    def to_replay(self, case):
        return ser.to_json(case)

    def from_replay(self, j):
        return ser.from_json(j)

    def nontrivial(self, case, obs):
        return True

    def shrink(self, case):
        try:
            v = json.loads(case["body"])
        except ValueError:
            return
        if isinstance(v, list):
            for i in range(len(v)):
                yield dict(case, body=json.dumps(v[:i] + v[i + 1:]))
            if len(v) == 1:
                yield dict(case, body=json.dumps(v[0]))
        if isinstance(v, dict):
            for k in list(v):
                w = dict(v)
                del w[k]
                yield dict(case, body=json.dumps(w))
        if case.get("pool"):
            yield dict(case, pool=0)
        if not case.get("jsonclass", True):
            yield dict(case, jsonclass=True)


# ------------------------------------------------------------------ statement-level vocabulary for the oracles

def is_wellformed_request(e):
    """a request object that passes structural validation (C05's list of what makes an object invalid:
    missing/empty/non-string method, params of scalar type, no version marker)"""
    if not isinstance(e, dict):
        return False
    if "jsonrpc" not in e and "id" not in e:
        return False
    m = e.get("method")
    if not isinstance(m, str) or m == "":
        return False
    if "params" in e and not isinstance(e["params"], (list, dict)):
        return False
    if "id" in e and not K.is_plain_json(e["id"]):
        return False
    return True


def has_no_id(e):
    return "id" not in e or e["id"] is None or (isinstance(e["id"], str) and e["id"] == "")


def is_notification(e):
    return is_wellformed_request(e) and has_no_id(e)
