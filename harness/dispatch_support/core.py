"""Shared machinery of the `dispatch` property group (C02, C03, C04, C05, C13).

A *case* is a plain dict (JSON-able through harness.core.ser):

    ver        1.0 | 2.0            server Config.version
    jsonclass  bool                 Config.use_jsonclass
    table      [cdesc]              callable descriptors; a callable id (cid) is an index in this list
                 cdesc = {"sig": {"pos": [names], "ndef": n, "varargs": b, "kwonly": [[name, has_default]], "varkw": b},
                          "beh": ["ret", value] | ["opaque"] | ["echo"] | ["raise", class name, text] | ["typeerr", text]
                                 | ["fault", code, text]   (returns jsonrpclib.Fault(code, text), built with the default config)}
    funcs      {name: cid}          register_function
    inst       None | {"dispatch": cid | None, "attrs": tree}     register_instance
                 tree = {name: ["call", cid] | ["obj", tree] | ["data"]}
    pool       0 | k                notification ThreadPool with k threads (0: none)
    pool_started bool               pool.start() before the dispatch (else after it)
    dm         None | cid           custom dispatch_method argument
    body       str                  the request body text

From one case the module builds the real objects (Runtime) and the Gallina literal (encode_case).
"""
import json
import math
import threading

from harness.core import gallina as G

MAIN = "main"


# ------------------------------------------------------------------ descriptors

def sig(pos=(), ndef=0, varargs=False, kwonly=(), varkw=False):
    return {"pos": list(pos), "ndef": ndef, "varargs": varargs, "kwonly": [list(k) for k in kwonly], "varkw": varkw}


ANY_SIG = sig(varargs=True, varkw=True)


def cdesc(beh, s=None):
    return {"sig": s if s is not None else ANY_SIG, "beh": list(beh)}


class CustomError(Exception):
    """an ordinary user-defined exception class"""


class Unserialisable(object):
    """a result whose conversion (jsonclass.dump) fails"""

    def _serialize(self):
        raise RuntimeError("cannot serialise this")


class MethodAborted(BaseException):
    """an exception of a registered method that does not derive from Exception (like SystemExit, KeyboardInterrupt)"""


EXC = {c.__name__: c for c in [
    SystemExit, KeyboardInterrupt, MethodAborted,
    ValueError, KeyError, IndexError, ZeroDivisionError, RuntimeError, OSError, AttributeError, LookupError,
    ArithmeticError, AssertionError, NotImplementedError, NameError, OverflowError, StopIteration, UnicodeError,
    EOFError, Exception, TypeError, CustomError]}


def build_check(s):
    """a real function with the described signature; CPython's own argument binding decides"""
    parts = []
    nreq = len(s["pos"]) - s["ndef"]
    for i, n in enumerate(s["pos"]):
        parts.append(n if i < nreq else n + "=None")
    if s["varargs"]:
        parts.append("*_va")
    elif s["kwonly"]:
        parts.append("*")
    for n, hasdef in s["kwonly"]:
        parts.append(n + ("=None" if hasdef else ""))
    if s["varkw"]:
        parts.append("**_kw")
    ns = {}
    exec("def _check(%s):\n    pass\n" % ", ".join(parts), ns)
    return ns["_check"]


class Runtime(object):
    """The real dispatcher built from a case, with invocation logging."""

    def __init__(self, case, config=None):
        import jsonrpclib.config as C
        from jsonrpclib.SimpleJSONRPCServer import SimpleJSONRPCDispatcher
        import jsonrpclib.threadpool as TP
        self.case = case
        self.lock = threading.Lock()
        self.events = []            # (thread is the dispatching thread?, event)
        self.main_thread = threading.current_thread()
        self.config = config if config is not None else C.Config(version=case["ver"], use_jsonclass=case.get("jsonclass", True))
        # the dispatcher may be hosted by any of the library's server classes (none is ever bound to a port here)
        host = case.get("host") or "dispatcher"
        if host == "dispatcher":
            self.disp = SimpleJSONRPCDispatcher(config=self.config)
        else:
            import jsonrpclib.SimpleJSONRPCServer as SM
            if host == "cgi":
                self.disp = SM.CGIJSONRPCRequestHandler(config=self.config)
            elif host == "pooled":
                self.disp = SM.PooledJSONRPCServer(("127.0.0.1", 0), logRequests=False, bind_and_activate=False, config=self.config,
                                                   thread_pool=_NoRequestPool())
            else:
                self.disp = SM.SimpleJSONRPCServer(("127.0.0.1", 0), logRequests=False, bind_and_activate=False, config=self.config)
        self.fns = [self._make(i, d) for i, d in enumerate(case["table"])]
        for name, c in case.get("funcs", {}).items():
            self.disp.register_function(self.fns[c], name)
        inst = case.get("inst")
        if inst is not None:
            self.disp.register_instance(self._make_obj(inst["attrs"], inst.get("dispatch")))
        self.dm = self.fns[case["dm"]] if case.get("dm") is not None else None
        self.pool = None
        self.futures = []
        if case.get("pool"):
            # min_threads = max_threads: workers never retire while the case runs (worker retirement races are
            # the pool properties' business, C09-C11); stop() wakes them with sentinels whatever the timeout
            self.pool = TP.ThreadPool(case["pool"], min_threads=case["pool"], timeout=0.5)
            if case.get("pool_started", True):
                self.pool.start()
            self.disp.set_notification_pool(_PoolRecorder(self))

    # -- callables
    def _log(self, ev):
        with self.lock:
            self.events.append((threading.current_thread() is self.main_thread, ev))

    def _behave(self, desc, echo):
        beh = desc["beh"]
        if beh[0] == "ret":
            return beh[1]
        if beh[0] == "opaque":
            return Unserialisable()
        if beh[0] == "echo":
            return echo
        if beh[0] == "raise":
            raise EXC[beh[1]](beh[2])
        if beh[0] == "typeerr":
            raise TypeError(beh[1])
        if beh[0] == "fault":
            import jsonrpclib
            return jsonrpclib.Fault(beh[1], beh[2])
        raise AssertionError(beh)

    def _make(self, c, desc):
        rt = self
        if desc.get("role") == "dispatch":
            def dfn(method, params):
                rt._log(("call", c, [method, params]))
                return rt._behave(desc, [method, params])
            return dfn
        check = build_check(desc["sig"])

        def fn(*a, **k):
            check(*a, **k)            # raises TypeError exactly when the described signature does not bind
            rt._log(("call", c, [list(a), dict(k)]))
            return rt._behave(desc, [list(a), dict(k)])
        return fn

    def _make_obj(self, tree, dispatch=None):
        ns = {}
        obj = type("Registered", (object,), ns)()
        for name, node in tree.items():
            if node[0] == "call":
                val = self.fns[node[1]]
            elif node[0] == "obj":
                val = self._make_obj(node[1])
            else:
                val = object()
            setattr(obj, name, val)
        if dispatch is not None:
            setattr(obj, "_dispatch", self.fns[dispatch])
        return obj

    # -- running
    def run(self, body=None):
        """returns the observation of one _marshaled_dispatch call (then drains the pool)"""
        body = self.case["body"] if body is None else body
        start = len(self.events)
        raised, text = None, None
        try:
            text = self.disp._marshaled_dispatch(body, self.dm)
        except BaseException as ex:   # noqa  (a method may raise SystemExit & co: whatever escapes is an observation)
            raised = ex
        drained_ok = self.drain()
        with self.lock:
            evs = self.events[start:]
        log = [e for (is_main, e) in evs if is_main]
        drained = [e for (is_main, e) in evs if not is_main]
        return {"raised": raised, "text": text, "log": log, "drained": drained, "drained_ok": drained_ok}

    def drain(self):
        ok = True
        if self.pool is None:
            return ok
        if not self.case.get("pool_started", True):
            self.pool.start()
        for f in self.futures:
            try:
                f.result(20)
            except OSError:
                ok = False           # timeout waiting for the task: the pool lost it
            except Exception:        # noqa  the task's own exception
                pass
        self.futures = []
        self.pool.join(20)
        return ok

    def close(self):
        if self.pool is not None:
            self.pool.stop()
            self.pool = None
        if hasattr(self.disp, "server_close"):
            self.disp.server_close()


class _NoRequestPool(object):
    """stands for the request pool of a PooledJSONRPCServer that never serves a connection"""

    def enqueue(self, *a, **k):
        raise AssertionError("no connection is served in this harness")

    def stop(self):
        pass


class _PoolRecorder(object):
    """stands between the dispatcher and the real ThreadPool: records every enqueue, then forwards it"""

    def __init__(self, rt):
        self.rt = rt

    def enqueue(self, method, *args, **kwargs):
        rt = self.rt
        if rt.dm is not None and method is rt.dm:
            ev = ("enqueue", rt.case["dm"], args[0], args[1], None)
        else:
            cfg = args[2] if len(args) > 2 else kwargs.get("config")
            ev = ("enqueue", None, args[0], args[1], getattr(cfg, "version", None))
        rt._log(ev)
        fut = rt.pool.enqueue(method, *args, **kwargs)
        rt.futures.append(fut)
        return fut


# ------------------------------------------------------------------ parsing replies

class NotJSON(Exception):
    pass


def _reject(name):
    raise NotJSON("non-standard literal %s" % name)


def parse_reply(text):
    """('empty',) | ('value', v) | ('notjson', why)"""
    if text == "":
        return ("empty",)
    try:
        return ("value", json.loads(text, parse_constant=_reject))
    except (ValueError, NotJSON) as ex:
        return ("notjson", str(ex))


def parse_outcome(J, text, config):
    """the model's input: outcome of jsonrpclib.loads on the body"""
    if text == "":
        return ("empty",)
    # malformedness is decided by the standard-library parser, not by the code under test: a text it rejects is a
    # parse error whatever jsonrpclib.loads makes of it (jsonrpclib.loads is only asked what the class translator
    # does with a text that does parse)
    try:
        json.loads(text)
    except ValueError:
        return ("error",)
    except RecursionError:
        return ("error",)
    try:
        return ("value", J.loads(text, config))
    except Exception:     # noqa
        return ("error",)


def is_plain_json(v):
    if v is None or isinstance(v, (bool, int, str)):
        return True
    if isinstance(v, float):
        return math.isfinite(v)
    if isinstance(v, list):
        return all(is_plain_json(x) for x in v)
    if isinstance(v, dict):
        return all(isinstance(k, str) and is_plain_json(x) for k, x in v.items())
    return False


def to_model_val(v):
    """JSON data as it is; any other object (an instance built by the class translator) is opaque"""
    if v is None or isinstance(v, (bool, int, str, float)):
        return v
    if isinstance(v, list):
        return [to_model_val(x) for x in v]
    if isinstance(v, dict):
        return {k: to_model_val(x) for k, x in v.items()}
    return G.Opaque(0)


def finite(v):
    if isinstance(v, float):
        return math.isfinite(v)
    if isinstance(v, (list, tuple)):
        return all(finite(x) for x in v)
    if isinstance(v, dict):
        return all(finite(k) and finite(x) for k, x in v.items())
    return True


# ------------------------------------------------------------------ Gallina encoding

def g_nat(n):
    return "%d%%nat" % n


def g_form(ver):
    if ver == 1.0 or ver == 1:
        return "V1"
    if ver == 2.0 or ver == 2:
        return "V2"
    raise ValueError("version outside the model: %r" % (ver,))


def g_sig(s):
    return "(mkSig %s %s %s %s %s)" % (
        G.g_list([G.g_str(n) for n in s["pos"]]), g_nat(s["ndef"]), G.g_bool(s["varargs"]),
        G.g_list(["(%s, %s)" % (G.g_str(n), G.g_bool(d)) for n, d in s["kwonly"]]), G.g_bool(s["varkw"]))


def g_beh(b):
    if b[0] == "ret":
        return "(BReturn %s)" % G.g_val(b[1])
    if b[0] == "opaque":
        return "(BReturn (VOpaque 0%N))"
    if b[0] == "echo":
        return "BEcho"
    if b[0] == "raise":
        return "(BRaise %s %s)" % (G.g_str(b[1]), G.g_str(b[2]))
    if b[0] == "typeerr":
        return "(BTypeErr %s)" % G.g_str(b[1])
    if b[0] == "fault":
        return "(BFault (%d) %s)" % (b[1], G.g_str(b[2]))
    raise ValueError(b)


def g_cdesc(d):
    return "(mkC %s %s)" % (g_sig(d["sig"]), g_beh(d["beh"]))


def g_tree(tree):
    items = []
    for name, node in tree.items():
        if node[0] == "call":
            a = "(ACallable %s)" % g_nat(node[1])
        elif node[0] == "obj":
            a = "(AObj %s)" % g_tree(node[1])
        else:
            a = "AData"
        items.append("(%s, %s)" % (G.g_str(name), a))
    return G.g_list(items)


def g_reg(case):
    funcs = G.g_list(["(%s, %s)" % (G.g_str(n), g_nat(c)) for n, c in case.get("funcs", {}).items()])
    inst = case.get("inst")
    if inst is None:
        gi = "None"
    else:
        gi = "(Some (mkInst %s %s))" % (G.g_option(inst.get("dispatch"), g_nat), g_tree(inst["attrs"]))
    return "(mkReg %s %s)" % (funcs, gi)


def g_event(ev):
    if ev[0] == "call":
        return "(EvCall %s %s)" % (g_nat(ev[1]), G.g_val(to_model_val(ev[2])))
    _, dm, method, params, ver = ev
    return "(EvEnqueue %s %s %s %s)" % (G.g_option(dm, g_nat), G.g_str(method), G.g_val(to_model_val(params)),
                                        "None" if dm is not None else "(Some %s)" % g_form(ver))


def g_input(po):
    if po[0] == "empty":
        return "PEmpty"
    if po[0] == "error":
        return "PError"
    return "(PValue %s)" % G.g_val(to_model_val(po[1]))


def raisers(case):
    out = []
    for d in case["table"]:
        b = d["beh"]
        if b[0] == "raise":
            out.append((b[1], b[2]))
        elif b[0] == "typeerr":
            out.append(("TypeError", b[1]))
    return out


def obs_obj(rs, o):
    """wording of error.message replaced by 'mentions class_i and text_i' flags"""
    if isinstance(o, dict) and isinstance(o.get("error"), dict) and "message" in o["error"]:
        msg = o["error"]["message"]
        flags = [(c in msg and t in msg) for c, t in rs] if isinstance(msg, str) else "message is not a string"
        e = dict(o["error"])
        e["message"] = flags
        o = dict(o)
        o["error"] = e
    return o


def g_oreply(case, obs):
    if obs["raised"] is not None:
        return "ORaised"
    pr = parse_reply(obs["text"])
    if pr[0] == "empty":
        return "OEmpty"
    if pr[0] == "notjson":
        raise ValueError("reply is not JSON")
    rs = raisers(case)
    v = pr[1]
    if isinstance(v, list):
        return "(OMany %s)" % G.g_list([G.g_val(obs_obj(rs, o)) for o in v])
    return "(OOne %s)" % G.g_val(obs_obj(rs, v))


def encode_case(case, obs, po):
    """Gallina term of type dcase, or None when the case is outside the model's universe"""
    try:
        return "(mkCase %s %s %s %s %s %s %s %s %s %s)" % (
            g_form(case["ver"]), G.g_bool(case.get("jsonclass", True)),
            G.g_list([g_cdesc(d) for d in case["table"]]), g_reg(case),
            G.g_bool(bool(case.get("pool"))), G.g_option(case.get("dm"), g_nat), g_input(po),
            g_oreply(case, obs), G.g_list([g_event(e) for e in obs["log"]]),
            G.g_list([g_event(e) for e in obs["drained"]]))
    except (ValueError, TypeError):
        return None
