"""Helpers of property C13: snapshots of Config objects, write watchers, request bodies of the history
stream, operations of the config stream, Gallina encoders for `hcase` / `ccase` (Model/Config.v)."""
import json

from harness.core import gallina as G

from . import core as K, gen as GN

FIELDS = ["version", "content_type", "user_agent", "use_jsonclass", "serialize_method", "ignore_attribute"]
GENERATED_UA = "<generated-user-agent>"        # Model/Config.v: default_user_agent


# ------------------------------------------------------------------ snapshots

def default_user_agent():
    import jsonrpclib.config as C
    return C.Config().user_agent


def norm_ua(v, gen_ua):
    return GENERATED_UA if isinstance(v, str) and v == gen_ua else v


def snapshot(cfg):
    """field-by-field: the six attributes, the identity of both tables, and their contents"""
    return {"fields": [getattr(cfg, f) for f in FIELDS],
            "classes_id": id(cfg.classes), "handlers_id": id(cfg.serialize_handlers),
            "classes": list(cfg.classes.items()), "handlers": list(cfg.serialize_handlers.items())}


def _same_val(a, b):
    return type(a) is type(b) and a == b


def snapshot_diff(s0, s1):
    """None when equal, else the name of the first component that differs"""
    for f, a, b in zip(FIELDS, s0["fields"], s1["fields"]):
        if not _same_val(a, b):
            return f
    if s0["classes_id"] != s1["classes_id"]:
        return "classes (replaced by another object)"
    if s0["handlers_id"] != s1["handlers_id"]:
        return "serialize_handlers (replaced by another object)"
    if s0["classes"] != s1["classes"]:
        return "classes (contents)"
    if s0["handlers"] != s1["handlers"]:
        return "serialize_handlers (contents)"
    return None


# ------------------------------------------------------------------ watchers: every write, also a temporary one

def make_watched():
    """a Config subclass / table classes that record every mutation after `arm()`"""
    import jsonrpclib.config as C

    class Recorder(object):
        def __init__(self):
            self.writes = []
            self.armed = False

        def note(self, what):
            if self.armed:
                self.writes.append(what)

    def mutators(label):
        """dict mutators that report a call when it changed the table (a same-value write is not a change)"""
        def wrap(name):
            base = getattr(dict, name)

            def method(self, *a, **k):
                before = list(dict.items(self))
                try:
                    return base(self, *a, **k)
                finally:
                    after = list(dict.items(self))
                    changed = len(before) != len(after) or any(
                        x[0] != y[0] or x[1] is not y[1] and not _same_val(x[1], y[1]) for x, y in zip(before, after))
                    if changed and self._rec is not None:
                        self._rec.note("%s.%s" % (label, name))
            method.__name__ = name
            return method
        return {n: wrap(n) for n in ("__setitem__", "__delitem__", "pop", "popitem", "clear", "update", "setdefault",
                                     "__ior__")}

    WatchedClasses = type("WatchedClasses", (C.LocalClasses,), dict(mutators("classes"), _rec=None))
    WatchedDict = type("WatchedDict", (dict,), dict(mutators("serialize_handlers"), _rec=None))

    class WatchedConfig(C.Config):
        def __setattr__(self, name, value):
            rec = self.__dict__.get("_rec")
            if rec is not None:
                old = self.__dict__.get(name, Recorder)
                if old is not value and not _same_val(old, value):        # a same-value write is not a change
                    rec.note(name)
            object.__setattr__(self, name, value)

        def __delattr__(self, name):
            rec = self.__dict__.get("_rec")
            if rec is not None:
                rec.note("del " + name)
            object.__delattr__(self, name)

    return Recorder, WatchedConfig, WatchedClasses, WatchedDict


def _int_identity(obj, serialize_method, ignore_attribute, ignore, config):
    return obj


class ServerConfig(object):
    """The configuration objects of one history / threads case.

    own=True : a fresh watched Config(version, use_jsonclass) with the given table contents is the server's;
               DEFAULT is watched through a temporary class swap (its tables stay as they are).
    own=False: the dispatcher uses jsonrpclib.config.DEFAULT (what a dispatcher built without a `config`
               argument does); the table contents are put into DEFAULT's tables and removed by restore()."""

    def __init__(self, own, ver, jsonclass, classes, handlers):
        import jsonrpclib.config as C
        self.C = C
        Recorder, WConfig, WClasses, WDict = make_watched()
        self.rec_server = Recorder()
        self.rec_default = Recorder()
        self.own = own
        self._default_class = C.DEFAULT.__class__
        self._default_classes_class = C.DEFAULT.classes.__class__
        self._added = ([], [])
        if own:
            cfg = WConfig(version=ver, use_jsonclass=jsonclass)
            cl = WClasses()
            for k, v in classes:
                cl[k] = v
            hd = WDict()
            for k, v in handlers:
                hd[k] = v
            # a real handler as well: the identity on `int` (so that replies stay what the model predicts).  Results
            # holding a bool -- an instance of a SUBCLASS of the handled type -- must neither use it nor make serving
            # write anything into the table
            hd[int] = _int_identity
            cfg.classes = cl
            cfg.serialize_handlers = hd
            cl._rec = hd._rec = self.rec_server
            object.__setattr__(cfg, "_rec", self.rec_server)
            self.server = cfg
        else:
            for k, v in classes:
                if k not in C.DEFAULT.classes:
                    C.DEFAULT.classes[k] = v
                    self._added[0].append(k)
            for k, v in handlers:
                if k not in C.DEFAULT.serialize_handlers:
                    C.DEFAULT.serialize_handlers[k] = v
                    self._added[1].append(k)
            self.server = C.DEFAULT
            self.rec_default = self.rec_server
        # watch DEFAULT itself (attribute writes and its LocalClasses table)
        C.DEFAULT.__class__ = WConfig
        object.__setattr__(C.DEFAULT, "_rec", self.rec_default)
        if isinstance(C.DEFAULT.classes, C.LocalClasses):
            C.DEFAULT.classes.__class__ = WClasses
            C.DEFAULT.classes._rec = self.rec_default
        self.snap_server0 = snapshot(self.server)
        self.snap_default0 = snapshot(C.DEFAULT)

    def arm(self, on=True):
        self.rec_server.armed = on
        self.rec_default.armed = on

    def flags(self):
        """(server snapshot difference, DEFAULT snapshot difference): None = equal to the initial one"""
        return (snapshot_diff(self.snap_server0, snapshot(self.server)),
                snapshot_diff(self.snap_default0, snapshot(self.C.DEFAULT)))

    def restore(self):
        C = self.C
        self.arm(False)
        d = C.DEFAULT
        if isinstance(d.classes, C.LocalClasses):
            try:
                d.classes.__dict__.pop("_rec", None)
                d.classes.__class__ = self._default_classes_class
            except TypeError:
                pass
        d.__dict__.pop("_rec", None)
        d.__class__ = self._default_class
        # undo whatever a defective tree did to the shared default, so that later cases start clean
        s0 = self.snap_default0
        for f, v in zip(FIELDS, s0["fields"]):
            setattr(d, f, v)
        for k in self._added[0]:
            d.classes.pop(k, None)
        for k in self._added[1]:
            d.serialize_handlers.pop(k, None)


# ------------------------------------------------------------------ request bodies of the history stream

def _r(method, params, rid, v2):
    return GN.req(method, params, rid, v2)


A = GN.ABSENT

BODY_KINDS = {
    "call-2.0": lambda: _r("ok", [1, "x"], 11, True),
    "call-1.0": lambda: _r("ok", [1, "x"], 12, False),
    "failing-2.0": lambda: _r("fail", [], 13, True),
    "failing-1.0": lambda: _r("fail", [], "s14", False),
    "echo-bool-2.0": lambda: _r("echo", [True, 0, {"k": False}], 33, True),
    "echo-bool-1.0": lambda: _r("echo", [True, 1], 34, False),
    "opq-2.0": lambda: _r("opq", [], 35, True),
    "opq-1.0": lambda: _r("opq", [], 36, False),
    "fault-2.0": lambda: _r("flt", [], 31, True),
    "fault-1.0": lambda: _r("flt", [], 32, False),
    "unknown-2.0": lambda: _r("nope", A, 15, True),
    "unknown-1.0": lambda: _r("nope", A, 16, False),
    "notification-2.0": lambda: _r("ok", [], A, True),
    "notification-1.0": lambda: _r("ok", [], None, False),
    "invalid-2.0": lambda: _r(A, A, 17, True),
    "invalid-1.0": lambda: _r(5, [], 18, False),
    "invalid-non-object": lambda: 5,
    "invalid-no-version": lambda: {"method": "ok", "params": []},
    "empty-array": lambda: [],
    "echo-1.0": lambda: _r("echo", {"a": [1, {"b": None}]}, 19, False),
    "bad-arity-1.0": lambda: _r("two", [1], 20, False),
    "batch-mixed": lambda: [_r("ok", [1], 21, False), _r("ok", [2], 22, True), _r(A, A, 23, True), _r("ok", [], A, True),
                            _r("fail", [], 24, False), 7, _r("nope", A, 25, False)],
    "batch-1.0": lambda: [_r("ok", [1], 26, False), _r("nope", A, 27, False), _r("ok", [], None, False), _r("flt", [], 28, False)],
    "batch-notifications": lambda: [_r("ok", [], A, True), _r("ok", [], None, False)],
    # the member counts by its presence: whatever its value, the request is answered in the server's own form
    "call-version-1.0-string": lambda: dict(_r("ok", [1], 41, True), jsonrpc="1.0"),
    "failing-version-number-1": lambda: dict(_r("fail", [], 42, True), jsonrpc=1),
    "unknown-version-true": lambda: dict(_r("nope", A, 43, True), jsonrpc=True),
    "call-version-null": lambda: dict(_r("ok", [1], 44, True), jsonrpc=None),
    "batch-odd-versions": lambda: [dict(_r("ok", [1], 45, True), jsonrpc="1.1"), dict(_r("fail", [], 46, True), jsonrpc=[2]),
                                   _r("ok", [2], 47, False)],
}
TEXT_KINDS = {"unparsable": "{\"jsonrpc\": \"2.0\", \"method\": ", "empty-body": ""}
KINDS = list(BODY_KINDS) + list(TEXT_KINDS)


def body_of(kind):
    if kind in TEXT_KINDS:
        return TEXT_KINDS[kind]
    return json.dumps(BODY_KINDS[kind]())


SERVER_TABLES = ([["local.Point", "class-Point"], ["Other", "class-Other"]], [["handler-key", "handler-value"]])


# ------------------------------------------------------------------ replies, modulo wording

def strip_wording(o):
    """a reply object without the wording of error.message"""
    if isinstance(o, dict) and isinstance(o.get("error"), dict):
        e = dict(o["error"])
        e.pop("message", None)
        o = dict(o)
        o["error"] = e
    return o


def reply_skeleton(obs):
    """('raised', class) | ('empty',) | ('notjson',) | ('one', obj) | ('many', [objs])"""
    if obs["raised"] is not None:
        return ("raised", type(obs["raised"]).__name__)
    pr = K.parse_reply(obs["text"])
    if pr[0] != "value":
        return (pr[0],)
    v = pr[1]
    if isinstance(v, list):
        return ("many", [strip_wording(o) for o in v])
    return ("one", strip_wording(v))


def form_of(o):
    """'2.0' | '1.0' | None (neither)"""
    if not isinstance(o, dict):
        return None
    if "jsonrpc" in o:
        return "2.0" if o["jsonrpc"] == "2.0" and "id" in o and (("result" in o) != ("error" in o)) else None
    return "1.0" if ("result" in o and "error" in o and "id" in o) else None


# ------------------------------------------------------------------ operations of the config stream

OP_NAMES = ["SetVersion", "SetUseJsonclass", "SetContentType", "SetUserAgent", "SetSerializeMethod", "SetIgnoreAttr",
            "ClassesAdd", "ClassesDel", "HandlersSet", "HandlersDel"]
_ATTR = {"SetVersion": "version", "SetUseJsonclass": "use_jsonclass", "SetContentType": "content_type",
         "SetUserAgent": "user_agent", "SetSerializeMethod": "serialize_method", "SetIgnoreAttr": "ignore_attribute"}
VALUES = [1.0, 2.0, 1, 2, "x", "", None, True, False, [1, "a"], {"a": 1}, "application/json", "_ser", 0]
KEYS = ["k1", "k2", "local.Point", "handler-key", ""]


def apply_op(cfg, op):
    name = op[0]
    if name in _ATTR:
        setattr(cfg, _ATTR[name], op[1])
    elif name == "ClassesAdd":
        cfg.classes[op[1]] = op[2]             # what LocalClasses.add(cls, name) does (a copy's table is a plain dict)
    elif name == "ClassesDel":
        cfg.classes.pop(op[1], None)
    elif name == "HandlersSet":
        cfg.serialize_handlers[op[1]] = op[2]
    elif name == "HandlersDel":
        cfg.serialize_handlers.pop(op[1], None)
    else:
        raise ValueError(op)


def random_op(rng):
    name = rng.choice(OP_NAMES)
    if name in _ATTR:
        return [name, rng.choice(VALUES)]
    if name in ("ClassesAdd", "HandlersSet"):
        return [name, rng.choice(KEYS), rng.choice(VALUES)]
    return [name, rng.choice(KEYS)]


def fixed_ops():
    """one representative of every operation"""
    return [["SetVersion", 1.0], ["SetUseJsonclass", False], ["SetContentType", "application/json"],
            ["SetUserAgent", "agent"], ["SetSerializeMethod", "_ser"], ["SetIgnoreAttr", "_ign"],
            ["ClassesAdd", "k1", "v1"], ["ClassesDel", "local.Point"], ["HandlersSet", "k2", [1]],
            ["HandlersDel", "handler-key"]]


# ------------------------------------------------------------------ Gallina

def g_table(items):
    return G.g_list(["(%s, %s)" % (G.g_val(k), G.g_val(v)) for k, v in items])


def g_op(op):
    return "(%s %s)" % (op[0], " ".join(G.g_val(x) for x in op[1:]))


def g_cobs(o):
    return "(mkCObs %s %s %s %s %s)" % (G.g_list([G.g_val(v) for v in o["fields"]]), G.g_bool(o["same_classes"]),
                                        G.g_bool(o["same_handlers"]), g_table(o["classes"]), g_table(o["handlers"]))


def g_ccase(case, obs):
    return "(mkCCase %s %s %s %s %s %s %s)" % (
        G.g_list([G.g_val(v) for v in case["fields"]]), g_table(case["classes"]), g_table(case["handlers"]),
        K.g_nat(case.get("depth", 0)),
        G.g_list([g_op(o) for o in case["pre"]]),
        G.g_list(["(%s, %s)" % (G.g_bool(on_copy), g_op(o)) for on_copy, o in case["ops"]]),
        G.g_list(["(%s, %s)" % (g_cobs(a), g_cobs(b)) for a, b in obs["steps"]]))


def g_hcase(case, dcase, obs):
    items = []
    for step in obs["steps"]:
        items.append("(%s, %s, %s)" % (K.g_oreply(dcase, step), G.g_bool(step["server_diff"] is None),
                                       G.g_bool(step["default_diff"] is None)))
    return "(mkHCase %s %s %s %s %s %s %s %s %s %s)" % (
        G.g_bool(case["own"]), G.g_val(case["ver"]), G.g_val(case["jsonclass"]),
        g_table(case["classes"]), g_table(case["handlers"]),
        G.g_list([K.g_cdesc(d) for d in dcase["table"]]), K.g_reg(dcase), G.g_option(dcase.get("dm"), K.g_nat),
        G.g_list([K.g_input(step["po"]) for step in obs["steps"]]), G.g_list(items))
