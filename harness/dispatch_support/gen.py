"""Generator vocabulary of the dispatch group: a standard registry, entry shapes, id pool."""
import json

from . import core as K

# ---- the standard callable table (cid = index)
OK, ECHO, FAIL, TWO, OPQ, TBODY, DM_ECHO, DM_RAISE, DM_ATTR, IM, DEEP, KW, FAIL2, PRIV, DM_RET, FLT, DM_FLT = range(17)


def _d(beh, s=None, role=None):
    d = K.cdesc(beh, s)
    if role:
        d["role"] = role
    return d


def std_table():
    return [
        _d(["ret", 42]),                                        # OK      "ok"
        _d(["echo"]),                                           # ECHO    "echo"
        _d(["raise", "ValueError", "boom-ve"]),                 # FAIL    "fail"
        _d(["ret", "two"], K.sig(pos=["a", "b"])),              # TWO     "two"   exactly two positionals
        _d(["opaque"]),                                         # OPQ     "opq"   result whose conversion fails
        _d(["typeerr", "tb-text"]),                             # TBODY   "tbody" TypeError raised by the body (F13)
        _d(["echo"], role="dispatch"),                          # DM_ECHO  dispatch function returning [method, params]
        _d(["raise", "RuntimeError", "dm-boom"], role="dispatch"),    # DM_RAISE
        _d(["raise", "AttributeError", "dm-attr"], role="dispatch"),  # DM_ATTR  (instance _dispatch: falls back to resolution)
        _d(["ret", {"im": [1, None]}]),                         # IM      instance attribute "im"
        _d(["ret", 0]),                                         # DEEP    instance attribute "sub.deep"
        _d(["echo"], K.sig(pos=["a"], ndef=0, kwonly=[["k", False], ["o", True]])),   # KW   "kw"
        _d(["raise", "CustomError", "custom-text"]),            # FAIL2   "fail2"
        _d(["ret", "private!"]),                                # PRIV    reachable only through underscore names
        _d(["ret", None], role="dispatch"),                     # DM_RET   dispatch function returning None
        _d(["fault", -32050, "user-fault"]),                    # FLT     "flt"   returns a Fault built by user code (default config)
        _d(["fault", 7, "dm-fault"], role="dispatch"),          # DM_FLT   dispatch function returning a Fault
    ]


FUNCS = {"ok": OK, "echo": ECHO, "fail": FAIL, "two": TWO, "opq": OPQ, "kw": KW, "fail2": FAIL2, "flt": FLT}

TREE = {
    "im": ["call", IM],
    "_hidden": ["call", PRIV],
    "__dunder": ["call", PRIV],
    "data": ["data"],
    "sub": ["obj", {"deep": ["call", DEEP], "_p": ["call", PRIV], "__d": ["obj", {"x": ["call", PRIV]}],
                    "inner": ["obj", {"leaf": ["call", IM], "_q": ["call", PRIV]}]}],
    "_psub": ["obj", {"pub": ["call", PRIV]}],
}

# dispatch kinds: (name, dm, inst)
DISPATCH_KINDS = {
    "default": dict(dm=None, inst=None),
    "default+instance": dict(dm=None, inst={"dispatch": None, "attrs": TREE}),
    "custom-returns": dict(dm=DM_ECHO, inst=None),
    "custom-raises": dict(dm=DM_RAISE, inst=None),
    "custom-none": dict(dm=DM_RET, inst=None),
    "custom-returns-fault": dict(dm=DM_FLT, inst=None),
    "instance-dispatch-returns": dict(dm=None, inst={"dispatch": DM_ECHO, "attrs": TREE}),
    "instance-dispatch-raises": dict(dm=None, inst={"dispatch": DM_RAISE, "attrs": TREE}),
    "instance-dispatch-attrerror": dict(dm=None, inst={"dispatch": DM_ATTR, "attrs": TREE}),
}


def base_case(ver=2.0, kind="default", jsonclass=True, pool=0, pool_started=True, funcs=True):
    k = DISPATCH_KINDS[kind]
    return {"ver": ver, "jsonclass": jsonclass, "table": std_table(), "funcs": dict(FUNCS) if funcs else {},
            "inst": k["inst"], "pool": pool, "pool_started": pool_started, "dm": k["dm"], "kind": kind, "body": ""}


ABSENT = "<absent>"
IDS = [ABSENT, None, "", "a", 0, -1, 1.5, 0.0, True, False, [1], [], {"a": 1}, {}, 10 ** 20]
REAL_IDS = [i for i in IDS if i not in (ABSENT, None, "")]


def req(method, params=ABSENT, rid=ABSENT, v2=True):
    """a request object; v2: carries "jsonrpc":"2.0" """
    r = {}
    if v2:
        r["jsonrpc"] = "2.0"
    if method is not ABSENT:
        r["method"] = method
    if params is not ABSENT:
        r["params"] = params
    if rid is not ABSENT:
        r["id"] = rid
    return r


# entry kinds of C03/C04/C13: name -> builder(rid, v2)
ODD_VERSIONS = [None, [2], {"v": 2}, True, 2, 2.0, "1.0", "1.1", "2", "two", 1, 1.0, 3, "", False, 0]

ENTRY_KINDS = {
    "ok-call": lambda rid, v2: req("ok", [1, "x"], rid, v2),
    "raising-call": lambda rid, v2: req("fail", [], rid, v2),
    "unknown-method": lambda rid, v2: req("nope", ABSENT, rid, v2),
    "bad-arity": lambda rid, v2: req("two", [1], rid, v2),
    "conversion-fails": lambda rid, v2: req("opq", {}, rid, v2),
    "fault-returning-call": lambda rid, v2: req("flt", [], rid, v2),
    "echo-kwargs": lambda rid, v2: req("echo", {"a": [1, {"b": None}]}, rid, v2),
    "invalid-non-dict": lambda rid, v2: [5, "x", True, 1.5, None, [], {}][len(repr(rid)) % 7],
    "invalid-dict": lambda rid, v2: req(ABSENT, ABSENT, rid, v2),
    # an entry that is itself a non-empty array is ONE invalid entry (not a nested batch), whatever it contains
    "invalid-array-entry": lambda rid, v2: [[1], ["ok"], [None, 2]][len(repr(rid)) % 3],
    "invalid-nested-call": lambda rid, v2: [req("ok", [9], 77, v2)],
    "invalid-nested-notification": lambda rid, v2: [req("ok", [9], ABSENT, True)],
    "invalid-method-type": lambda rid, v2: req(5, [], rid, v2),
    "invalid-params-scalar": lambda rid, v2: req("ok", 7, rid, v2),
    "invalid-no-version": lambda rid, v2: {"method": "ok", "params": []},
    # the "jsonrpc" member counts by its presence, whatever its value
    "odd-version-call": lambda rid, v2: dict(req("ok", [3], rid, True), jsonrpc=ODD_VERSIONS[len(repr(rid)) % len(ODD_VERSIONS)]),
    "odd-version-failing-call": lambda rid, v2: dict(req("fail", [], rid, True), jsonrpc=ODD_VERSIONS[(len(repr(rid)) + 3) % len(ODD_VERSIONS)]),
    "odd-version-unknown": lambda rid, v2: dict(req("nope", [], rid, True), jsonrpc=ODD_VERSIONS[(len(repr(rid)) + 5) % len(ODD_VERSIONS)]),
}


def dumps(v):
    return json.dumps(v)
