"""Random class worlds and supported object graphs for C07 / C20 (DESIGN.md 4/C07 Tie)."""
from harness.jsonclass_support import world as W

PUBLIC = ["a", "b", "val", "name", "items"]
PROTECTED = ["_p", "_q"]
PRIVATE = ["__m", "__n"]
LEAVES = [None, True, False, 0, 1, -7, 2 ** 70, 0.0, -0.0, 1.5, "", "s", "é"]
JSON_KEYS = ["k", "", "ké", "x y"]


def rand_json(rng, depth=2):
    if depth <= 0 or rng.random() < 0.4:
        return rng.choice(LEAVES)
    if rng.random() < 0.5:
        return [rand_json(rng, depth - 1) for _ in range(rng.randint(0, 3))]
    return {k: rand_json(rng, depth - 1) for k in rng.sample(JSON_KEYS, rng.randint(0, 3))}


def gen_world(rng, tag, n_classes=8, with_ignore=False, ser_name="_serialize", ign_name="_ignore"):
    """descriptors in table order (a class before its bases)"""
    mods = ["vm%s_a" % tag, "vm%s_a.sub" % tag, "vm%s_b" % tag]
    built = []        # creation order: bases first
    counter = [0]

    def fresh_name(prefix):
        counter[0] += 1
        return "%s%d" % (prefix, counter[0])

    def field_names(k):
        pool = PUBLIC + PROTECTED + PRIVATE
        return rng.sample(pool, min(k, len(pool)))

    for _ in range(n_classes):
        family = rng.choice(["dict", "dict", "slot", "slot", "ser"])
        local = rng.random() < 0.35
        module = W.MAIN if local else rng.choice(mods)
        name = fresh_name(rng.choice(["Bean", "Node", "_Hidden", "Thing"]))
        cid = name if local else module + "." + name
        same = [d for d in built if (d["kind"] == "slot") == (family == "slot") and d["kind"] in ("dict", "slot")
                and depth_of(d, built) < 3]
        bases = [rng.choice(same)["cid"]] if same and rng.random() < 0.5 else []
        inherited = set()
        for b in bases:
            inherited |= set(all_field_names(b, built))
        names = [n for n in field_names(rng.randint(0, 5))]
        if family == "slot":
            own = [n for n in names if W.mangle(name, n) not in inherited and n not in inherited]
            d = W.cdesc(cid, "slot", module, name, bases=bases, slots=own)
            if rng.random() < 0.4 and own:
                # the constructor assigns some of the slots
                d["defaults"] = [(W.mangle(name, n), rand_json(rng, 1)) for n in rng.sample(own, rng.randint(1, len(own)))]
        elif family == "dict":
            dn = rng.sample(names, rng.randint(0, len(names)))
            d = W.cdesc(cid, "dict", module, name, bases=bases, defaults=[(W.mangle(name, n), rand_json(rng, 1)) for n in dn])
        else:
            params = [n for n in names if not n.startswith("__")][:rng.randint(0, 3)]
            rest = [n for n in names if n not in params and rng.random() < 0.5]
            d = W.cdesc(cid, rng.choice(["ser_list", "ser_dict"]), module, name, bases=[b for b in bases if by(built, b)["kind"] == "dict"],
                        params=[p for p in params if p not in inherited],
                        defaults=[(W.mangle(name, n), rand_json(rng, 1)) for n in rest],
                        ser_name=(rng.choice([ser_name, "_custom_ser"]) if with_ignore else ser_name))
        if with_ignore and d["kind"] in ("dict", "slot") and rng.random() < 0.5:
            cand = all_field_names(None, built, d) + ["zz"]
            d["ign"] = (ign_name if rng.random() < 0.8 else "_other_ignore", rng.sample(cand, rng.randint(0, min(3, len(cand)))))
        built.append(d)
    # a locally registered class whose simple name is also the name of a class that lives in a module: the module-
    # qualified descriptor must still be rebuilt as the module's class, the bare name as the local one
    mod_classes = [d for d in built if d["module"] != W.MAIN and d["kind"] in ("dict", "slot")]
    if mod_classes and rng.random() < 0.8:
        t = rng.choice(mod_classes)
        if not any(d["cid"] == t["name"] for d in built):
            built.append(W.cdesc(t["name"], "dict", W.MAIN, t["name"], defaults=[("shadow", rand_json(rng, 1))]))
    # enums and Decimal
    em = rng.choice(mods)
    built.append(W.cdesc(em + ".Color", "enum", em, "Color", members=[1, 2, "b"]))
    built.append(W.cdesc("LocalMood", "enum", W.MAIN, "LocalMood", members=["up", 5]))
    built.append(W.DECIMAL)
    return list(reversed(built))


def by(descs, cid):
    return [d for d in descs if d["cid"] == cid][0]


def depth_of(d, descs):
    return 0 if not d["bases"] else 1 + max(depth_of(by(descs, b), descs) for b in d["bases"])


def all_field_names(cid, descs, d=None):
    """real attribute names the constructor chain / slots of the class provide"""
    d = d or by(descs, cid)
    out = []
    for b in d["bases"]:
        out += all_field_names(b, descs)
    out += [W.mangle(d["name"], s) for s in d["slots"]]
    out += list(d["params"])
    out += [k for k, _ in d["defaults"]]
    seen, uniq = set(), []
    for n in out:
        if n not in seen:
            seen.add(n)
            uniq.append(n)
    return uniq


def ctor_keys(cid, descs):
    """attribute names in the order the generated constructor assigns them (fset semantics)"""
    d = by(descs, cid)
    out = []
    for b in d["bases"]:
        for k in ctor_keys(b, descs):
            if k not in out:
                out.append(k)
    for k in list(d["params"]) + [k for k, _ in d["defaults"]]:
        if k not in out:
            out.append(k)
    return out


def slot_names(cid, descs):
    d = by(descs, cid)
    out = [W.mangle(d["name"], s) for s in d["slots"]]
    for b in d["bases"]:
        out += [s for s in slot_names(b, descs) if s not in out]
    return out


def rand_instance(rng, descs, depth, classes=None, extra_ok=True):
    cands = [d for d in descs if d["kind"] in ("dict", "slot", "ser_list", "ser_dict") and (classes is None or d["cid"] in classes)]
    d = rng.choice(cands)
    cid = d["cid"]
    if d["kind"] == "slot":
        keys = ctor_keys(cid, descs) + [s for s in slot_names(cid, descs) if s not in ctor_keys(cid, descs)]
        return W.Inst(cid, [(k, rand_field_value(rng, descs, depth - 1)) for k in keys])
    keys = ctor_keys(cid, descs)
    if d["kind"].startswith("ser"):
        fields = [(k, rand_json(rng, 2)) for k in keys]
        if extra_ok and rng.random() < 0.5:
            fields.append(("extra", rand_json(rng, 2)))
        return W.Inst(cid, fields)
    fields = [(k, rand_field_value(rng, descs, depth - 1)) for k in keys]
    if extra_ok:
        for k in rng.sample(["extra", "_x2", "zz"], rng.randint(0, 2)):
            if k not in keys:
                fields.append((k, rand_field_value(rng, descs, depth - 1)))
    return W.Inst(cid, fields)


def rand_field_value(rng, descs, depth):
    """supported field values: primitives and containers (which may hold beans); never a bean directly"""
    if depth <= 0 or rng.random() < 0.45:
        return rng.choice(LEAVES)
    return rand_container(rng, descs, depth)


def rand_container(rng, descs, depth):
    r = rng.random()
    n = rng.randint(0, 3)
    if r < 0.4:
        return [rand_value(rng, descs, depth - 1) for _ in range(n)]
    if r < 0.55:
        return tuple(rand_value(rng, descs, depth - 1) for _ in range(n))
    if r < 0.65:
        return set(rng.sample([x for x in LEAVES if x is not None] + [(1, 2)], n))
    return {k: rand_value(rng, descs, depth - 1) for k in rng.sample(JSON_KEYS, n)}


def rand_value(rng, descs, depth):
    """supported values at a container position: primitives, containers, beans, enum members, Decimals"""
    r = rng.random()
    if depth <= 0 or r < 0.3:
        return rng.choice(LEAVES)
    if r < 0.6:
        return rand_instance(rng, descs, depth)
    if r < 0.68:
        e = rng.choice([d for d in descs if d["kind"] == "enum"])
        return W.EnumV(e["cid"], rng.choice(e["members"]))
    if r < 0.74:
        return W.Dec(rng.choice(["1.5", "0", "-2", "10.250", "-0"]))
    return rand_container(rng, descs, depth)


def rand_top(rng, descs, depth):
    r = rng.random()
    if r < 0.5:
        return rand_instance(rng, descs, depth)
    if r < 0.6:
        e = rng.choice([d for d in descs if d["kind"] == "enum"])
        return W.EnumV(e["cid"], rng.choice(e["members"]))
    if r < 0.65:
        return W.Dec(rng.choice(["1.5", "0", "-2"]))
    return rand_container(rng, descs, depth)


# ------------------------------------------------------------------ C20: customisation

def rand_custom_field_value(rng, descs, depth):
    """field values for C20: supported ones, plus beans / enum members / Decimals / library objects /
    functions held directly (neither supported nor -- unless a handler says so -- handled)"""
    r = rng.random()
    if r < 0.12:
        return W.Opaque(rng.randint(0, 2))
    if r < 0.24 and depth > 0:
        return rand_custom_instance(rng, descs, depth - 1)
    if r < 0.3:
        e = rng.choice([d for d in descs if d["kind"] == "enum"])
        return W.EnumV(e["cid"], rng.choice(e["members"]))
    if r < 0.34:
        return W.Dec("2.5")
    if depth <= 0 or r < 0.65:
        return rng.choice(LEAVES + ["a", "b", "zz", "_p"])
    return rand_custom_container(rng, descs, depth)


def rand_custom_container(rng, descs, depth):
    r = rng.random()
    n = rng.randint(0, 3)
    if r < 0.4:
        return [rand_custom_value(rng, descs, depth - 1) for _ in range(n)]
    if r < 0.6:
        return tuple(rand_custom_value(rng, descs, depth - 1) for _ in range(n))
    if r < 0.68:
        return set(rng.sample([1, "s", 2.5, (1, 2), False], n))
    return {k: rand_custom_value(rng, descs, depth - 1) for k in rng.sample(JSON_KEYS, n)}


def rand_custom_value(rng, descs, depth):
    r = rng.random()
    if depth <= 0 or r < 0.3:
        return rng.choice(LEAVES)
    if r < 0.65:
        return rand_custom_instance(rng, descs, depth)
    if r < 0.7:
        return W.Dec("2.5")
    return rand_custom_container(rng, descs, depth)


def rand_custom_instance(rng, descs, depth):
    cands = [d for d in descs if d["kind"] in ("dict", "slot", "ser_list", "ser_dict")]
    d = rng.choice(cands)
    cid = d["cid"]
    if d["kind"] == "slot":
        keys = ctor_keys(cid, descs) + [s for s in slot_names(cid, descs) if s not in ctor_keys(cid, descs)]
        return W.Inst(cid, [(k, rand_custom_field_value(rng, descs, depth - 1)) for k in keys])
    keys = ctor_keys(cid, descs)
    if d["kind"].startswith("ser"):
        fields = [(k, rand_json(rng, 2)) for k in keys]
        if rng.random() < 0.5:
            fields.append(("extra", rand_json(rng, 2)))
        return W.Inst(cid, fields)
    fields = [(k, rand_custom_field_value(rng, descs, depth - 1)) for k in keys]
    for k in rng.sample(["extra", "_x2", "zz"], rng.randint(0, 2)):
        if k not in keys:
            fields.append((k, rand_custom_field_value(rng, descs, depth - 1)))
    if rng.random() < 0.12:
        # an ignore list held by the instance itself
        names = [k for k, _ in fields]
        fields.append((rng.choice(["_ignore", "_other_ignore"]), rng.sample(names + ["nope"], rng.randint(0, min(2, len(names) + 1)))))
    return W.Inst(cid, fields)
