"""Line ranges of the anchored functions, looked up in the working tree that is being checked
(the repairs F4/F9/F15 shift the line numbers of properties.jsonl, which refer to the pinned tree)."""
import ast
import os

from harness.core import env


def func_ranges(specs):
    """specs: [(relative file, "func" | "Class.method")] -> [(relative file, first line, last line)]"""
    out = []
    for rel, qual in specs:
        path = os.path.join(env.REPO, rel)
        try:
            tree = ast.parse(open(path).read())
        except Exception:      # noqa
            continue
        parts = qual.split(".")
        nodes = tree.body
        found = None
        for i, p in enumerate(parts):
            found = None
            for n in nodes:
                if isinstance(n, (ast.FunctionDef, ast.ClassDef)) and n.name == p:
                    found = n
                    break
            if found is None:
                break
            nodes = found.body
        if found is not None:
            # skip the signature and the docstring: start at the first statement after it
            body = found.body
            first = body[1].lineno if (len(body) > 1 and isinstance(body[0], ast.Expr) and isinstance(getattr(body[0], "value", None), ast.Constant)) else body[0].lineno
            out.append((rel, first, found.end_lineno))
    return out
