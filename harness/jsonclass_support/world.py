"""Class worlds for the jsonclass properties (C15, C08, C07, C20).

A *class descriptor* is plain data.  From one descriptor the harness builds (a) the real
Python class -- with `type()` inside a synthetic module registered in `sys.modules`
(module-qualified classes) or with `__module__ == "__main__"` (local classes, reachable only
through `Config.classes`) -- and (b) the Gallina `classdef` of the model's class table
(DESIGN.md 3.7).  Values are *descriptor trees*: native Python data whose special nodes are
`Inst` (instance of a described class), `Dec` (decimal.Decimal), `EnumV` (enum member) and
`Opaque` (object of an unsupported type).  `World.build` turns a tree into real objects,
`World.abstract` turns real objects back into a tree (type-exact), `g_dv` encodes a tree as a
Gallina `val`."""
import decimal
import enum
import math
import sys
import types

from harness.core import gallina as G

MAIN = "__main__"


class Inst(object):
    def __init__(self, cid, fields):
        self.cid = cid
        self.fields = [(k, v) for k, v in fields]

    def __repr__(self):
        return "Inst(%r, %r)" % (self.cid, self.fields)


class Dec(object):
    def __init__(self, s):
        self.s = s

    def __repr__(self):
        return "Dec(%r)" % (self.s,)


class EnumV(object):
    def __init__(self, cid, value):
        self.cid = cid
        self.value = value

    def __repr__(self):
        return "EnumV(%r, %r)" % (self.cid, self.value)


class SetSeq(object):
    """a set / frozenset of the implementation run, in the iteration order of that very object
    (what the list built from it by dump follows); only used to encode the model's input"""

    def __init__(self, frozen, items):
        self.frozen = frozen
        self.items = list(items)


class Opaque(object):
    def __init__(self, tag):
        self.tag = tag

    def __repr__(self):
        return "Opaque(%d)" % self.tag


# ------------------------------------------------------------------ descriptor trees: generic walkers

def g_dv(v):
    if isinstance(v, Inst):
        return "(VInst %s %s)" % (G.g_str(v.cid), G.g_list(["(%s, %s)" % (G.g_str(k), g_dv(x)) for k, x in v.fields]))
    if isinstance(v, Dec):
        return "(VDec %s)" % G.g_str(v.s)
    if isinstance(v, EnumV):
        return "(VEnum %s %s)" % (G.g_str(v.cid), g_dv(v.value))
    if isinstance(v, Opaque):
        return "(VOpaque %d%%N)" % v.tag
    if isinstance(v, SetSeq):
        return "(%s %s)" % ("VFrozen" if v.frozen else "VSet", G.g_list([g_dv(x) for x in v.items]))
    if isinstance(v, list):
        return "(VList %s)" % G.g_list([g_dv(x) for x in v])
    if isinstance(v, tuple):
        return "(VTuple %s)" % G.g_list([g_dv(x) for x in v])
    if isinstance(v, frozenset):
        return "(VFrozen %s)" % G.g_list([g_dv(x) for x in v])
    if isinstance(v, set):
        return "(VSet %s)" % G.g_list([g_dv(x) for x in v])
    if isinstance(v, dict):
        return "(VDict %s)" % G.g_list(["(%s, %s)" % (g_dv(k), g_dv(x)) for k, x in v.items()])
    if isinstance(v, bool) or v is None or isinstance(v, str):
        return G.g_val(v)
    if isinstance(v, int):
        return "(VInt %s)" % g_Z(v)
    if isinstance(v, float):
        if not math.isfinite(v):
            raise ValueError("non-finite float is outside the value universe")
        if v == 0.0 and math.copysign(1.0, v) < 0:
            return "(VFlt FNegZero)"
        n, d = v.as_integer_ratio()
        return "(VFlt (F %s %s%%positive))" % (g_Z(n), hex(d) if d >= 2 ** 64 else str(d))
    return G.g_val(v)


def g_Z(z):
    """big literals in hexadecimal: coqc parses decimal literals in quadratic time"""
    if abs(z) >= 2 ** 64:
        return "(-%s)" % hex(-z) if z < 0 else hex(z)
    return "(%d)" % z if z < 0 else "%d" % z


def g_outcome(o):
    """('ok', tree) | ('raise', exception object)"""
    if o[0] == "ok":
        return "(Ok %s)" % g_dv(o[1])
    return "(Raise %s)" % G.g_exn(o[1])


def dv_to_json(v):
    if v is None or isinstance(v, (bool, str)):
        return v
    if isinstance(v, int):
        return {"$int": str(v)} if abs(v) > 2 ** 53 else v
    if isinstance(v, float):
        return {"$float": v.hex()}
    if isinstance(v, list):
        return [dv_to_json(x) for x in v]
    if isinstance(v, tuple):
        return {"$tuple": [dv_to_json(x) for x in v]}
    if isinstance(v, frozenset):
        return {"$frozenset": [dv_to_json(x) for x in v]}
    if isinstance(v, set):
        return {"$set": [dv_to_json(x) for x in v]}
    if isinstance(v, dict):
        return {"$dict": [[dv_to_json(k), dv_to_json(x)] for k, x in v.items()]}
    if isinstance(v, Inst):
        return {"$inst": v.cid, "fields": [[k, dv_to_json(x)] for k, x in v.fields]}
    if isinstance(v, Dec):
        return {"$dec": v.s}
    if isinstance(v, EnumV):
        return {"$enum": v.cid, "value": dv_to_json(v.value)}
    if isinstance(v, Opaque):
        return {"$opaque": v.tag}
    if isinstance(v, BaseException):
        return {"$exception": type(v).__name__, "text": str(v)[:200]}
    return {"$repr": repr(v)[:200]}


def dv_from_json(j):
    if isinstance(j, list):
        return [dv_from_json(x) for x in j]
    if isinstance(j, dict):
        if "$int" in j:
            return int(j["$int"])
        if "$float" in j:
            return float.fromhex(j["$float"])
        if "$tuple" in j:
            return tuple(dv_from_json(x) for x in j["$tuple"])
        if "$set" in j:
            return set(dv_from_json(x) for x in j["$set"])
        if "$frozenset" in j:
            return frozenset(dv_from_json(x) for x in j["$frozenset"])
        if "$dict" in j:
            return {dv_from_json(k): dv_from_json(x) for k, x in j["$dict"]}
        if "$inst" in j:
            return Inst(j["$inst"], [(k, dv_from_json(x)) for k, x in j["fields"]])
        if "$dec" in j:
            return Dec(j["$dec"])
        if "$enum" in j:
            return EnumV(j["$enum"], dv_from_json(j["value"]))
        if "$opaque" in j:
            return Opaque(j["$opaque"])
        raise ValueError("unknown node %r" % (j,))
    return j


def dv_same(a, b):
    """type-exact equality of trees; dict order and instance field order ignored"""
    if type(a) is not type(b):
        return False
    if isinstance(a, float):
        return a.hex() == b.hex()
    if isinstance(a, (list, tuple)):
        return len(a) == len(b) and all(dv_same(x, y) for x, y in zip(a, b))
    if isinstance(a, dict):
        if len(a) != len(b):
            return False
        for k, x in a.items():
            hit = [kk for kk in b if dv_same(k, kk)]
            if not hit or not dv_same(x, b[hit[0]]):
                return False
        return True
    if isinstance(a, (set, frozenset)):
        return len(a) == len(b) and all(any(dv_same(x, y) for y in b) for x in a)
    if isinstance(a, Inst):
        if a.cid != b.cid or len(a.fields) != len(b.fields):
            return False
        fb = dict(b.fields)
        return all(k in fb and dv_same(x, fb[k]) for k, x in a.fields)
    if isinstance(a, Dec):
        return a.s == b.s
    if isinstance(a, EnumV):
        return a.cid == b.cid and dv_same(a.value, b.value)
    if isinstance(a, Opaque):
        return a.tag == b.tag
    return a == b


def norm_matches(result, original):
    """result == norm(original), type-exact, where the list made from a set may be in any order"""
    if isinstance(original, (set, frozenset)):
        if type(result) is not list or len(result) != len(original):
            return False
        left = list(result)
        for x in original:
            hit = [i for i, y in enumerate(left) if norm_matches(y, x)]
            if not hit:
                return False
            left.pop(hit[0])
        return True
    if isinstance(original, (list, tuple)):
        return type(result) is list and len(result) == len(original) and all(norm_matches(r, o) for r, o in zip(result, original))
    if isinstance(original, dict):
        if type(result) is not dict or len(result) != len(original):
            return False
        for k, x in original.items():
            hit = [kk for kk in result if dv_same(k, kk)]
            if not hit or not norm_matches(result[hit[0]], x):
                return False
        return True
    if isinstance(original, Inst):
        if not isinstance(result, Inst) or result.cid != original.cid or len(result.fields) != len(original.fields):
            return False
        fr = dict(result.fields)
        return all(k in fr and norm_matches(fr[k], x) for k, x in original.fields)
    return dv_same(result, original)


def dv_norm(v):
    """tuples, sets and frozensets become lists (recursively, also inside instance fields)"""
    if isinstance(v, (list, tuple, set, frozenset)):
        return [dv_norm(x) for x in v]
    if isinstance(v, dict):
        return {k: dv_norm(x) for k, x in v.items()}
    if isinstance(v, Inst):
        return Inst(v.cid, [(k, dv_norm(x)) for k, x in v.fields])
    return v


def dv_copy(v):
    if isinstance(v, list):
        return [dv_copy(x) for x in v]
    if isinstance(v, tuple):
        return tuple(dv_copy(x) for x in v)
    if isinstance(v, frozenset):
        return frozenset(dv_copy(x) for x in v)
    if isinstance(v, set):
        return set(dv_copy(x) for x in v)
    if isinstance(v, dict):
        return {k: dv_copy(x) for k, x in v.items()}
    if isinstance(v, Inst):
        return Inst(v.cid, [(k, dv_copy(x)) for k, x in v.fields])
    return v


def dv_size(v):
    if isinstance(v, (list, tuple, set, frozenset)):
        return 1 + sum(dv_size(x) for x in v)
    if isinstance(v, dict):
        return 1 + sum(dv_size(x) for x in v.values())
    if isinstance(v, Inst):
        return 1 + sum(dv_size(x) for _, x in v.fields)
    return 1


def dv_has(v, pred):
    if pred(v):
        return True
    if isinstance(v, (list, tuple, set, frozenset)):
        return any(dv_has(x, pred) for x in v)
    if isinstance(v, dict):
        return any(dv_has(x, pred) for x in v.values())
    if isinstance(v, Inst):
        return any(dv_has(x, pred) for _, x in v.fields)
    if isinstance(v, EnumV):
        return dv_has(v.value, pred)
    return False


# ------------------------------------------------------------------ class descriptors

def cdesc(cid, kind, module, name, bases=(), slots=(), params=(), defaults=(), ser_name="", ign=None, members=()):
    return {"cid": cid, "kind": kind, "module": module, "name": name, "bases": list(bases), "slots": list(slots),
            "params": list(params), "defaults": [(k, v) for k, v in defaults], "ser_name": ser_name,
            "ign": ign, "members": list(members)}


_KIND = {"dict": "KDict", "slot": "KSlot", "ser_list": "(KSer false)", "ser_dict": "(KSer true)",
         "enum": "KEnum", "decimal": "KDecimal"}


def g_classdef(d):
    return "(mkClass %s %s %s %s %s %s %s %s %s %s)" % (
        _KIND[d["kind"]], G.g_str(d["module"]), G.g_str(d["name"]),
        G.g_list([G.g_str(b) for b in d["bases"]]),
        G.g_list([G.g_str(s) for s in d["slots"]]),
        G.g_list([G.g_str(s) for s in d["params"]]),
        G.g_list(["(%s, %s)" % (G.g_str(k), g_dv(v)) for k, v in d["defaults"]]),
        G.g_str(d["ser_name"]),
        "None" if d["ign"] is None else "(Some (%s, %s))" % (G.g_str(d["ign"][0]), g_dv(d["ign"][1])),
        G.g_list([g_dv(m) for m in d["members"]]))


DECIMAL = cdesc("decimal.Decimal", "decimal", "decimal", "Decimal")


def mangle(cname, s):
    if s.startswith("__") and not s.endswith("__"):
        return "_" + cname.lstrip("_") + s
    return s


class CountingMeta(type):
    """records every call of a generated class (construction attempts), before argument binding"""
    log = []

    def __call__(cls, *a, **k):
        CountingMeta.log.append(("construct", cls._verif_cid))
        return super().__call__(*a, **k)


class World(object):
    """descs: class descriptors, every class listed BEFORE its bases (the model's table order)."""

    def __init__(self, descs, extra_modules=()):
        self.descs = list(descs)
        self.by_cid = {d["cid"]: d for d in self.descs}
        self.classes = {}        # cid -> python class
        self.cid_of = {}         # python class -> cid
        self.modules = []        # module names we registered
        self.extra_modules = list(extra_modules)
        self.built = False

    # -------------------------------------------------------------- python side
    def _module(self, name):
        if name in sys.modules:
            return sys.modules[name]
        m = types.ModuleType(name)
        m.__verif_synthetic__ = True
        sys.modules[name] = m
        self.modules.append(name)
        if "." in name:
            parent, _, leaf = name.rpartition(".")
            pm = self._module(parent)
            if not hasattr(pm, "__path__"):
                pm.__path__ = []
            setattr(pm, leaf, m)
        return m

    def setup(self):
        if self.built:
            return
        self.built = True
        for d in reversed(self.descs):          # bases first
            self._build_class(d)
        for m in self.extra_modules:
            self._module(m)

    def teardown(self):
        for name in self.modules:
            sys.modules.pop(name, None)
        self.modules = []
        self.built = False

    def _build_class(self, d):
        cid, kind = d["cid"], d["kind"]
        if d.get("external") == "datetime.date":
            import datetime
            self.classes[cid] = datetime.date
            self.cid_of[datetime.date] = cid
            return
        if d.get("external"):
            return               # lives in a file on sys.path (canary modules)
        if kind == "decimal":
            cls = decimal.Decimal
        elif kind == "enum":
            members = {}
            for i, mv in enumerate(d["members"]):
                members["M%d" % i] = mv
            cls = enum.Enum(d["name"], members, module=d["module"])
            if d["module"] != MAIN:
                setattr(self._module(d["module"]), d["name"], cls)
        else:
            bases = tuple(self.classes[b] for b in d["bases"]) or (object,)
            params = list(d["params"])
            defaults = list(d["defaults"])

            def __init__(self, *args, **kwargs):
                # all parameters are required; binding errors are TypeErrors as for a def with named parameters
                if len(args) > len(params):
                    raise TypeError("__init__() takes %d positional arguments but %d were given" % (len(params) + 1, len(args) + 1))
                bound = dict(zip(params, args))
                for k, v in kwargs.items():
                    if k not in params:
                        raise TypeError("__init__() got an unexpected keyword argument %r" % (k,))
                    if k in bound:
                        raise TypeError("__init__() got multiple values for argument %r" % (k,))
                    bound[k] = v
                missing = [p for p in params if p not in bound]
                if missing:
                    raise TypeError("__init__() missing required arguments: %r" % (missing,))
                for b in bases:
                    if b is not object:
                        b.__init__(self)
                for p in params:
                    object.__setattr__(self, p, bound[p])
                for k, v in defaults:
                    object.__setattr__(self, k, _fresh(v))
            ns = {"__init__": __init__, "__module__": d["module"], "_verif_cid": cid}
            if d["module"] == MAIN and len(d["name"]) % 3:
                # locally registered classes are often declared in an inner scope (a function, another class): there
                # __qualname__ differs from __name__; the class is still registered and named by its simple name
                ns["__qualname__"] = ("make_beans.<locals>." if len(d["name"]) % 3 == 1 else "Holder.") + d["name"]
            if kind == "slot":
                # private names are mangled by the class body of a real class statement; type() does not
                # mangle, so the descriptors are created under the mangled name and __slots__ is rewritten
                # afterwards to what a class statement leaves there (the names as written)
                ns["__slots__"] = tuple(mangle(d["name"], s) for s in d["slots"])
            if d["ser_name"]:
                def _ser(self, _params=params, _dictp=(kind == "ser_dict")):
                    vals = [getattr(self, p) for p in _params]
                    attrs = {k: v for k, v in self.__dict__.items() if k not in _params}
                    return (dict(zip(_params, vals)) if _dictp else vals), attrs
                ns[d["ser_name"]] = _ser
            if d["ign"] is not None:
                ns[d["ign"][0]] = _fresh(d["ign"][1])
            cls = CountingMeta(d["name"], bases, ns)
            if kind == "slot":
                type.__setattr__(cls, "__slots__", tuple(d["slots"]))
            if d["module"] != MAIN:
                setattr(self._module(d["module"]), d["name"], cls)
        self.classes[cid] = cls
        self.cid_of[cls] = cid

    def local_table(self, names=None):
        """{name: class} for Config.classes / the `classes` argument: local classes by default"""
        out = {}
        for d in self.descs:
            if d["module"] == MAIN and d["kind"] not in ("decimal",):
                if names is None or d["cid"] in names:
                    out[d["name"]] = self.classes[d["cid"]]
        return out

    def real_fields(self, cid):
        """attribute names that exist as slot descriptors along the MRO (mangled)"""
        d = self.by_cid[cid]
        out = [mangle(d["name"], s) for s in d["slots"]]
        for b in d["bases"]:
            out += self.real_fields(b)
        return out

    def build(self, v):
        """descriptor tree -> real objects (fresh containers everywhere)"""
        if isinstance(v, Inst):
            cls = self.classes[v.cid]
            if self.by_cid[v.cid].get("external") == "datetime.date":
                return cls(2020, 1, 2)
            obj = cls.__new__(cls)
            for k, x in v.fields:
                object.__setattr__(obj, k, self.build(x))
            return obj
        if isinstance(v, Dec):
            return decimal.Decimal(v.s)
        if isinstance(v, EnumV):
            return self.classes[v.cid](v.value)
        if isinstance(v, Opaque):
            return OPAQUES[v.tag]
        if isinstance(v, list):
            return [self.build(x) for x in v]
        if isinstance(v, tuple):
            return tuple(self.build(x) for x in v)
        if isinstance(v, frozenset):
            return frozenset(self.build(x) for x in v)
        if isinstance(v, set):
            return set(self.build(x) for x in v)
        if isinstance(v, dict):
            return {k: self.build(x) for k, x in v.items()}
        return v

    def model_view(self, o):
        """like abstract(), but sets keep the iteration order of the real object (SetSeq)"""
        return self.abstract(o, keep_set_order=True)

    def abstract(self, o, keep_set_order=False):
        """real objects -> descriptor tree (type-exact)"""
        if keep_set_order:
            if type(o) in (set, frozenset):
                return SetSeq(type(o) is frozenset, [self.abstract(x, True) for x in o])
            if type(o) in (list, tuple):
                return type(o)(self.abstract(x, True) for x in o)
            if type(o) is dict:
                return {k: self.abstract(x, True) for k, x in o.items()}
            a = self.abstract(o)
            if isinstance(a, Inst):
                return Inst(a.cid, [(k, self.abstract(getattr(o, k), True)) for k, _ in a.fields])
            return a
        t = type(o)
        if o is None or t in (bool, int, float, str):
            return o
        if t is list:
            return [self.abstract(x) for x in o]
        if t is tuple:
            return tuple(self.abstract(x) for x in o)
        if t is frozenset:
            return frozenset(self.abstract(x) for x in o)
        if t is set:
            return set(self.abstract(x) for x in o)
        if t is dict:
            return {k: self.abstract(x) for k, x in o.items()}
        if t is decimal.Decimal:
            return Dec(str(o))
        if t in self.cid_of or getattr(t, "_verif_cid", None) in self.by_cid:
            cid = self.cid_of.get(t) or t._verif_cid
            if isinstance(o, enum.Enum):
                return EnumV(cid, self.abstract(o.value))
            fields = []
            if hasattr(o, "__dict__"):
                fields += [(k, self.abstract(x)) for k, x in o.__dict__.items()]
            seen = set(k for k, _ in fields)
            for s in (self.real_fields(cid) if self.by_cid[cid]["kind"] == "slot" else ()):
                if s not in seen and hasattr(o, s):
                    seen.add(s)
                    fields.append((s, self.abstract(getattr(o, s))))
            return Inst(cid, fields)
        for tag, op in enumerate(OPAQUES):
            if o is op:
                return Opaque(tag)
        return Opaque(99)

    # -------------------------------------------------------------- Gallina side
    def g_env(self):
        mods = sorted(set([d["module"] for d in self.descs if d["module"] not in (MAIN, "")] + self.extra_modules))
        if not hasattr(self, "by_cid") or len(self.by_cid) != len(self.descs):
            self.by_cid = {d["cid"]: d for d in self.descs}
        return "(mkEnv %s %s)" % (G.g_list(["(%s, %s)" % (G.g_str(d["cid"]), g_classdef(d)) for d in self.descs]),
                                  G.g_list([G.g_str(m) for m in mods]))

    def g_classes(self, table):
        """Config.classes / `classes` argument {name: class} -> list (str * str)"""
        if not table:
            return "[]"
        return G.g_list(["(%s, %s)" % (G.g_str(n), G.g_str(self.cid_of[c])) for n, c in table.items()])


def _fresh(v):
    if isinstance(v, list):
        return [_fresh(x) for x in v]
    if isinstance(v, dict):
        return {k: _fresh(x) for k, x in v.items()}
    return v


def _a_function():
    return None


OPAQUES = [_a_function, complex(1, 2), object(), Ellipsis]


# ------------------------------------------------------------------ the standard world (C15 failure stream, C08)

def standard_world():
    return World([
        cdesc("vmod_a.SlotChild", "slot", "vmod_a", "SlotChild", bases=["vmod_a.Slotted"], slots=["c"]),
        cdesc("vmod_a.Slotted", "slot", "vmod_a", "Slotted", slots=["a", "b"]),
        cdesc("vmod_a.Priv", "slot", "vmod_a", "Priv", slots=["__p", "q"]),
        cdesc("vmod_a.Bean", "dict", "vmod_a", "Bean", defaults=[("x", 0), ("y", "d")]),
        cdesc("vmod_a.sub.Point", "ser_list", "vmod_a.sub", "Point", params=["x", "y"], ser_name="_serialize"),
        cdesc("vmod_a.KwPoint", "ser_dict", "vmod_a", "KwPoint", params=["x", "y"], defaults=[("tag", None)], ser_name="_serialize"),
        cdesc("vmod_a.Color", "enum", "vmod_a", "Color", members=[1, "b"]),
        DECIMAL,
        cdesc("Loc", "dict", MAIN, "Loc", defaults=[("v", 1)]),
        cdesc("LocSlot", "slot", MAIN, "LocSlot", slots=["s"]),
    ])
