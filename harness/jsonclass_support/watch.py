"""Observation of import attempts and constructions from outside the library (C08):
an audit hook ('import' events), a sys.meta_path finder that sees every module lookup that
misses sys.modules, and canary modules written into a temporary directory on sys.path whose
import and whose classes' construction leave a marker."""
import builtins
import os
import shutil
import sys
import tempfile

_STATE = {"active": False, "names": [], "hook": False}

CANARY_SRC = '''import builtins
builtins._verif_canary_log.append(("import", __name__))


class _Meta(type):
    def __call__(cls, *a, **k):
        builtins._verif_canary_log.append(("construct", cls._verif_cid))
        return super().__call__(*a, **k)


class %(cls)s(metaclass=_Meta):
    _verif_cid = "%(mod)s.%(cls)s"

    def __init__(self):
        pass
'''

CANARIES = [("q", "Z"), ("vcanary", "Cls")]


def _audit(event, args):
    if _STATE["active"] and event == "import":
        _STATE["names"].append(str(args[0]))


class _Finder(object):
    def find_spec(self, name, path=None, target=None):
        if _STATE["active"]:
            _STATE["names"].append(str(name))
        return None


_FINDER = _Finder()


class Watch(object):
    def __init__(self):
        self.dir = None

    def setup(self):
        if not _STATE["hook"]:
            sys.addaudithook(_audit)
            _STATE["hook"] = True
        self.dir = tempfile.mkdtemp(prefix="verif_canary_")
        for mod, cls in CANARIES:
            with open(os.path.join(self.dir, mod + ".py"), "w") as fh:
                fh.write(CANARY_SRC % {"mod": mod, "cls": cls})
        sys.path.insert(0, self.dir)
        sys.meta_path.insert(0, _FINDER)
        from harness.jsonclass_support import world as W
        builtins._verif_canary_log = W.CountingMeta.log
        sys.path_importer_cache.pop(self.dir, None)

    def teardown(self):
        _STATE["active"] = False
        if _FINDER in sys.meta_path:
            sys.meta_path.remove(_FINDER)
        if self.dir:
            if self.dir in sys.path:
                sys.path.remove(self.dir)
            shutil.rmtree(self.dir, ignore_errors=True)
        for mod, _ in CANARIES:
            sys.modules.pop(mod, None)
        if hasattr(builtins, "_verif_canary_log"):
            del builtins._verif_canary_log

    def observe(self, fn):
        """runs fn(); returns (outcome, sorted import roots, constructions in order)"""
        for mod, _ in CANARIES:
            sys.modules.pop(mod, None)
        builtins._verif_canary_log[:] = []
        _STATE["names"] = []
        _STATE["active"] = True
        try:
            try:
                out = ("ok", fn())
            except Exception as ex:      # noqa
                out = ("raise", ex)
        finally:
            _STATE["active"] = False
        names = list(_STATE["names"])
        canary = list(builtins._verif_canary_log)
        for key in [k for k, m in list(sys.modules.items())
                    if (getattr(m, "__file__", None) or "").startswith(self.dir)]:
            sys.modules.pop(key, None)      # also odd spellings such as ".q"
        roots = set(n.lstrip(".").split(".")[0] for n in names)
        roots |= set(n.lstrip(".").split(".")[0] for k, n in canary if k == "import")
        roots.discard("")
        constructs = [c for k, c in canary if k == "construct"]
        return out, sorted(roots), constructs
