"""Generators of payloads carrying "__jsonclass__" descriptors over the standard world
(well-formed descriptors failing at each stage of load, malformed descriptors of every JSON
type and length, invalid names) -- shared by C15 (failure purity) and C08."""
from harness.core import values as V

JC = "__jsonclass__"

NAMES_OK = ["vmod_a.Bean", "vmod_a.Slotted", "vmod_a.SlotChild", "vmod_a.Priv", "vmod_a.sub.Point",
            "vmod_a.KwPoint", "vmod_a.Color", "decimal.Decimal", "Loc", "LocSlot"]
NAMES_UNRESOLVED = ["vmod_a.Nope", "nomod_zz.X", "nomod_zz.sub.X", "vmod_a.sub.Nope", "Nope", "vmod_a", ".", "..", "a.",
                    ".C", "vmod_a..Bean", "vmod_a.sub", "Bean"]
NAMES_INVALID = ["", "vmod_a.Be an", "vmod_a.Bean\n", "vmod-a.Bean", "vmod_a.Béan", "vmod_a/Bean", "vmod_a.Bean;",
                 " ", "é", "vmod_a.Bean\x00", "Ａ.B", "vmod_a:Bean", "vmod_a.Bean ", "(vmod_a.Bean)"]
NAMES_NONSTR = [0, None, [], {}, 5, True, 1.5, [1], {"a": 1}, False, 0.0]

PARAMS_BY_CLASS = {
    "vmod_a.Bean": [[], {}, [1], {"x": 1}],
    "vmod_a.Slotted": [[], {}, [1]],
    "vmod_a.SlotChild": [[], [None]],
    "vmod_a.Priv": [[], {}],
    "vmod_a.sub.Point": [[1, 2], {"x": 1, "y": [2]}, [], [1], [1, 2, 3], {"x": 1}, {"x": 1, "z": 2}, {"x": 1, "y": 2, "z": 3}],
    "vmod_a.KwPoint": [{"x": 1, "y": 2}, [0.5, "s"], {}, [1]],
    "vmod_a.Color": [[1], ["b"], [7], [], [True], [1.0], ["B"]],
    "decimal.Decimal": [["1.5"], ["-0"], ["10"], ["0.10"]],
    "Loc": [[], [1]],
    "LocSlot": [[], {}],
}
PARAMS_BAD = [None, 5, "ab", True, 1.5, (1, 2)]
ATTRS_BY_CLASS = {
    "vmod_a.Bean": ["x", "y", "new", "_p", "_Bean__m"],
    "vmod_a.Slotted": ["a", "b", "zzz", "c"],
    "vmod_a.SlotChild": ["a", "b", "c", "d"],
    "vmod_a.Priv": ["_Priv__p", "q", "__p", "p"],
    "vmod_a.sub.Point": ["x", "extra"],
    "vmod_a.KwPoint": ["tag", "y", "more"],
    "vmod_a.Color": [],
    "decimal.Decimal": ["x"],
    "Loc": ["v", "w"],
    "LocSlot": ["s", "t"],
}
MALFORMED_JC = [None, True, 0, 5, 1.5, "", "a", "ab", "vmod_a.Bean", [], ["vmod_a.Bean"], [[]], [None], {}, {"a": 1},
                ["vmod_a.Bean", [], 3], [[], []], ["", []], [0, []], [None, None], ["vmod_a.Bean", None],
                ["vmod_a.Bean", 5], ["vmod_a.Bean", "x"], [["vmod_a.Bean"], []], [5, []], [True, {}], [{"a": 1}, []],
                [1.5, []], ["nomod_zz.X"], "nomod_zz.X"]


def descriptor(name, params, attrs=()):
    d = {JC: [name, params]}
    for k, v in attrs:
        d[k] = v
    return d


def rand_plain(rng, depth=2):
    return V.rand_json(rng, depth=depth, width=3, leaves=V.SMALL_LEAVES + ["é", 2 ** 70, -0.0])


def rand_descriptor(rng, depth, fail_bias=0.35):
    """a descriptor dict; its attribute values may hold further descriptors"""
    r = rng.random()
    if r < 0.12:
        d = {JC: _fresh(rng.choice(MALFORMED_JC))}
        if rng.random() < 0.5:
            d["x"] = rand_value(rng, depth - 1, fail_bias)
        if rng.random() < 0.3:       # the key is not the first one
            d = dict([("pre", 1)] + list(d.items()))
        return d
    if r < 0.12 + fail_bias * 0.5:
        pool = rng.choice([NAMES_UNRESOLVED, NAMES_INVALID, NAMES_NONSTR])
        name = _fresh(rng.choice(pool))
        params = _fresh(rng.choice([[], {}, [1], None]))
        attrs = [("x", rand_value(rng, depth - 1, fail_bias))] if rng.random() < 0.5 else []
        return descriptor(name, params, attrs)
    name = rng.choice(NAMES_OK)
    if rng.random() < fail_bias * 0.3:
        # (a tuple becomes a JSON list on the payload path: Enum(1, 2) / Decimal(1, 2) are not modelled)
        params = _fresh(rng.choice(PARAMS_BAD[:-1] if name in ("vmod_a.Color", "decimal.Decimal") else PARAMS_BAD))
    else:
        ps = PARAMS_BY_CLASS[name]
        params = _fresh(ps[0] if rng.random() < 0.55 else rng.choice(ps))
    attrs = []
    names = ATTRS_BY_CLASS[name]
    if names:
        for k in rng.sample(names, rng.randint(0, min(3, len(names)))):
            attrs.append((k, rand_value(rng, depth - 1, fail_bias)))
    if names and rng.random() < 0.06:
        attrs.append((rng.choice([1, None, 2.5, True]), 0))      # setattr with a non-string name
    d = descriptor(name, params, attrs)
    if attrs and rng.random() < 0.3:
        items = list(d.items())
        rng.shuffle(items)                                        # "__jsonclass__" is not always first
        d = dict(items)
    return d


def rand_value(rng, depth, fail_bias=0.35):
    if depth <= 0:
        return rand_plain(rng, 1)
    r = rng.random()
    if r < 0.35:
        return rand_descriptor(rng, depth, fail_bias)
    if r < 0.55:
        return [rand_value(rng, depth - 1, fail_bias) for _ in range(rng.randint(0, 3))]
    if r < 0.75:
        return {k: rand_value(rng, depth - 1, fail_bias) for k in rng.sample(["a", "b", "ké", ""], rng.randint(0, 3))}
    if r < 0.8:
        return tuple(rand_value(rng, depth - 1, fail_bias) for _ in range(rng.randint(0, 2)))
    return rand_plain(rng, 1)


def _fresh(v):
    if isinstance(v, list):
        return [_fresh(x) for x in v]
    if isinstance(v, dict):
        return {k: _fresh(x) for k, x in v.items()}
    return v


def systematic():
    """every stage of load failing once, at the top and nested"""
    out = []
    for name in NAMES_OK:
        for params in PARAMS_BY_CLASS[name] + PARAMS_BAD:
            out.append(descriptor(name, _fresh(params)))
        for a in ATTRS_BY_CLASS[name]:
            out.append(descriptor(name, _fresh(PARAMS_BY_CLASS[name][0]), [(a, 1)]))
            out.append(descriptor(name, _fresh(PARAMS_BY_CLASS[name][0]), [("zzz", [1]), (a, {"k": (1, 2)})]))
        # nested failure after a successful attribute
        if ATTRS_BY_CLASS[name]:      # (enum members are process-global objects: no attributes are set on them)
            out.append(descriptor(name, _fresh(PARAMS_BY_CLASS[name][0]),
                                  [(ATTRS_BY_CLASS[name][0], 1), ("inner", descriptor("nomod_zz.X", []))]))
            out.append(descriptor(name, _fresh(PARAMS_BY_CLASS[name][0]), [(1, 2)]))
    for name in NAMES_UNRESOLVED + NAMES_INVALID + NAMES_NONSTR:
        for params in ([], {}, None):
            out.append(descriptor(_fresh(name), _fresh(params)))
            out.append(descriptor(_fresh(name), _fresh(params), [("x", 1)]))
    for jc in MALFORMED_JC:
        out.append({JC: _fresh(jc)})
        out.append({"a": 1, JC: _fresh(jc), "b": [2]})
    nested = []
    for d in out[::3]:
        nested.append([1, _fresh(d), 2])
        nested.append({"a": {"b": [_fresh(d)]}})
        nested.append(descriptor("vmod_a.Bean", [], [("x", [_fresh(d)]), ("y", 2)]))
        nested.append([descriptor("vmod_a.Bean", [], [("x", 3)]), _fresh(d), descriptor("vmod_a.Slotted", [], [("zzz", 1)])])
    return out + nested
