"""Helpers shared by the C14 and C18 property modules (group `payload`)."""
import re

from harness.core import gallina as G, ser


class FaultSpec(object):
    """Descriptor of a jsonrpclib.Fault passed as `params` (only code, message, data matter to dump)."""

    def __init__(self, code, msg, data):
        self.code, self.msg, self.data = code, msg, data

    def __repr__(self):
        return "Fault(%r, %r, data=%r)" % (self.code, self.msg, self.data)


class ObjSpec(object):
    """Descriptor of a non-container, non-primitive object passed as `params`: a Decimal, an enum member, a bean.
    (With a method name dump must refuse it like any scalar, class translation on or off.)"""

    def __init__(self, kind):
        self.kind = kind

    def __repr__(self):
        return "Obj(%s)" % self.kind

    def build(self):
        if self.kind == "decimal":
            import decimal
            return decimal.Decimal("1.5")
        if self.kind == "enum":
            import enum
            return enum.Enum("Colour", "RED GREEN").RED
        if self.kind == "set":
            return frozenset()

        class Bean(object):
            def __init__(self):
                self.x = 1
        return Bean()


def val_to_json(v):
    if isinstance(v, ObjSpec):
        return {"$obj": v.kind}
    if isinstance(v, FaultSpec):
        return {"$fault": [ser.to_json(v.code), ser.to_json(v.msg), ser.to_json(v.data)]}
    return ser.to_json(v)


def val_from_json(j):
    if isinstance(j, dict) and len(j) == 1 and "$obj" in j:
        return ObjSpec(j["$obj"])
    if isinstance(j, dict) and len(j) == 1 and "$fault" in j:
        c, m, d = j["$fault"]
        return FaultSpec(ser.from_json(c), ser.from_json(m), ser.from_json(d))
    return ser.from_json(j)


def jnorm(v):
    """JSON normalisation: tuples / sets / frozensets become lists, recursively."""
    if isinstance(v, (list, tuple, set, frozenset)):
        return [jnorm(x) for x in v]
    if isinstance(v, dict):
        return {k: jnorm(x) for k, x in v.items()}
    return v


_DEC = re.compile(r"^[0-9]+(\.[0-9]+)?$")


def version_modelled(v):
    """True when float(v) / str(float(v)) lie inside the model's domain (Model/Payload.v version_float, float_str)."""
    if isinstance(v, str):
        if not _DEC.match(v) or len(v) > 15:
            return False
        f = float(v)
        # the decimal string must denote a binary64 exactly with a small power-of-two denominator
        if (f * 1024) != int(f * 1024):
            return False
        from fractions import Fraction
        if Fraction(v) != Fraction(f):
            return False
    elif isinstance(v, bool) or isinstance(v, (int, float)):
        f = float(v)
    else:
        return True          # float() raises TypeError: modelled
    if f >= 2 and ((f * 2) != int(f * 2) or abs(f) >= 1e15):
        return False
    return True


def plain_json(v, top=True):
    """values the JSON backend serialises without changing anything but tuples (string keys only)"""
    if v is None or isinstance(v, (bool, int, float, str)):
        return True
    if isinstance(v, (list, tuple)):
        return all(plain_json(x, False) for x in v)
    if isinstance(v, dict):
        return all(isinstance(k, str) and plain_json(x, False) for k, x in v.items())
    return False


def g_params(p):
    if isinstance(p, ObjSpec):
        return "(PVal (VOpaque 0%N))"
    if isinstance(p, FaultSpec):
        return "(PFault %s %s %s)" % (G.g_val(p.code), G.g_val(p.msg), G.g_val(p.data))
    return "(PVal %s)" % G.g_val(p)
