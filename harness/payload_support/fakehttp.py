"""In-process recording connection and a real loopback HTTP peer for the C18 check.

Nothing here touches the repository: the transport object that ServerProxy builds itself gets its
`make_connection` replaced (instance attribute) by one that performs xmlrpc's own host parsing
(`get_host_info`, which also derives the Authorization line from the URL's user-info) and returns a
FakeConnection instead of an http.client.HTTPConnection."""
import json
import threading
import types
from http.server import BaseHTTPRequestHandler, HTTPServer


def canned_reply(body):
    """a well-formed JSON-RPC reply for whatever was sent (the client does not match ids)"""
    try:
        req = json.loads(body.decode("utf-8"))
    except Exception:       # noqa
        return b""

    def one(r):
        if isinstance(r, dict) and r.get("id") is not None:
            return {"jsonrpc": "2.0", "result": 1, "id": r["id"]}
        return None
    if isinstance(req, list):
        out = [x for x in (one(r) for r in req) if x is not None]
        return json.dumps(out).encode("utf-8") if out else b""
    out = one(req)
    return json.dumps(out).encode("utf-8") if out is not None else b""


class FakeResponse(object):
    status = 200
    reason = "OK"
    msg = None

    def __init__(self, data):
        self._data = data

    def getheader(self, name, default=None):
        return default

    def read(self, amt=None):
        if amt is None:
            amt = len(self._data)
        chunk, self._data = self._data[:amt], self._data[amt:]
        return chunk

    def close(self):
        pass


class FakeConnection(object):
    """records putheader calls and the body of one request"""

    def __init__(self, sink):
        self.sink = sink
        self.cur = None

    def set_debuglevel(self, level):
        pass

    def putrequest(self, method, url, **kwargs):
        self.cur = {"method": method, "url": url, "lines": [], "body": b""}
        self.sink.append(self.cur)

    def putheader(self, header, *values):
        self.cur["lines"].append((header, values[0] if len(values) == 1 else values))

    def endheaders(self, message_body=None):
        pass

    def send(self, data):
        self.cur["body"] += data

    def getresponse(self):
        return FakeResponse(canned_reply(self.cur["body"]))

    def close(self):
        pass


def install_fake(transport, sink):
    def make_connection(self, host):
        chost, self._extra_headers, x509 = self.get_host_info(host)
        conn = FakeConnection(sink)
        self._connection = host, conn
        return conn
    transport.make_connection = types.MethodType(make_connection, transport)


class RecordingPeer(object):
    """a real HTTP server on 127.0.0.1:<ephemeral> that records the header lines it receives"""

    def __init__(self):
        peer = self
        self.requests = []

        class Handler(BaseHTTPRequestHandler):
            protocol_version = "HTTP/1.1"

            def do_POST(self):
                n = int(self.headers.get("Content-Length") or 0)
                body = self.rfile.read(n)
                peer.requests.append({"lines": [(k, v) for k, v in self.headers.items()], "body": body})
                data = canned_reply(body)
                self.send_response(200)
                self.send_header("Content-Type", "application/json-rpc")
                self.send_header("Content-Length", str(len(data)))
                self.end_headers()
                self.wfile.write(data)

            def log_message(self, *args):
                pass

        self.httpd = HTTPServer(("127.0.0.1", 0), Handler)
        self.port = self.httpd.server_address[1]
        self.thread = threading.Thread(target=self.httpd.serve_forever, kwargs={"poll_interval": 0.05}, daemon=True)
        self.thread.start()

    def stop(self):
        self.httpd.shutdown()
        self.httpd.server_close()
        self.thread.join(20)
