"""Cooperative stand-ins for the parts of `threading` and `queue` used by jsonrpclib.

Every public operation announces itself to the Controller through `yield_point` BEFORE
it is performed; what happens after the yield point returns is atomic (no other controlled
thread runs until the next yield point).  Library objects are modelled as atomic operations
with their documented blocking / timeout behaviour (DESIGN.md 3.5, trusted base 6.4/6.6);
`selftest.py` compares them with the real classes on sequential API traces.
"""
import collections
import queue as _real_queue

Empty = _real_queue.Empty
Full = _real_queue.Full


def _blocking_timeout(timeout):
    """-> (has_timeout, poll) for the usual `timeout=None|seconds` convention.
    A zero timeout is a poll (returns at once), as in the real primitives."""
    if timeout is None:
        return False, False
    if timeout < 0:
        raise ValueError("'timeout' must be a non-negative number")
    if timeout == 0:
        return False, True
    return True, False


class _Shim(object):
    _kind = "Obj"

    def _init_shim(self, ctl):
        self._ctl = ctl
        self._sname = ctl._new_obj_suffix(self._kind)

    def _yp(self, op, enabled=None, timeout=False, fireable=None):
        return self._ctl.yield_point("%s.%s%s" % (self._kind, op, self._sname), enabled, timeout, fireable, self)

    def _me(self):
        """identity of the calling thread for ownership: the CThread, or a token for setup code"""
        t = self._ctl.current()
        return t if t is not None else self._ctl


# ------------------------------------------------------------------------------ Event

class Event(_Shim):
    _kind = "Event"

    def __init__(self, ctl):
        self._init_shim(ctl)
        self._flag = False

    def is_set(self):
        self._yp("is_set")
        return self._flag

    isSet = is_set

    def set(self):
        self._yp("set")
        self._flag = True

    def clear(self):
        self._yp("clear")
        self._flag = False

    def wait(self, timeout=None):
        has_to, poll = _blocking_timeout(timeout) if timeout is None or timeout >= 0 else (False, True)
        if poll:
            self._yp("wait")
            return self._flag
        fired = self._yp("wait", lambda: self._flag, has_to)
        if fired:
            return False
        return True


# ------------------------------------------------------------------------------ Lock / RLock

class Lock(_Shim):
    _kind = "Lock"

    def __init__(self, ctl):
        self._init_shim(ctl)
        self._owner = None

    def _free(self):
        return self._owner is None

    def acquire(self, blocking=True, timeout=-1):
        if not blocking:
            if timeout != -1:
                raise ValueError("can't specify a timeout for a non-blocking call")
            self._yp("acquire")
            if self._owner is None:
                self._owner = self._me()
                return True
            return False
        if timeout is not None and timeout != -1 and timeout < 0:
            raise ValueError("timeout value must be a non-negative number")
        has_to = timeout is not None and timeout > 0
        if timeout == 0:
            return self.acquire(False)
        fired = self._yp("acquire", self._free, has_to)
        if fired:
            return False
        self._owner = self._me()
        return True

    def release(self):
        self._yp("release")
        if self._owner is None:
            raise RuntimeError("release unlocked lock")
        self._owner = None

    def locked(self):
        return self._owner is not None

    def __enter__(self):
        self.acquire()
        return True

    def __exit__(self, *exc):
        self.release()

    # protocol used by Condition
    def _is_owned(self):
        return self._owner is not None      # like threading: a plain lock cannot tell who owns it

    def _release_save(self):
        self._owner = None
        return None

    def _can_restore(self):
        return self._owner is None

    def _acquire_restore(self, saved, me):
        self._owner = me


class RLock(_Shim):
    _kind = "RLock"

    def __init__(self, ctl):
        self._init_shim(ctl)
        self._owner = None
        self._depth = 0

    def acquire(self, blocking=True, timeout=-1):
        me = self._me()
        if not blocking:
            if timeout != -1:
                raise ValueError("can't specify a timeout for a non-blocking call")
            self._yp("acquire")
            if self._owner is None or self._owner is me:
                self._owner = me
                self._depth += 1
                return True
            return False
        if timeout is not None and timeout != -1 and timeout < 0:
            raise ValueError("timeout value must be a non-negative number")
        if timeout == 0:
            return self.acquire(False)
        has_to = timeout is not None and timeout > 0
        fired = self._yp("acquire", lambda: self._owner is None or self._owner is me, has_to)
        if fired:
            return False
        self._owner = me
        self._depth += 1
        return True

    def release(self):
        me = self._me()
        self._yp("release")
        if self._owner is not me or self._depth == 0:
            raise RuntimeError("cannot release un-acquired lock")
        self._depth -= 1
        if self._depth == 0:
            self._owner = None

    def __enter__(self):
        self.acquire()
        return True

    def __exit__(self, *exc):
        self.release()

    def _is_owned(self):
        return self._owner is self._me()

    def _release_save(self):
        saved = (self._owner, self._depth)
        self._owner, self._depth = None, 0
        return saved

    def _can_restore(self):
        return self._owner is None

    def _acquire_restore(self, saved, me):
        self._owner, self._depth = saved


# ------------------------------------------------------------------------------ Condition

class _Waiter(object):
    __slots__ = ("notified",)

    def __init__(self):
        self.notified = False


class Condition(_Shim):
    _kind = "Condition"

    def __init__(self, ctl, lock=None):
        self._init_shim(ctl)
        self._lock = lock if lock is not None else RLock(ctl)
        self._waiters = collections.deque()
        self.acquire = self._lock.acquire
        self.release = self._lock.release

    def __enter__(self):
        return self._lock.__enter__()

    def __exit__(self, *exc):
        return self._lock.__exit__(*exc)

    def wait(self, timeout=None):
        """three steps, as in threading.Condition: release the lock and enlist; block until
        notified (or the timeout is fired); re-acquire the lock"""
        if not self._lock._is_owned():
            raise RuntimeError("cannot wait on un-acquired lock")
        me = self._me()
        if timeout is not None and timeout <= 0:
            has_to, poll = False, True
        else:
            has_to, poll = timeout is not None, False
        self._yp("wait.release")
        w = _Waiter()
        self._waiters.append(w)
        saved = self._lock._release_save()
        if poll:
            self._yp("wait.block")
            got = w.notified
        else:
            fired = self._yp("wait.block", lambda: w.notified, has_to)
            got = not fired
        if not got:
            try:
                self._waiters.remove(w)
            except ValueError:
                pass
        self._yp("wait.reacquire", self._lock._can_restore)
        self._lock._acquire_restore(saved, me)
        return got

    def wait_for(self, predicate, timeout=None):
        result = predicate()
        while not result:
            got = self.wait(timeout)
            result = predicate()
            if not got and timeout is not None:
                break
        return result

    def _notify_nolock(self, n):
        k = 0
        while self._waiters and k < n:
            self._waiters.popleft().notified = True
            k += 1

    def notify(self, n=1):
        if not self._lock._is_owned():
            raise RuntimeError("cannot notify on un-acquired lock")
        self._yp("notify")
        self._notify_nolock(n)

    def notify_all(self):
        if not self._lock._is_owned():
            raise RuntimeError("cannot notify on un-acquired lock")
        self._yp("notify_all")
        self._notify_nolock(len(self._waiters))

    notifyAll = notify_all


# ------------------------------------------------------------------------------ Thread

class Thread(_Shim):
    _kind = "Thread"

    def __init__(self, ctl, group=None, target=None, name=None, args=(), kwargs=None, daemon=None):
        self._ctl = ctl
        self._target = target
        self._args = tuple(args)
        self._kwargs = dict(kwargs or {})
        self.name = str(name) if name is not None else ctl._new_thread_name()
        self._sname = ":" + self.name
        cur = ctl.current()
        self.daemon = daemon if daemon is not None else (cur.daemon if cur is not None else False)
        self._cthread = None
        self.ident = None

    def run(self):
        if self._target is not None:
            self._target(*self._args, **self._kwargs)

    def _register(self):
        if self._cthread is not None:
            raise RuntimeError("threads can only be started once")
        self._sname = ":" + self.name
        self._cthread = self._ctl._register(self, self.run, self.name, bool(self.daemon))
        self.ident = 1000 + self._cthread.index
        return self._cthread

    def start(self):
        if self._cthread is not None:
            raise RuntimeError("threads can only be started once")
        self._sname = ":" + self.name
        self._yp("start")
        t = self._register()
        if self._ctl.current() is not None:
            self._ctl._boot(t)
        # outside a run: the controller boots it when run() starts

    def _done(self):
        return self._cthread is not None and self._cthread.finished

    def join(self, timeout=None):
        if self._cthread is None:
            raise RuntimeError("cannot join thread before it is started")
        if self._cthread is self._ctl.current():
            raise RuntimeError("cannot join current thread")
        if timeout is not None and timeout <= 0:
            self._yp("join")
            return
        self._yp("join", self._done, timeout is not None)

    def is_alive(self):
        self._yp("is_alive")
        return self._cthread is not None and not self._cthread.finished

    isAlive = is_alive

    def getName(self):
        return self.name

    def setName(self, name):
        self.name = name

    def isDaemon(self):
        return self.daemon

    def setDaemon(self, d):
        self.daemon = d

    def __repr__(self):
        return "<shim Thread %s>" % self.name


# ------------------------------------------------------------------------------ Queue

class Queue(_Shim):
    """queue.Queue with every public method one atomic operation.  All of them need the
    internal mutex, exactly as the real class: they are disabled while another thread is
    inside `with q.all_tasks_done:` (or holds q.mutex)."""
    _kind = "Queue"

    def __init__(self, ctl, maxsize=0):
        self._init_shim(ctl)
        self.maxsize = maxsize
        self.queue = collections.deque()
        self.unfinished_tasks = 0
        self.mutex = Lock(ctl)
        self.mutex._sname = self._sname + ".mutex"
        self.not_empty = Condition(ctl, self.mutex)
        self.not_full = Condition(ctl, self.mutex)
        self.all_tasks_done = Condition(ctl, self.mutex)
        for c, n in ((self.not_empty, "not_empty"), (self.not_full, "not_full"), (self.all_tasks_done, "all_tasks_done")):
            c._sname = self._sname + "." + n

    # state predicates
    def _mfree(self):
        return self.mutex._owner is None

    def _is_full(self):
        return 0 < self.maxsize <= len(self.queue)

    # non-blocking readers
    def qsize(self):
        self._yp("qsize", self._mfree)
        return len(self.queue)

    def empty(self):
        self._yp("empty", self._mfree)
        return not self.queue

    def full(self):
        self._yp("full", self._mfree)
        return self._is_full()

    def put(self, item, block=True, timeout=None):
        if block:
            has_to, poll = _blocking_timeout(timeout)
        else:
            has_to, poll = False, True
        if poll:
            self._yp("put", self._mfree)
            if self._is_full():
                raise Full
        else:
            fired = self._yp("put", lambda: self._mfree() and not self._is_full(), has_to,
                             (lambda: self._mfree() and self._is_full()) if has_to else None)
            if fired:
                raise Full
        self.queue.append(item)
        self.unfinished_tasks += 1
        self.not_empty._notify_nolock(1)

    def put_nowait(self, item):
        return self.put(item, block=False)

    def get(self, block=True, timeout=None):
        if block:
            has_to, poll = _blocking_timeout(timeout)
        else:
            has_to, poll = False, True
        if poll:
            self._yp("get", self._mfree)
            if not self.queue:
                raise Empty
        else:
            fired = self._yp("get", lambda: self._mfree() and bool(self.queue), has_to,
                             (lambda: self._mfree() and not self.queue) if has_to else None)
            if fired:
                raise Empty
        item = self.queue.popleft()
        self.not_full._notify_nolock(1)
        return item

    def get_nowait(self):
        return self.get(block=False)

    def task_done(self):
        self._yp("task_done", self._mfree)
        unfinished = self.unfinished_tasks - 1
        if unfinished <= 0:
            if unfinished < 0:
                raise ValueError("task_done() called too many times")
            self.all_tasks_done._notify_nolock(len(self.all_tasks_done._waiters))
        self.unfinished_tasks = unfinished

    def join(self):
        self._yp("join", lambda: self._mfree() and self.unfinished_tasks == 0)


# ------------------------------------------------------------------------------ namespaces

class ThreadingNamespace(object):
    """What the module under test sees as `threading`."""

    def __init__(self, ctl):
        self._ctl = ctl
        self._main = None

    def Event(self):
        return Event(self._ctl)

    def Lock(self):
        return Lock(self._ctl)

    def RLock(self):
        return RLock(self._ctl)

    def Condition(self, lock=None):
        return Condition(self._ctl, lock)

    def Thread(self, group=None, target=None, name=None, args=(), kwargs=None, daemon=None):
        return Thread(self._ctl, group, target, name, args, kwargs, daemon)

    def current_thread(self):
        t = self._ctl.current()
        if t is not None:
            return t.shim
        if self._main is None:
            self._main = Thread(self._ctl, name="MainThread")
        return self._main

    currentThread = current_thread

    def get_ident(self):
        t = self._ctl.current()
        return 1000 + t.index if t is not None else 1

    def active_count(self):
        return 1 + sum(1 for t in self._ctl.threads if t.started and not t.finished)

    def enumerate(self):
        return [t.shim for t in self._ctl.threads if t.started and not t.finished]


class QueueNamespace(object):
    """What the module under test sees as `queue`."""
    Empty = Empty
    Full = Full

    def __init__(self, ctl):
        self._ctl = ctl

    def Queue(self, maxsize=0):
        return Queue(self._ctl, maxsize)
