"""Controlled thread scheduler (DESIGN.md 3.6).

Real OS threads carry the code under test, but a baton guarantees that exactly one of
them runs at a time.  Every shim operation (and, in line mode, every selected source
line) is a *yield point*: the thread announces the operation it is about to perform,
hands the baton back and parks; the controller asks the schedule policy which of the
threads whose pending operation is enabled goes next.  A blocking operation with a
timeout can be *fired*: it then returns its timeout outcome (queue.Empty, False, ...).

See README.md in this directory for the API.
"""
import sys
import threading as _th

from . import shims

DONE = "done"
DEADLOCK = "deadlock"
STEP_LIMIT = "step-limit"
STOPPED = "stopped"          # the policy returned None (end of an explicit schedule, pruned DFS branch ...)
HANG = "hang"                # a controlled thread did not come back to a yield point (real blocking / endless loop)


class Abort(BaseException):
    """Raised inside parked threads to unwind them when a run is torn down."""


class WouldBlock(RuntimeError):
    """A blocking shim operation was called outside a controlled run and is not enabled."""


class SchedulerError(RuntimeError):
    pass


def _true():
    return True


def _baton():
    """a binary semaphore, initially taken: a raw lock released by one thread and acquired by
    another (strictly alternating), much cheaper than threading.Semaphore"""
    b = _th.Lock()
    b.acquire()
    return b


class Pending(object):
    __slots__ = ("label", "enabled", "timeout", "fireable", "obj")

    def __init__(self, label, enabled, timeout, fireable, obj):
        self.label = label
        self.enabled = enabled or _true
        self.timeout = timeout
        self.fireable = fireable
        self.obj = obj

    def can_step(self):
        return self.enabled()

    def can_fire(self):
        if self.fireable is not None:
            return self.fireable()
        return self.timeout and not self.enabled()


class CThread(object):
    """A controlled thread."""

    def __init__(self, ctl, name, fn, daemon, shim, index):
        self.ctl = ctl
        self.name = name
        self.fn = fn
        self.daemon = daemon
        self.shim = shim              # the shim Thread object standing for it (current_thread())
        self.index = index
        self.go = _baton()
        self.booted = _baton()
        self.booting = True
        self.pending = None
        self.fire = False
        self.finished = False
        self.started = False
        self.exc = None               # uncaught exception of fn
        self.steps = 0
        self.os_thread = None

    def __repr__(self):
        return "<CThread %s %s>" % (self.name, "finished" if self.finished else (self.pending.label if self.pending else "running"))


class Option(object):
    """One thing the controller may do next: let `thread` perform its pending operation
    (fire=False) or make its pending timed wait expire (fire=True)."""
    __slots__ = ("thread", "fire", "label")

    def __init__(self, thread, fire):
        self.thread = thread
        self.fire = fire
        self.label = thread.pending.label

    @property
    def name(self):
        return self.thread.name

    def __repr__(self):
        return "%s:%s%s" % (self.thread.name, self.label, "!" if self.fire else "")


class RunResult(object):
    """Outcome of Controller.run().

    status   DONE | DEADLOCK | STEP_LIMIT | STOPPED | HANG
    trace    [(thread name, label)]   label ends with '!' when the step was a fired timeout
    events   [(step index, thread name, payload)] recorded through ctl.record(), in order
    choices  [(number of options, index taken)] one per step (what the DFS explorer permutes)
    skipped  schedule entries a Replay policy had to skip (named thread not enabled)
    errors   [(thread name, exception)] uncaught exceptions of controlled threads
    blocked  [(thread name, label)] threads still parked when the run ended
    leaked   names of OS threads that could not be unwound (only after HANG)
    """

    def __init__(self):
        self.status = None
        self.trace = []
        self.events = []
        self.choices = []
        self.skipped = []
        self.errors = []
        self.blocked = []
        self.leaked = []
        self.steps = 0

    @property
    def schedule(self):
        """the executed schedule as a replayable list: thread name, or name + '!' for a fired timeout"""
        return [n + ("!" if lab.endswith("!") else "") for (n, lab) in self.trace]

    def __repr__(self):
        return "<RunResult %s steps=%d events=%d errors=%d>" % (self.status, self.steps, len(self.events), len(self.errors))


class Controller(object):
    """One controlled run.  A Controller is single-use: build, load/spawn, run().

    policy       schedule policy (policies.py); may also be passed to run()
    fire         'quiescent' (default): a timeout may expire only when no thread is enabled;
                 'anytime': a fireable timeout is always among the options
    max_steps    step limit (status STEP_LIMIT)
    op_yield     every shim operation is a yield point (default).  With False only operations
                 that are not enabled park (useful when line events are the only yield points)
    line_hook    optional f(frame) -> label | None for line events of the loaded modules
                 (see tracer.py); a label makes the line a yield point
    on_step      optional f(ctl, cthread, label, fired) called by the controller after every
                 step, while every thread is parked (snapshots, step invariants)
    hang_timeout seconds of real time after which a thread that does not reach its next yield
                 point is declared hung (detects real blocking; generous)
    """

    def __init__(self, policy=None, fire="quiescent", max_steps=20000, op_yield=True, line_hook=None,
                 on_step=None, hang_timeout=30.0, wait_daemons=False):
        assert fire in ("quiescent", "anytime")
        self.policy = policy
        self.fire_mode = fire
        self.max_steps = max_steps
        self.op_yield = op_yield
        self.line_hook = line_hook
        self.on_step = on_step
        self.hang_timeout = hang_timeout
        self.wait_daemons = wait_daemons
        self.threads = []
        self._by_ident = {}
        self._back = _baton()
        self._aborting = False
        self._running = False
        self._finished_run = False
        self._obj_ids = {}
        self._thread_names = 0
        self.result = RunResult()
        self.modules = []
        self.trace_files = set()
        self.threading = shims.ThreadingNamespace(self)
        self.queue = shims.QueueNamespace(self)
        self.step_index = 0

    # ------------------------------------------------------------------ setup
    def load(self, relpath="jsonrpclib/threadpool.py", name=None, repo=None):
        """Load a module of the repository under a private name with this controller's shims
        installed as its `threading` and `queue`."""
        from . import loader
        mod = loader.load_module(self, relpath, name=name, repo=repo)
        return mod

    def spawn(self, name, fn, daemon=False):
        """Create a controlled client thread running fn().  Before run(): the thread exists from
        step 0.  From inside a controlled thread it behaves like Thread(target=fn).start()."""
        th = self.threading.Thread(target=fn, name=name, daemon=daemon)
        if self._running and self.current() is not None:
            th.start()
        else:
            th._register()
        return th

    def name(self, obj, name):
        """Give a shim object a stable name used in its labels ('Event.set:done' instead of 'Event.set#3')."""
        obj._sname = ":" + name
        return obj

    def _new_obj_suffix(self, kind):
        n = self._obj_ids.get(kind, 0)
        self._obj_ids[kind] = n + 1
        return "#%d" % n

    def _new_thread_name(self):
        self._thread_names += 1
        return "Thread-%d" % self._thread_names

    def record(self, payload):
        """Record an observable event (callback invocation, task start ...) in order."""
        t = self.current()
        self.result.events.append((self.step_index, t.name if t else None, payload))

    def current(self):
        return self._by_ident.get(_th.get_ident())

    # ------------------------------------------------------------------ yield points
    def yield_point(self, label, enabled=None, timeout=False, fireable=None, obj=None, force=False):
        """Called by shims (and the line tracer) BEFORE performing an operation.
        Returns True when the controller fired the operation's timeout instead of enabling it."""
        t = self._by_ident.get(_th.get_ident())
        if t is None:
            # setup / inspection code outside the controlled run: perform at once
            if self._running and not self._aborting and _th.current_thread() is not self._ctl_thread:
                raise SchedulerError("shim operation %s from an uncontrolled thread during a run" % label)
            if enabled is None or enabled():
                return False
            if timeout:
                return True
            raise WouldBlock(label)
        if self._aborting:
            raise Abort()
        if not (self.op_yield or force) and (enabled is None or enabled()):
            return False
        t.pending = Pending(label, enabled, timeout, fireable, obj)
        if t.booting:
            t.booting = False
            t.booted.release()
        else:
            self._back.release()
        t.go.acquire()
        if self._aborting:
            raise Abort()
        t.pending = None
        fired, t.fire = t.fire, False
        return fired

    # ------------------------------------------------------------------ thread plumbing
    def _register(self, shim_thread, fn, name, daemon):
        t = CThread(self, name, fn, daemon, shim_thread, len(self.threads))
        self.threads.append(t)
        return t

    def _bootstrap(self, t):
        self._by_ident[_th.get_ident()] = t
        tracer = None
        try:
            if self._aborting:
                return
            if self.line_hook is not None:
                from . import tracer as _tr
                tracer = _tr.install(self)
            try:
                t.fn()
            except Abort:
                pass
            except BaseException as ex:      # noqa: uncaught exception of the thread body
                if not self._aborting:
                    t.exc = ex
                    self.result.errors.append((t.name, ex))
        finally:
            if tracer is not None:
                sys.settrace(None)
            t.finished = True
            t.pending = None
            self._by_ident.pop(_th.get_ident(), None)
            if t.booting:
                t.booting = False
                t.booted.release()
            elif not self._aborting:
                self._back.release()

    def _boot(self, t):
        """Start the OS thread of t and let it run up to its first yield point (its local
        prefix touches no shared state by construction) while the caller keeps the baton."""
        t.started = True
        t.os_thread = _th.Thread(target=self._bootstrap, args=(t,), name="ctl-" + t.name)
        t.os_thread.daemon = True
        t.os_thread.start()
        if not t.booted.acquire(timeout=self.hang_timeout):
            raise SchedulerError("thread %s did not reach its first yield point" % t.name)

    # ------------------------------------------------------------------ the run
    def options(self):
        steps, fires = [], []
        for t in self.threads:
            if t.finished or not t.started or t.pending is None:
                continue
            p = t.pending
            if p.can_step():
                steps.append(Option(t, False))
            elif p.can_fire():
                fires.append(Option(t, True))
        if self.fire_mode == "anytime":
            out = steps + fires
            out.sort(key=lambda o: (o.thread.index, o.fire))
            return out
        return steps if steps else fires

    def _all_done(self):
        for t in self.threads:
            if not t.finished and (self.wait_daemons or not t.daemon):
                return False
        return True

    def run(self, policy=None):
        if self._finished_run:
            raise SchedulerError("a Controller is single-use")
        policy = policy or self.policy
        if policy is None:
            from . import policies
            policy = policies.First()
        res = self.result
        self._ctl_thread = _th.current_thread()
        self._running = True
        try:
            for t in list(self.threads):
                if not t.started:
                    self._boot(t)
            while True:
                if self._all_done():
                    res.status = DONE
                    break
                if res.steps >= self.max_steps:
                    res.status = STEP_LIMIT
                    break
                opts = self.options()
                if not opts:
                    res.status = DEADLOCK
                    break
                k = policy.choose(self, opts)
                if k is None:
                    res.status = STOPPED
                    break
                o = opts[k]
                res.choices.append((len(opts), k))
                t = o.thread
                label = o.label + ("!" if o.fire else "")
                res.trace.append((t.name, label))
                t.fire = o.fire
                t.steps += 1
                res.steps += 1
                self.step_index = res.steps
                t.go.release()
                if not self._back.acquire(timeout=self.hang_timeout):
                    res.status = HANG
                    break
                if self.on_step is not None:
                    self.on_step(self, t, o.label, o.fire)
        finally:
            self._teardown()
        return res

    def _teardown(self):
        res = self.result
        res.blocked = [(t.name, t.pending.label) for t in self.threads if t.started and not t.finished and t.pending is not None]
        self._aborting = True
        for t in self.threads:
            if t.started and not t.finished:
                t.go.release()
        for t in self.threads:
            if t.os_thread is not None:
                t.os_thread.join(5.0 if res.status != HANG else 0.5)
                if t.os_thread.is_alive():
                    res.leaked.append(t.name)
        self._running = False
        self._finished_run = True
        if res.leaked and res.status != HANG:
            raise SchedulerError("threads leaked after the run: %r" % (res.leaked,))
