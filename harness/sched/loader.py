"""Load a module of the repository under a private name, bound to a Controller's shims."""
import os
import sys
import types

_CODE_CACHE = {}
_COUNTER = [0]


def repo_root(repo=None):
    return repo or os.environ.get("VERIF_REPO") or "/repo"


def module_path(relpath="jsonrpclib/threadpool.py", repo=None):
    return os.path.join(repo_root(repo), relpath)


def _code_for(path):
    st = os.stat(path)
    key = (path, st.st_mtime_ns, st.st_size)
    code = _CODE_CACHE.get(key)
    if code is None:
        with open(path, "rb") as fh:
            src = fh.read()
        code = compile(src, path, "exec", dont_inherit=True)
        _CODE_CACHE.clear() if len(_CODE_CACHE) > 16 else None
        _CODE_CACHE[key] = code
    return code


def load_module(ctl, relpath="jsonrpclib/threadpool.py", name=None, repo=None):
    """A fresh module object per call (the compiled code is cached per file version).  The
    module's globals `threading` and `queue` are replaced by the controller's shim namespaces
    after its body ran (the body only imports them).  The module is NOT put in sys.modules;
    its code objects carry the real file name, so line tracing and coverage see the real file."""
    path = module_path(relpath, repo)
    _COUNTER[0] += 1
    modname = name or "sched_%s" % os.path.splitext(os.path.basename(relpath))[0]
    mod = types.ModuleType(modname)
    mod.__file__ = path
    mod.__package__ = "jsonrpclib"
    exec(_code_for(path), mod.__dict__)
    for attr, ns in (("threading", ctl.threading), ("queue", ctl.queue)):
        if hasattr(mod, attr):
            setattr(mod, attr, ns)
    ctl.modules.append(mod)
    ctl.trace_files.add(path)
    return mod
