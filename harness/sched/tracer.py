"""Line-granularity mode: `sys.settrace` line events in frames of the loaded modules are
additional yield points.

The controller's `line_hook(frame)` decides per line event: it returns a label (the line is a
yield point: the thread parks BEFORE executing the line) or None (the line is local, it runs
on).  The hook may raise to fail closed on an unknown statement.

CPython 3.12 facts the hooks rely on (measured): a `with` line reports a line event on entry
and again on exit (before __exit__ is called); a multi-line call or condition reports one event
per physical line, and the first line again when the call itself happens.

`line_info(frame)` gives (qualified function name, line number, normalised statement text).
An already installed trace function of the thread (e.g. the pipeline's line coverage, put there
by threading.settrace) keeps receiving the events of the traced files."""
import linecache
import re
import sys

_WS = re.compile(r"\s+")


def norm_text(line):
    """whitespace/comment-normalised text of one physical source line"""
    s = line.strip()
    if "#" in s and not ('"' in s or "'" in s):
        s = s.split("#", 1)[0].strip()
    return _WS.sub(" ", s)


def line_info(frame):
    code = frame.f_code
    text = norm_text(linecache.getline(code.co_filename, frame.f_lineno))
    return (getattr(code, "co_qualname", code.co_name), frame.f_lineno, text)


def install(ctl):
    """Install the tracer in the calling (controlled) thread."""
    prev = sys.gettrace()
    files = ctl.trace_files
    hook = ctl.line_hook

    def local(frame, event, arg):
        if event == "line":
            label = hook(frame)
            if label is not None:
                ctl.yield_point(label, force=True)
        return local

    def make_chained(plocal):
        def chained(frame, event, arg):
            nonlocal plocal
            if plocal is not None:
                plocal = plocal(frame, event, arg)
            if event == "line":
                label = hook(frame)
                if label is not None:
                    ctl.yield_point(label, force=True)
            return chained
        return chained

    def glob(frame, event, arg):
        if frame.f_code.co_filename in files:
            if prev is not None:
                pl = prev(frame, event, arg)
                if pl is not None:
                    return make_chained(pl)
            return local
        return None

    sys.settrace(glob)
    return glob
