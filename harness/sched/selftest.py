"""python -m harness.sched.selftest  -- self-test of the controlled scheduler.

(a) drives the real ThreadPool(max 2) through start / 3 enqueues / results / stop under 200
    seeded random schedules (plus PCT schedules): no deadlock, every task runs exactly once,
    nothing leaks; a recorded schedule replays to the same trace;
(b) shim conformance: the same sequential API traces on the shim objects (inside a controlled
    run) and on the real threading/queue classes give the same results;
(c) controller mechanics: exact deadlock detection, quiescent vs. anytime firing of timeouts,
    exhaustive DFS counts, state pruning, line mode, abort leaves no thread behind.
"""
import os
import queue as real_queue
import random
import sys
import threading as real_threading
import time

from . import (Controller, RandomPolicy, PCT, Replay, ReplayIndices, First, explore, line_info,
               DONE, DEADLOCK, STEP_LIMIT, STOPPED)


def _pool_run(policy, fire="quiescent", ntasks=3, maxt=2, lines=False):
    hook = None
    if lines:
        def hook(frame):
            q, ln, text = line_info(frame)
            return "L%d" % ln if q.startswith("ThreadPool.") and "__init__" not in q else None
    ctl = Controller(policy=policy, fire=fire, line_hook=hook, max_steps=50000)
    mod = ctl.load("jsonrpclib/threadpool.py")
    out = {}

    def main():
        pool = mod.ThreadPool(maxt)
        pool.start()
        futs = [pool.enqueue(lambda i=i: (ctl.record(("run", i)), i * 10)[1]) for i in range(ntasks)]
        # in 'anytime' mode a timed result() may legitimately expire: wait without timeout there
        out["results"] = [f.result(5 if fire == "quiescent" else None) for f in futs]
        pool.stop()
        out["alive"] = [t.name for t in pool._threads]
    ctl.spawn("main", main)
    res = ctl.run()
    return res, out


def test_pool(n=200):
    base = real_threading.active_count()
    t0 = time.time()
    steps = 0
    for seed in range(n):
        for pol in (RandomPolicy(seed), PCT(seed, depth=1 + seed % 4, est_steps=80)):
            res, out = _pool_run(pol)
            assert res.status == DONE, ("pool run did not finish", seed, res.status, res.blocked)
            assert not res.errors, res.errors
            assert sorted(e[2][1] for e in res.events) == [0, 1, 2], ("tasks not run exactly once", seed, res.events)
            assert out["results"] == [0, 10, 20], out
            steps += res.steps
    dt = (time.time() - t0) / (2 * n)
    # replay determinism
    res, _ = _pool_run(RandomPolicy(7))
    res2, _ = _pool_run(Replay(res.schedule))
    assert res2.trace == res.trace and res2.status == DONE and not res2.skipped, "replay by names diverged"
    res3, _ = _pool_run(ReplayIndices([k for _, k in res.choices]))
    assert res3.trace == res.trace, "replay by indices diverged"
    # anytime mode and line mode also complete
    for seed in range(20):
        res, out = _pool_run(RandomPolicy(seed), fire="anytime")
        assert res.status == DONE and out["results"] == [0, 10, 20], (seed, res.status)
        res, out = _pool_run(RandomPolicy(seed), lines=True)
        assert res.status == DONE and out["results"] == [0, 10, 20], (seed, res.status)
    assert real_threading.active_count() == base, "OS threads leaked"
    return "pool: %d schedules ok, %.1f ms/run, %.0f steps/run" % (2 * n + 40, dt * 1000, steps / (2.0 * n))


# ------------------------------------------------------------------ (b) conformance

def _apply(ns, qns, trace, sink):
    """interpret a sequential API trace on the namespace pair (threading-like, queue-like)"""
    objs = {}
    for step in trace:
        op = step[0]
        try:
            if op == "new":
                _, name, kind, args = step
                objs[name] = {"Event": ns.Event, "Lock": ns.Lock, "RLock": ns.RLock,
                              "Queue": qns.Queue}[kind](*args) if kind != "Condition" else ns.Condition(objs[args[0]] if args else None)
                sink.append(("new", name))
            elif op == "call":
                _, name, meth, args = step
                r = getattr(objs[name], meth)(*args)
                sink.append((name, meth, r if not isinstance(r, (real_threading.Thread,)) else None))
            elif op == "attr":
                _, name, attr = step
                sink.append((name, attr, getattr(objs[name], attr)))
            elif op == "cond":          # queue's all_tasks_done used as a context manager with a timed wait
                _, name, timeout = step
                c = objs[name].all_tasks_done
                with c:
                    r = c.wait(timeout)
                    sink.append((name, "all_tasks_done.wait", r, objs[name].unfinished_tasks))
            elif op == "thread":        # start a thread that runs a sub-trace, join it
                _, sub = step
                th = ns.Thread(target=_apply, args=(ns, qns, [("use", objs)] + sub, sink), name="child")
                th.daemon = True
                alive0 = th.is_alive()
                th.start()
                th.join(5)
                sink.append(("thread", alive0, th.is_alive(), th.name, th.daemon))
            elif op == "use":
                objs = step[1]
        except Exception as ex:       # noqa
            sink.append((step[1] if len(step) > 1 and isinstance(step[1], str) else op, "raises", type(ex).__name__))
    return sink


def _rand_trace(rng):
    T = 0.01
    tr = [("new", "e", "Event", ()), ("new", "l", "Lock", ()), ("new", "r", "RLock", ()),
          ("new", "q", "Queue", (rng.choice([0, 1, 2]),)), ("new", "c", "Condition", ()), ("new", "cl", "Condition", ("l",))]
    depth = {"l": 0, "r": 0}
    for _ in range(rng.randrange(5, 40)):
        k = rng.randrange(15)
        if k == 0:
            tr.append(("call", "e", rng.choice(["set", "clear", "is_set"]), ()))
        elif k == 1:
            tr.append(("call", "e", "wait", (rng.choice([0, T]),)))
        elif k == 2:
            tr.append(("call", "q", "put", (rng.randrange(100), rng.choice([True, False]), rng.choice([None, T, 0]) if True else None)))
            # a blocking put without timeout on a full queue would hang the real class: fix it up
            if tr[-1][3][1] and tr[-1][3][2] is None:
                tr[-1] = ("call", "q", "put", (tr[-1][3][0], True, T))
        elif k == 3:
            tr.append(("call", "q", "get", (rng.choice([True, False]), rng.choice([T, 0]))))
        elif k == 4:
            tr.append(("call", "q", rng.choice(["get_nowait", "task_done", "qsize", "empty", "full"]), ()))
        elif k == 5:
            tr.append(("attr", "q", "unfinished_tasks"))
        elif k == 6:
            tr.append(("cond", "q", rng.choice([T, 0.02])))
        elif k == 7:
            # never an untimed blocking acquire: it would hang the real class when the lock is taken
            tr.append(("call", "l", "acquire", rng.choice([(False,), (True, T), (True, T)])))
            depth["l"] = 1
        elif k == 8:
            tr.append(("call", "l", "release", ()))
            depth["l"] = 0
        elif k == 9:
            tr.append(("call", "r", "acquire", rng.choice([(False,), (True, T)])))
            depth["r"] += 1
        elif k == 10:
            tr.append(("call", "r", "release", ()))
            depth["r"] = max(0, depth["r"] - 1)
        elif k == 11:
            tr.append(("call", "l", "locked", ()))
        elif k == 12:
            # condition: wait with timeout needs the lock; notify too
            which = rng.choice(["c", "cl"])
            tr.append(("call", which, "acquire", (True, T)))
            if which == "cl":
                depth["l"] = 1
            tr.append(("call", which, rng.choice(["notify", "notify_all"]), ()))
            tr.append(("call", which, "wait", (T,)))
            tr.append(("call", which, "release", ()))
            if which == "cl":
                depth["l"] = 0
        elif k == 13:
            tr.append(("call", rng.choice(["c", "cl"]), rng.choice(["notify", "wait"]), () if rng.random() < .5 else (T,)))
            if tr[-1][2] == "notify":
                tr[-1] = (tr[-1][0], tr[-1][1], "notify", ())
            elif depth["l"] == 1 and tr[-1][1] == "cl" and tr[-1][3] == ():
                tr[-1] = ("call", "cl", "wait", (T,))     # an untimed wait while owning would hang the real class
            elif tr[-1][3] == ():
                tr[-1] = (tr[-1][0], tr[-1][1], "wait", (T,))
        else:
            sub = [("call", "e", "set", ()), ("call", "q", "put", (7, False)), ("call", "r", "acquire", (False,)),
                   ("call", "l", "acquire", (False,)), ("call", "q", "qsize", ())]
            rng.shuffle(sub)
            sub = sub[:rng.randrange(1, 5)]
            if ("call", "r", "acquire", (False,)) in sub:
                # an RLock left owned by a dead thread is re-acquirable by whichever later thread
                # recycles its ident in CPython: not a behaviour to conform to, so release it
                sub.append(("call", "r", "release", ()))
            tr.append(("thread", sub))
    # release what is held so that nothing outlives the trace
    return tr


def test_conformance(n=300, seed=0):
    rng = random.Random(seed)
    ops = 0
    for i in range(n):
        tr = _rand_trace(rng)
        real = _apply(real_threading, real_queue, tr, [])
        ctl = Controller(policy=First(), max_steps=5000)
        shim = []
        ctl.spawn("main", lambda: _apply(ctl.threading, ctl.queue, tr, shim))
        res = ctl.run()
        assert res.status == DONE, ("conformance trace did not finish under the shims", i, res.status, res.blocked, tr)
        assert not res.errors, res.errors
        assert real == shim, "shim differs from the real class on trace %d:\n%s" % (
            i, "\n".join("%r | real %r | shim %r" % (s, a, b) for s, a, b in zip(tr[:], real, shim) if a != b) + "\ntrace: %r" % (tr,))
        ops += len(tr)
    return "conformance: %d traces / %d operations agree with threading/queue" % (n, ops)


# ------------------------------------------------------------------ (c) mechanics

def test_mechanics():
    base = real_threading.active_count()
    # exact deadlock detection (lock order inversion): some schedules deadlock, some do not
    def lock_prog(pol):
        ctl = Controller(policy=pol)
        a, b = ctl.threading.Lock(), ctl.threading.Lock()

        def t1():
            with a:
                with b:
                    ctl.record("t1")

        def t2():
            with b:
                with a:
                    ctl.record("t2")
        ctl.spawn("t1", t1)
        ctl.spawn("t2", t2)
        return ctl.run()
    st = {}
    statuses = [r.status for r in explore(lock_prog, stats=st)]
    assert st["exhausted"] and DEADLOCK in statuses and DONE in statuses, statuses
    n_dead = statuses.count(DEADLOCK)
    # DFS count: two threads with k yield points each have C(2k, k) interleavings
    def two(pol, k=3):
        ctl = Controller(policy=pol)
        ev = ctl.threading.Event()

        def body():
            for _ in range(k):
                ev.is_set()
        ctl.spawn("a", body)
        ctl.spawn("b", body)
        return ctl.run()
    st = {}
    cnt = sum(1 for _ in explore(two, stats=st))
    assert cnt == 20 and st["exhausted"], cnt
    st = {}
    cnt_pruned = sum(1 for _ in explore(two, stats=st, state_key=lambda ctl: tuple(t.steps for t in ctl.threads)))
    assert st["exhausted"] and st["complete"] >= 1 and cnt_pruned < 20, st
    # timeouts: quiescent mode fires only when nothing else can run; anytime mode may fire earlier
    def timed(pol, mode):
        ctl = Controller(policy=pol, fire=mode)
        q = ctl.queue.Queue()

        def consumer():
            try:
                ctl.record(("got", q.get(True, 1.0)))
            except real_queue.Empty:
                ctl.record("empty")

        def producer():
            q.qsize()
            q.put(5)
        ctl.spawn("c", consumer)
        ctl.spawn("p", producer)
        return ctl.run()
    outs_q = set(tuple(e[2] for e in r.events) for r in explore(lambda p: timed(p, "quiescent")))
    outs_a = set(tuple(e[2] for e in r.events) for r in explore(lambda p: timed(p, "anytime")))
    assert outs_q == {(("got", 5),)}, outs_q
    assert outs_a == {(("got", 5),), ("empty",)}, outs_a
    # untimed wait that nobody satisfies = deadlock; timed one = fired at quiescence
    ctl = Controller()
    ev = ctl.threading.Event()
    ctl.spawn("w", lambda: ev.wait())
    r = ctl.run()
    assert r.status == DEADLOCK and r.blocked == [("w", "Event.wait#0")], (r.status, r.blocked)
    ctl = Controller()
    ev = ctl.threading.Event()
    ctl.spawn("w", lambda: ctl.record(ev.wait(2)))
    r = ctl.run()
    assert r.status == DONE and r.events[0][2] is False and r.trace[-1][1].endswith("!"), (r.status, r.trace)
    # step limit and uncaught exceptions
    ctl = Controller(max_steps=50)
    ev = ctl.threading.Event()

    def spin():
        while True:
            ev.is_set()
    ctl.spawn("s", spin)
    assert ctl.run().status == STEP_LIMIT

    def boom():
        ev2.set()
        raise ValueError("x")
    ctl = Controller()
    ev2 = ctl.threading.Event()
    ctl.spawn("b", boom)
    r = ctl.run()
    assert r.status == DONE and r.errors and isinstance(r.errors[0][1], ValueError)
    # skipping semantics of Replay: a disabled / unknown entry is skipped
    ctl = Controller(policy=Replay(["w", "nobody", "s", "w"]))
    ev3 = ctl.threading.Event()
    ctl.spawn("w", lambda: ev3.wait())
    ctl.spawn("s", lambda: ev3.set())
    r = ctl.run()
    assert r.status == DONE and [e for _, e in r.skipped] == ["w", "nobody"], (r.status, r.skipped)
    time.sleep(0.05)
    assert real_threading.active_count() == base, "OS threads leaked"
    return "mechanics: deadlock detection (%d deadlocking schedules of the lock inversion), DFS counts, pruning, timeout modes, replay skipping ok" % n_dead


def main():
    import logging
    logging.disable(logging.CRITICAL)      # the pool logs "still alive" when a join(3) is fired in anytime mode
    t0 = time.time()
    for fn in (test_mechanics, test_conformance, test_pool):
        print(fn())
    print("harness.sched selftest passed in %.1fs" % (time.time() - t0))
    return 0


if __name__ == "__main__":
    sys.exit(main())
