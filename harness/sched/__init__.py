"""Controlled thread scheduler for the concurrency properties (DESIGN.md 3.6).  See README.md."""
from .controller import (Controller, RunResult, Abort, WouldBlock, SchedulerError,
                         DONE, DEADLOCK, STEP_LIMIT, STOPPED, HANG)
from .policies import First, RoundRobin, Replay, ReplayIndices, RandomPolicy, PCT, explore
from .loader import load_module, module_path
from .tracer import line_info, norm_text
