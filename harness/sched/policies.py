"""Schedule policies.  A policy is an object with

    choose(ctl, options) -> index into options, or None to stop the run (status STOPPED)

`options` is the controller's deterministic list of Option(thread, fire, label): the threads
whose pending operation is enabled, in thread-creation order (in 'quiescent' mode fireable
timeouts are offered only when no thread is enabled)."""
import random


class First(object):
    """always the first option (lowest thread index)"""

    def choose(self, ctl, options):
        return 0


class RoundRobin(object):
    def __init__(self):
        self.last = -1

    def choose(self, ctl, options):
        for k, o in enumerate(options):
            if o.thread.index > self.last:
                self.last = o.thread.index
                return k
        self.last = options[0].thread.index
        return 0


class Replay(object):
    """Replay an explicit schedule: a list of thread names; 'name!' (or (name, True)) asks for
    the thread's pending timeout to be fired.  An entry whose thread has no matching option at
    that moment (disabled, finished, not yet created) is SKIPPED, exactly like `run` in
    Base/Sched.v; skipped entries are reported in RunResult.skipped.  When the list is
    exhausted the `then` policy takes over (None: stop the run)."""

    def __init__(self, schedule, then=None):
        self.schedule = list(schedule)
        self.pos = 0
        self.then = then

    def choose(self, ctl, options):
        while self.pos < len(self.schedule):
            e = self.schedule[self.pos]
            self.pos += 1
            if isinstance(e, (tuple, list)):
                name, fire = e[0], bool(e[1])
            elif e.endswith("!"):
                name, fire = e[:-1], True
            else:
                name, fire = e, False
            for k, o in enumerate(options):
                if o.thread.name == name and o.fire == fire:
                    return k
            ctl.result.skipped.append((self.pos - 1, e))
        if self.then is not None:
            return self.then.choose(ctl, options)
        return None


class ReplayIndices(object):
    """Replay a list of option indices (what RunResult.choices / the DFS explorer use)."""

    def __init__(self, indices, then=None):
        self.indices = list(indices)
        self.pos = 0
        self.then = then if then is not None else First()

    def choose(self, ctl, options):
        if self.pos < len(self.indices):
            k = self.indices[self.pos]
            self.pos += 1
            if k >= len(options):
                raise IndexError("schedule index %d out of range (%d options) at step %d" % (k, len(options), self.pos - 1))
            return k
        return self.then.choose(ctl, options)


class RandomPolicy(object):
    """uniform seeded choice among the options"""

    def __init__(self, seed=0):
        self.rng = seed if isinstance(seed, random.Random) else random.Random(seed)

    def choose(self, ctl, options):
        return self.rng.randrange(len(options))


class PCT(object):
    """PCT-style priority schedule (Burckhardt et al.): every thread gets a random distinct
    priority when first seen; the highest-priority enabled thread runs; at `depth - 1` random
    change points (step numbers drawn in [1, est_steps]) the thread that would run is demoted
    below every other.  Finds bugs of depth d with probability >= 1/(n * k^(d-1))."""

    def __init__(self, seed=0, depth=2, est_steps=100):
        self.rng = seed if isinstance(seed, random.Random) else random.Random(seed)
        self.prio = {}
        self.change = set(self.rng.randrange(1, max(2, est_steps + 1)) for _ in range(max(0, depth - 1)))
        self.low = 0
        self.step = 0

    def _p(self, t):
        if t.index not in self.prio:
            self.prio[t.index] = self.rng.random() + 1.0
        return self.prio[t.index]

    def choose(self, ctl, options):
        self.step += 1
        best = max(range(len(options)), key=lambda k: (self._p(options[k].thread), -k))
        if self.step in self.change:
            self.low -= 1
            self.prio[options[best].thread.index] = self.low
            best = max(range(len(options)), key=lambda k: (self._p(options[k].thread), -k))
        return best


class _Dfs(object):
    def __init__(self, prefix, visited, state_key):
        self.prefix = prefix
        self.visited = visited
        self.state_key = state_key
        self.pruned = False

    def choose(self, ctl, options):
        i = len(ctl.result.choices)
        if i < len(self.prefix):
            k = self.prefix[i]
            if k >= len(options):
                raise IndexError("non-deterministic program: option %d of %d at step %d" % (k, len(options), i))
            return k
        if self.state_key is not None:
            key = self.state_key(ctl)
            if key in self.visited:
                self.pruned = True
                return None
            self.visited.add(key)
        return 0


def explore(run, budget=100000, state_key=None, stats=None):
    """Exhaustive depth-first enumeration of the schedules of a small program.

    run(policy) must build a fresh Controller + program, run it under `policy` and return the
    RunResult (the program must be deterministic given the schedule).  Yields the RunResult of
    every complete schedule exactly once (stateless search: re-run with a prefix of option
    indices, then explore each alternative at each later choice point).

    state_key(ctl) -> hashable, optional: called at every fresh choice point; a run reaching an
    already visited key is cut there (its RunResult has status STOPPED and is yielded too, with
    `.pruned = True`).  The key must determine the future AND everything the caller's oracle
    looks at (per-thread program counters, shared state, the recorded events ...); then every
    reachable state and transition is still covered.

    budget: maximal number of runs; `stats` (a dict) receives runs / complete / pruned /
    exhausted (True when the search space was covered within the budget)."""
    stack = [()]
    visited = set()
    runs = complete = pruned = 0
    while stack and runs < budget:
        prefix = stack.pop()
        pol = _Dfs(prefix, visited, state_key)
        res = run(pol)
        runs += 1
        res.pruned = pol.pruned
        if pol.pruned:
            pruned += 1
        else:
            complete += 1
        taken = [k for (_, k) in res.choices]
        for i in range(len(prefix), len(res.choices)):
            n = res.choices[i][0]
            for alt in range(n - 1, 0, -1):
                stack.append(tuple(taken[:i]) + (alt,))
        yield res
    if stats is not None:
        stats.update(runs=runs, complete=complete, pruned=pruned, exhausted=not stack)
