"""Shared pieces of the C12 harness: the methods registered on servers under test (token log, gates),
request descriptors -> raw HTTP requests, a raw socket client, server construction, watchdog calls."""
import json
import os
import socket
import threading

HANG = 20.0          # a call that has not returned after this many seconds is a hang (healthy: milliseconds)
IO_TIMEOUT = 30.0    # socket timeout of the raw clients


class MethodAborted(BaseException):
    """a failure that is not an Exception (like asyncio.CancelledError or KeyboardInterrupt)"""


class Registry(object):
    """The callables registered on a server under test.  Every request carries a unique token which the
    method logs (under a lock) and echoes; slow methods wait for a gate (threading.Event), never sleep."""

    def __init__(self):
        self.lock = threading.Lock()
        self.log = []
        self._entered = {}
        self._gates = {}
        self.all_open = False

    def _ev(self, table, token):
        with self.lock:
            ev = table.get(token)
            if ev is None:
                ev = table[token] = threading.Event()
            return ev

    def entered(self, token):
        return self._ev(self._entered, token)

    def gate(self, token):
        ev = self._ev(self._gates, token)
        if self.all_open:
            ev.set()
        return ev

    def open_all(self):
        self.all_open = True
        with self.lock:
            evs = list(self._gates.values())
        for ev in evs:
            ev.set()

    def record(self, token):
        with self.lock:
            self.log.append(token)

    # ---- the registered methods
    def echo(self, token, x=None):
        self.record(token)
        return [token, x]

    def fail(self, token):
        """a failing method: by token, an ordinary exception, sys.exit() or another BaseException -- the dispatcher
        turns every one of them into an error reply (`except:` in _dispatch), none may take the server down"""
        self.record(token)
        h = sum(map(ord, str(token))) % 3
        if h == 1:
            raise SystemExit("failing method " + str(token))
        if h == 2:
            raise MethodAborted("failing method " + str(token))
        raise ValueError("failing method " + str(token))

    def slow(self, token):
        self.record(token)
        self.entered(token).set()
        self.gate(token).wait(3 * HANG)
        return [token, "slow"]

    def register(self, server):
        server.register_function(self.echo, "echo")
        server.register_function(self.fail, "fail")
        server.register_function(self.slow, "slow")

    def swap_log(self):
        with self.lock:
            old, self.log = self.log, []
        return old


# ---------------------------------------------------------------- request descriptors

def _call(method, params, rid, v2=True, notify=False):
    d = {}
    if v2:
        d["jsonrpc"] = "2.0"
    d["method"] = method
    d["params"] = params
    if not notify:
        d["id"] = rid
    return d


BATCH_ELEMS = ["call", "notify", "fail", "unknown", "junk"]


def materialize(desc):
    """descriptor -> dict(path, body (str), clen (int | None | 'abc'), tokens {token: expected executions},
    expect: what the property requires of the reply on this connection)."""
    k, tok = desc["k"], desc["tok"]
    rid = desc.get("rid", 7)
    payload = desc.get("payload", 1)
    path, clen_mode = "/", "ok"
    tokens = {tok: 0}
    expect = {"kind": "any"}
    if k == "call":
        obj = _call("echo", [tok, payload], rid)
        tokens[tok] = 1
        expect = {"kind": "result", "id": rid, "result": [tok, payload]}
    elif k == "call_kw":
        obj = _call("echo", {"token": tok, "x": payload}, rid)
        tokens[tok] = 1
        expect = {"kind": "result", "id": rid, "result": [tok, payload]}
    elif k == "call_v1":
        obj = _call("echo", [tok, payload], rid, v2=False)
        tokens[tok] = 1
        expect = {"kind": "result", "id": rid, "result": [tok, payload]}
    elif k == "notify":
        obj = _call("echo", [tok, payload], None, notify=True)
        tokens[tok] = 1
        expect = {"kind": "empty"}
    elif k == "fail":
        obj = _call("fail", [tok], rid)
        tokens[tok] = 1
        expect = {"kind": "error", "id": rid}
    elif k == "notify_fail":
        obj = _call("fail", [tok], None, notify=True)
        tokens[tok] = 1
        expect = {"kind": "any"}
    elif k == "slow":
        obj = _call("slow", [tok], rid)
        tokens[tok] = 1
        expect = {"kind": "result", "id": rid, "result": [tok, "slow"]}
    elif k == "unknown":
        obj = _call("no_such_method", [tok], rid)
        expect = {"kind": "error", "id": rid}
    elif k == "badparams":
        obj = _call("echo", [tok, 1, 2, 3], rid)
        expect = {"kind": "error", "id": rid}
    elif k == "batch":
        obj, exp_items = [], []
        tokens = {}
        for j, e in enumerate(desc["elems"]):
            t = "%sb%d" % (tok, j)
            if e == "call":
                obj.append(_call("echo", [t, j], rid + j))
                tokens[t] = 1
                exp_items.append({"kind": "result", "id": rid + j, "result": [t, j]})
            elif e == "notify":
                obj.append(_call("echo", [t, j], None, notify=True))
                tokens[t] = 1
            elif e == "fail":
                obj.append(_call("fail", [t], rid + j))
                tokens[t] = 1
                exp_items.append({"kind": "error", "id": rid + j})
            elif e == "unknown":
                obj.append(_call("no_such_method", [t], rid + j))
                tokens[t] = 0
                exp_items.append({"kind": "error", "id": rid + j})
            else:
                obj.append(5)
                exp_items.append({"kind": "error", "id": None})
        expect = {"kind": "batch", "items": exp_items}
    elif k == "invalid_json":
        obj = None
        body = '{"jsonrpc": "2.0", "method": "echo", "params": ["%s"' % tok
        expect = {"kind": "error", "id": None}
    elif k == "invalid_req":
        obj = None
        body = desc.get("text", '{"jsonrpc": "2.0", "id": 3}')
        expect = {"kind": "error_or_empty"}
    elif k == "empty_body":
        obj = None
        body = ""
        expect = {"kind": "error", "id": None}
    elif k == "abandon":
        # the client sends a call of the slow method and goes away without reading: when the method is let go the handler
        # writes to a closed connection (EPIPE on a Unix socket, possibly nothing noticed on TCP); whatever happens to this
        # handler, the server goes on serving
        obj = _call("slow", [tok], rid)
        tokens[tok] = 1
        expect = {"kind": "none"}
    elif k == "long_clen":
        # the client announces more bytes than it sends and then half-closes: the server reads what there is (end of file
        # ends the chunk loop) and serves that text
        obj = _call("echo", [tok, payload], rid)
        clen_mode = k
        tokens[tok] = 1
        expect = {"kind": "result", "id": rid, "result": [tok, payload]}
    elif k in ("no_clen", "bad_clen", "short_clen"):
        obj = _call("echo", [tok, payload], rid)
        clen_mode = k
        expect = {"kind": "error_status"} if k != "short_clen" else {"kind": "error", "id": None}
    elif k == "bad_path":
        obj = _call("echo", [tok, payload], rid)
        path = "/no/such/path"
        expect = {"kind": "status", "status": 404}
    elif k in ("garbage", "empty_conn", "get"):
        return {"k": k, "path": None, "body": "", "clen": None, "tokens": tokens, "expect": {"kind": "none"}, "raw": {
            "garbage": b"\x00\x01 this is not HTTP\r\n\r\n", "empty_conn": b"", "get": b"GET / HTTP/1.0\r\n\r\n"}[k]}
    else:
        raise ValueError(k)
    if obj is not None:
        body = json.dumps(obj)
    raw_body = body.encode("utf-8")
    if clen_mode == "ok":
        clen = len(raw_body)
    elif clen_mode == "no_clen":
        clen = None
    elif clen_mode == "bad_clen":
        clen = "abc"
    elif clen_mode == "long_clen":
        clen = len(raw_body) + 5
    else:
        clen = max(0, len(raw_body) - 3)
    head = "POST %s HTTP/1.0\r\nHost: localhost\r\nContent-Type: application/json-rpc\r\n" % path
    if clen is not None:
        head += "Content-Length: %s\r\n" % clen
    raw = head.encode("ascii") + b"\r\n" + raw_body
    return {"k": k, "path": path, "body": body, "clen": clen if isinstance(clen, int) else None, "tokens": tokens,
            "expect": expect, "raw": raw, "half_close": clen_mode == "long_clen"}


def in_model(k):
    """connections that reach do_POST (the handler-level model covers exactly those)"""
    return k not in ("garbage", "empty_conn", "get", "abandon")


# ---------------------------------------------------------------- raw client

def http_send_and_leave(family, address, raw, timeout=IO_TIMEOUT):
    """One connection: send the bytes and close without reading anything."""
    s = socket.socket(family, socket.SOCK_STREAM)
    try:
        if family == socket.AF_INET:
            s.settimeout(timeout)
        s.connect(address)
        s.settimeout(timeout)
        s.sendall(raw)
        return b""
    except Exception as ex:      # noqa
        return ex
    finally:
        s.close()


def http_exchange(family, address, raw, timeout=IO_TIMEOUT, half_close=False):
    """One connection: send the bytes, read until the server closes.  Returns the bytes received, or an
    exception instance."""
    s = socket.socket(family, socket.SOCK_STREAM)
    try:
        if family == socket.AF_INET:
            s.settimeout(timeout)
        # AF_UNIX: a connect() with a timeout fails with EAGAIN while the listen backlog is full; a blocking one waits
        s.connect(address)
        s.settimeout(timeout)
        if raw:
            s.sendall(raw)
            if half_close:
                s.shutdown(socket.SHUT_WR)
        else:
            s.shutdown(socket.SHUT_WR)
        chunks = []
        while True:
            b = s.recv(65536)
            if not b:
                break
            chunks.append(b)
        return b"".join(chunks)
    except Exception as ex:      # noqa
        return ex
    finally:
        try:
            s.close()
        except Exception:        # noqa
            pass


def parse_http(resp):
    """-> (status | None, body text | None)"""
    if not isinstance(resp, (bytes, bytearray)) or not resp.startswith(b"HTTP/"):
        return None, None
    head, _, body = resp.partition(b"\r\n\r\n")
    try:
        status = int(head.split(b"\r\n", 1)[0].split()[1])
    except Exception:            # noqa
        return None, None
    return status, body.decode("utf-8", "replace")


# ---------------------------------------------------------------- servers

def pool_size(kind, pool):
    """number of requests that can be inside a method at the same time"""
    if kind == "plain":
        return 1
    return 30 if pool in (None, "default") else int(pool)


def make_server(kind, pool, family, tmpdir, tag, addr=None):
    """-> (server, user_pool | None, address, socket family, name prefix of the pool's worker threads)"""
    import jsonrpclib.SimpleJSONRPCServer as S
    import jsonrpclib.threadpool as TP
    fam = socket.AF_UNIX if family == "unix" else socket.AF_INET
    if addr is None:
        addr = os.path.join(tmpdir, "s%s.sock" % tag) if family == "unix" else ("127.0.0.1", 0)
    user_pool, prefix = None, None
    if kind == "plain":
        server = S.SimpleJSONRPCServer(addr, logRequests=False, address_family=fam)
    else:
        if pool in (None, "default"):
            prefix = "PooledJSONRPCServer-"
            server = S.PooledJSONRPCServer(addr, logRequests=False, address_family=fam)
        else:
            prefix = "c12pool%s-" % tag
            user_pool = TP.ThreadPool(int(pool), logname="c12pool%s" % tag)
            user_pool.start()
            try:
                server = S.PooledJSONRPCServer(addr, logRequests=False, address_family=fam, thread_pool=user_pool)
            except BaseException:
                raise
    address = server.socket.getsockname() if family != "unix" else addr
    return server, user_pool, address, fam, prefix


def pool_workers(prefix, before=()):
    """alive worker threads of a request pool, recognised by the pool's thread-name prefix"""
    if prefix is None:
        return []
    return [t for t in threading.enumerate() if t.name.startswith(prefix) and t not in before and t.is_alive()]


def watchdog_call(fn, grace=None, on_blocked=None, hang=HANG):
    """Run fn() in a daemon thread.  Returns (returned?, result | exception).  If the call is still running
    after `grace` seconds, `on_blocked()` is invoked (the gates of in-flight requests are opened) and the
    call gets `hang` more seconds."""
    box = {}

    def target():
        try:
            box["r"] = fn()
        except BaseException as ex:   # noqa
            box["x"] = ex
    t = threading.Thread(target=target, name="c12-watchdog", daemon=True)
    t.start()
    if grace is not None:
        t.join(grace)
        if t.is_alive() and on_blocked is not None:
            on_blocked()
    t.join(hang)
    if t.is_alive():
        return False, None
    return True, box.get("x", box.get("r"))
