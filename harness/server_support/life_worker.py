"""Subprocess that executes lifecycle histories of property C12 against the real servers.

Protocol: one JSON object per line on stdin (a case), one JSON object per line on stdout (its
observation).  Every API call of a history runs in a watchdog thread; when a call hangs the worker
answers and then exits with os._exit (its threads cannot be recovered) -- the parent starts a new one.

Ops: "C" construct, "CX" construct on an address that is already taken (bind fails inside __init__),
"S" serve_forever in a thread (returns once a probe request has been answered), "Rf" request answered
before the op returns, "Rs" request whose method has been entered and waits for its gate (in flight),
"SD" shutdown(), "CL" server_close()."""
import json
import os
import shutil
import socket
import sys
import tempfile
import threading

HERE = os.path.dirname(os.path.dirname(os.path.dirname(os.path.abspath(__file__))))
if HERE not in sys.path:
    sys.path.insert(0, HERE)

from harness.core import env                       # noqa: E402
from harness.server_support import common as K     # noqa: E402

_COUNTER = [0]


def run_history(case):
    kind, pool, family = case["kind"], case.get("pool"), case["family"]
    hist = case["history"]
    grace = case.get("grace", 0.05)
    hang = case.get("hang", K.HANG)
    _COUNTER[0] += 1
    tag = "%d_%d" % (os.getpid(), _COUNTER[0])
    tmp = tempfile.mkdtemp(prefix="c12life")
    reg = K.Registry()
    st = {"server": None, "pool": None, "addr": None, "fam": None, "prefix": None, "serve": None,
          "blocker": None, "closed": False}
    before = set(threading.enumerate())
    clients = []           # (token, thread, box)
    out = {"returned": 0, "hung_op": None, "socket_open": None, "workers_dead": None, "replies_ok": True,
           "notes": [], "ctor_raised": None, "serve_alive": None}
    ntok = [0]

    def token():
        ntok[0] += 1
        return "L%sx%dZ" % (tag, ntok[0])

    def request(tok, method):
        d = {"k": "call" if method == "echo" else "slow", "tok": tok, "rid": ntok[0]}
        m = K.materialize(d)
        resp = K.http_exchange(st["fam"], st["addr"], m["raw"])
        status, body = K.parse_http(resp)
        try:
            j = json.loads(body)
        except Exception:      # noqa
            j = None
        ok = status == 200 and isinstance(j, dict) and j.get("result") == m["expect"]["result"] and j.get("id") == d["rid"]
        return ok, (status, body if body is None else body[:200], repr(resp)[:120] if not isinstance(resp, bytes) else None)

    def do_construct():
        srv, upool, addr, fam, prefix = K.make_server(kind, pool, family, tmp, tag)
        st.update(server=srv, pool=upool, addr=addr, fam=fam, prefix=prefix)
        reg.register(srv)

    def do_construct_taken():
        # somebody else listens on the address: TCPServer.__init__ fails in server_bind and calls self.server_close()
        import jsonrpclib.threadpool as TP
        fam = socket.AF_UNIX if family == "unix" else socket.AF_INET
        blocker = socket.socket(fam, socket.SOCK_STREAM)
        st["blocker"] = blocker
        if family == "unix":
            addr = os.path.join(tmp, "taken.sock")
            blocker.bind(addr)
        else:
            blocker.bind(("127.0.0.1", 0))
            addr = blocker.getsockname()
        blocker.listen(1)
        st["prefix"] = "c12pool%s-" % tag if pool not in (None, "default") else "PooledJSONRPCServer-"
        try:
            K.make_server(kind, pool, family, tmp, tag, addr=addr)
        except OSError as ex:
            out["ctor_raised"] = type(ex).__name__
            return
        out["ctor_raised"] = "nothing"

    def do_serve():
        if st["serve"] is not None:
            st["serve"].join(hang)
            if st["serve"].is_alive():
                raise RuntimeError("previous serving thread did not finish")
        t = threading.Thread(target=st["server"].serve_forever, kwargs={"poll_interval": 0.01}, name="c12-serve", daemon=True)
        st["serve"] = t
        t.start()
        ok, info = request(token(), "echo")      # the loop is demonstrably running once a request is answered
        if not ok:
            out["replies_ok"] = False
            out["notes"].append("probe after serve_forever: %r" % (info,))

    def do_fast():
        ok, info = request(token(), "echo")
        if not ok:
            out["replies_ok"] = False
            out["notes"].append("fast request: %r" % (info,))

    def do_slow():
        tok = token()
        box = {}

        def client():
            box["ok"], box["info"] = request(tok, "slow")
        t = threading.Thread(target=client, name="c12-client", daemon=True)
        t.start()
        clients.append((tok, t, box))
        if not reg.entered(tok).wait(hang):
            raise RuntimeError("slow method never entered")

    def do_shutdown():
        st["server"].shutdown()

    def do_close():
        st["server"].server_close()

    table = {"C": do_construct, "CX": do_construct_taken, "S": do_serve, "Rf": do_fast, "Rs": do_slow,
             "SD": do_shutdown, "CL": do_close}

    def measure_closed():
        srv = st["server"]
        if srv is not None:
            out["socket_open"] = srv.socket.fileno() != -1
        if kind == "pooled":
            alive = K.pool_workers(st["prefix"], before)
            out["workers_dead"] = not alive
            if alive:
                out["notes"].append("alive workers: %s" % [t.name for t in alive])
        else:
            out["workers_dead"] = True

    hung = False
    for i, o in enumerate(hist):
        returned, res = K.watchdog_call(table[o], grace=grace if o in ("SD", "CL", "CX") else None,
                                        on_blocked=reg.open_all, hang=hang)
        if not returned:
            out["hung_op"] = i
            hung = True
            break
        if isinstance(res, BaseException):
            out["notes"].append("op %d (%s) raised %s: %s" % (i, o, type(res).__name__, res))
            out["hung_op"] = i
            out["raised"] = type(res).__name__
            break
        out["returned"] += 1
        if o in ("CL", "CX"):
            st["closed"] = True
            measure_closed()           # immediately after the call returned
    if st["server"] is not None and not st["closed"]:
        out["socket_open"] = st["server"].socket.fileno() != -1
    if hung:
        reg.open_all()
        out["notes"].append("threads: %s" % sorted(t.name for t in threading.enumerate() if t not in before))
        return out, True
    # is the serving thread still inside its loop?  After a stop call that follows the last "S" it has to end.
    if st["serve"] is not None:
        last_s = max(i for i, o in enumerate(hist) if o == "S")
        if any(o in ("SD", "CL") for o in hist[last_s:]):
            st["serve"].join(hang)
        out["serve_alive"] = st["serve"].is_alive()
    else:
        out["serve_alive"] = False
    # in-flight requests eventually complete, each with its own reply
    reg.open_all()
    for tok, t, box in clients:
        t.join(hang)
        if t.is_alive() or not box.get("ok"):
            out["replies_ok"] = False
            out["notes"].append("slow request %s: %r" % (tok, box.get("info", "no reply")))
    # clean up whatever the history left running
    dirty = False
    srv = st["server"]
    if srv is not None and not st["closed"]:
        if st["serve"] is not None and st["serve"].is_alive():
            r, _ = K.watchdog_call(srv.shutdown, hang=hang)
            dirty = dirty or not r
        if dirty:
            pass
        elif kind == "pooled" and st["serve"] is None:
            # never served and not closed by the history: on the pinned tree server_close() would hang (F7; that is
            # observed by the histories containing CL).  No request was accepted, so closing the socket is all there is.
            srv.socket.close()
        else:
            r, _ = K.watchdog_call(srv.server_close, hang=hang)
            dirty = dirty or not r
    if st["pool"] is not None:
        K.watchdog_call(st["pool"].stop, hang=hang)
    if st["blocker"] is not None:
        st["blocker"].close()
    if st["serve"] is not None:
        st["serve"].join(hang)
    shutil.rmtree(tmp, ignore_errors=True)
    return out, dirty


def main():
    env.use_repo()
    for line in sys.stdin:
        line = line.strip()
        if not line:
            continue
        case = json.loads(line)
        try:
            out, dirty = run_history(case)
        except BaseException as ex:   # noqa
            import traceback
            out, dirty = {"harness_error": "%s: %s" % (type(ex).__name__, ex), "trace": traceback.format_exc()[-1500:]}, True
        out["_dirty"] = bool(dirty)
        sys.stdout.write(json.dumps(out) + "\n")
        sys.stdout.flush()
        if dirty:
            os._exit(3)
    os._exit(0)


if __name__ == "__main__":
    main()
