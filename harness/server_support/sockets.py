"""Real-socket scenarios of property C12: one server, many concurrent raw clients released by a barrier,
slow methods gated by events, follow-up requests after the concurrent phase, then the stop sequence."""
import shutil
import tempfile
import threading

from harness.server_support import common as K

_COUNTER = [0]


def reference_table(server, reg, mats):
    """single-threaded replies of the same dispatcher: data -> (reply text | None when it raises, tokens)"""
    table = {}
    saved = reg.swap_log()
    try:
        for m in mats:
            if not K.in_model(m["k"]) or m["path"] != "/" or m["clen"] is None:
                continue
            data = m["body"][:m["clen"]]
            if data in table:
                continue
            reg.swap_log()
            try:
                text = server._marshaled_dispatch(data, None, "/")
            except BaseException:   # noqa  (whatever escapes the dispatcher: the reference has no reply then)
                text = None
            table[data] = (text, reg.swap_log())
    finally:
        reg.log = saved
    return table


def conn_observations(mats, replies, log):
    """per connection: (status, body, tokens executed on its behalf in log order)"""
    obs = []
    for m, resp in zip(mats, replies):
        status, body = K.parse_http(resp)
        mine = set(m["tokens"])
        obs.append({"status": status, "body": body, "effects": [t for t in log if t in mine],
                    "error": None if isinstance(resp, (bytes, bytearray)) else repr(resp)[:100]})
    return obs


def run_scenario(case):
    # socketserver.handle_error prints tracebacks of handler crashes (e.g. send_error over a Unix socket) on stderr
    import contextlib
    import os
    with open(os.devnull, "w") as null, contextlib.redirect_stderr(null):
        return _run_scenario(case)


def _run_scenario(case):
    kind, pool, family = case["server"], case.get("pool"), case["family"]
    descs, followups = case["conns"], case.get("followups", [])
    _COUNTER[0] += 1
    tag = "s%d" % _COUNTER[0]
    tmp = tempfile.mkdtemp(prefix="c12sock")
    reg = K.Registry()
    before = set(threading.enumerate())
    out = {"stuck_clients": 0, "stop": {}, "notes": []}
    server = user_pool = serve = None
    try:
        server, user_pool, addr, fam, prefix = K.make_server(kind, pool, family, tmp, tag)
        reg.register(server)
        serve = threading.Thread(target=server.serve_forever, kwargs={"poll_interval": 0.01}, name="c12-serve", daemon=True)
        serve.start()
        mats = [K.materialize(d) for d in descs]
        n = len(mats)
        replies = [None] * n
        barrier = threading.Barrier(n) if n else None
        fast_left = [sum(1 for m in mats if m["k"] != "slow")]
        fast_done = threading.Event()
        if fast_left[0] == 0:
            fast_done.set()
        cnt_lock = threading.Lock()

        def client(i):
            try:
                barrier.wait(K.HANG)
            except threading.BrokenBarrierError:
                pass
            if mats[i]["k"] == "abandon":
                replies[i] = K.http_send_and_leave(fam, addr, mats[i]["raw"])
            else:
                replies[i] = K.http_exchange(fam, addr, mats[i]["raw"], half_close=mats[i].get("half_close", False))
            if mats[i]["k"] != "slow":
                with cnt_lock:
                    fast_left[0] -= 1
                    if fast_left[0] == 0:
                        fast_done.set()

        n_slow = sum(1 for m in mats if m["k"] in ("slow", "abandon"))
        overlap = K.pool_size(kind, pool) > n_slow     # a worker stays free for the other requests

        def opener(tok):
            # the gate opens only after the method has been entered; when the others can be served meanwhile,
            # it also waits for their replies (bounded: the wait never decides anything)
            reg.entered(tok).wait(K.HANG)
            if overlap:
                fast_done.wait(2.0)
            reg.gate(tok).set()

        threads = [threading.Thread(target=client, args=(i,), name="c12-client-%d" % i, daemon=True) for i in range(n)]
        openers = [threading.Thread(target=opener, args=(m["tokens"] and list(m["tokens"])[0],), name="c12-opener", daemon=True)
                   for m in mats if m["k"] in ("slow", "abandon")]
        for t in threads + openers:
            t.start()
        for t in threads:
            t.join(K.IO_TIMEOUT + K.HANG)
        out["stuck_clients"] = sum(1 for t in threads if t.is_alive())
        reg.open_all()
        # service continues: sequential requests after the concurrent phase
        fmats = [K.materialize(d) for d in followups]
        freplies = [K.http_exchange(fam, addr, m["raw"], half_close=m.get("half_close", False)) for m in fmats]
        # the stop sequence of the property
        r1, x1 = K.watchdog_call(server.shutdown)
        out["stop"]["shutdown_returned"] = r1
        if r1:
            r2, x2 = K.watchdog_call(server.server_close)
            out["stop"]["close_returned"] = r2
            if r2:
                out["stop"]["socket_closed"] = server.socket.fileno() == -1
                out["stop"]["workers_dead"] = not K.pool_workers(prefix, before)
        log = list(reg.log)
        out["log"] = log
        out["conns"] = conn_observations(mats, replies, log)
        out["followups"] = conn_observations(fmats, freplies, log)
        tbl = reference_table(server, reg, mats + fmats)
        out["table"] = [[d, t, e] for d, (t, e) in tbl.items()]
        return out
    finally:
        reg.open_all()
        try:
            if server is not None and server.socket.fileno() != -1:
                if serve is not None and serve.is_alive():
                    K.watchdog_call(server.shutdown, hang=5.0)
                server.socket.close()
            if user_pool is not None:
                K.watchdog_call(user_pool.stop, hang=5.0)
        except Exception:     # noqa
            pass
        shutil.rmtree(tmp, ignore_errors=True)
