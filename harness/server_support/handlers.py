"""Handler-level runs of property C12 without sockets: the real request handler class of a real
(unbound) SimpleJSONRPCServer is instantiated on in-memory connections, one real thread per connection,
interleaved at source-line granularity of SimpleJSONRPCServer.py by a baton that follows a schedule."""
import io
import os
import sys
import threading

from harness.server_support import common as K


class FakeSocket(object):
    """what StreamRequestHandler needs from a connection: makefile() for reading, sendall() for writing"""

    def __init__(self, raw):
        self._in = io.BytesIO(raw)
        self.out = bytearray()

    def makefile(self, mode="rb", bufsize=-1):
        if "r" in mode:
            return self._in
        return _Writer(self)

    def sendall(self, data):
        self.out += bytes(data)

    def send(self, data):
        self.out += bytes(data)
        return len(data)

    def setsockopt(self, *a):
        pass

    def settimeout(self, *a):
        pass

    def shutdown(self, *a):
        pass

    def close(self):
        pass


class _Writer(io.RawIOBase):
    def __init__(self, sock):
        self.sock = sock

    def writable(self):
        return True

    def write(self, b):
        self.sock.sendall(b)
        return len(b)


class Baton(object):
    """Only the thread whose turn it is runs code of the traced file; a turn lasts until the next line event
    there.  Turns follow `schedule` (entries naming finished threads are skipped); when it is exhausted the
    remaining threads run freely."""

    def __init__(self, n, schedule):
        self.cv = threading.Condition()
        self.alive = set(range(n))
        self.sched = list(schedule)
        self.pos = 0
        self.turn = None
        self.free = False
        self.stuck = False
        self.switches = 0
        self.holding = set()
        with self.cv:
            self._advance()

    def _advance(self):
        prev = self.turn
        while self.pos < len(self.sched):
            t = self.sched[self.pos]
            self.pos += 1
            if t in self.alive:
                if prev is not None and t != prev:
                    self.switches += 1
                self.turn = t
                return
        self.turn = None
        self.free = True

    def yield_point(self, idx):
        with self.cv:
            if self.free:
                return
            if idx in self.holding:          # end of my turn
                self.holding.discard(idx)
                self._advance()
                self.cv.notify_all()
            while not self.free and self.turn != idx:
                if not self.cv.wait(K.HANG):
                    self.stuck = True
                    self.free = True
                    self.cv.notify_all()
            self.holding.add(idx)

    def finish(self, idx):
        with self.cv:
            self.alive.discard(idx)
            self.holding.discard(idx)
            if self.turn == idx:
                self._advance()
            self.cv.notify_all()


def make_dispatch_server(kind="plain"):
    """a real server object that never binds: it carries the dispatcher and the handler class"""
    import jsonrpclib.SimpleJSONRPCServer as S
    srv = S.SimpleJSONRPCServer(("127.0.0.1", 0), logRequests=False, bind_and_activate=False)
    srv.socket.close()
    return srv


def run_handlers(server, raws, schedule):
    """-> (list of raw reply bytes per connection, baton)"""
    import jsonrpclib.SimpleJSONRPCServer as S
    traced = S.__file__
    n = len(raws)
    baton = Baton(n, schedule)
    socks = [FakeSocket(r) for r in raws]
    errors = [None] * n
    prev_hook = threading.gettrace() if hasattr(threading, "gettrace") else None

    def worker(i):
        def local_factory(prev_local):
            def local(frame, event, arg):
                nonlocal prev_local
                if prev_local is not None:
                    prev_local = prev_local(frame, event, arg)
                if event == "line":
                    baton.yield_point(i)
                return local
            return local

        def glob(frame, event, arg):
            pl = prev_hook(frame, event, arg) if prev_hook is not None else None
            if frame.f_code.co_filename == traced:
                return local_factory(pl)
            return pl
        sys.settrace(glob)
        try:
            baton.yield_point(i)
            server.RequestHandlerClass(socks[i], ("127.0.0.1", 40000 + i), server)
        except BaseException as ex:    # noqa
            errors[i] = ex
        finally:
            sys.settrace(None)
            baton.finish(i)

    threads = [threading.Thread(target=worker, args=(i,), name="c12-handler-%d" % i, daemon=True) for i in range(n)]
    for t in threads:
        t.start()
    for t in threads:
        t.join(3 * K.HANG)
    hung = [i for i, t in enumerate(threads) if t.is_alive()]
    return [bytes(s.out) for s in socks], baton, errors, hung
